"""developer tool: apply /verif/seeded/<name>/patch.diff to a throw-away export of /repo HEAD and print what every (or the named) check reports.
usage: python tools/seedrun.py <seed name> [PROP ...]"""
import sys, subprocess, tempfile, shutil, pathlib
sys.path.insert(0,'/verif')
from sa.model import Program, CORE_MODULES, EXTRA_MODULES
from sa.cli import analyse, PROPS
name=sys.argv[1]; props=sys.argv[2:] or PROPS
d=tempfile.mkdtemp(prefix='sr_',dir='/tmp')
subprocess.run(f"git -C /repo archive HEAD src | tar -x -C {d}", shell=True, check=True)
subprocess.run(["git","apply",f"/verif/seeded/{name}/patch.diff"],cwd=d,check=True)
root=pathlib.Path(d)/'src'/'aioftp'
srcs={m:(root/m).read_text() for m in CORE_MODULES+EXTRA_MODULES if (root/m).exists()}
p=Program(srcs)
print("inlined",p.inlined,"renamed",p.renamed,"localised",p.localised,"consts",p.constants)
for pr in props:
    st,F,ctx,msg=analyse(pr,srcs)
    if st!="ok" or F:
        print(pr,st,(msg or "")[:300])
        for f in F: print("   ",f.key())
shutil.rmtree(d)
