"""developer tool: turn a selection of mutation-sweep mutants (one or two per rule that reports them) into text-edit seeds for the thorough tier
(tools/mutsweep_results/witnesses.json, read by tools/build_seeds.py). The edit replaces the source lines of the statement that encloses the mutated node
by the unparsed mutated statement, so it applies to the original formatting of the file."""
import ast, copy, json, pathlib, sys, textwrap
ROOT = pathlib.Path(__file__).resolve().parent.parent
sys.path.insert(0, str(ROOT))
sys.path.insert(0, str(ROOT / "tools"))
WORK = pathlib.Path("/root/work/mut")
SRC = pathlib.Path("/repo/src/aioftp")


def stmt_edit(mod, mutated_source):
    """(old text, new text) of the smallest top-level-or-nested statement whose unparsed text differs"""
    orig_text = (SRC / mod).read_text()
    a, b = ast.parse(orig_text), ast.parse(mutated_source)
    lines = orig_text.splitlines(keepends=True)

    def differ(x, y):
        return ast.dump(x) != ast.dump(y)

    def descend(x, y):
        # find the deepest pair of corresponding statements that differ while their statement lists have equal length
        for fld in ("body", "orelse", "finalbody", "handlers"):
            bx, by = getattr(x, fld, None), getattr(y, fld, None)
            if isinstance(bx, list) and isinstance(by, list) and bx and isinstance(bx[0], (ast.stmt, ast.ExceptHandler)):
                if len(bx) != len(by):
                    return None
                diff = [(p_, q_) for p_, q_ in zip(bx, by) if differ(p_, q_)]
                if len(diff) == 1:
                    inner = descend(*diff[0])
                    return inner if inner is not None else diff[0]
                if len(diff) > 1:
                    return None
        return None
    pair = descend(a, b)
    if pair is None:
        return None
    x, y = pair
    if isinstance(x, ast.ExceptHandler):
        return None
    first = min([x.lineno] + [d.lineno for d in getattr(x, "decorator_list", [])])
    old = "".join(lines[first - 1:x.end_lineno])
    indent = old[:len(old) - len(old.lstrip(" "))]
    new = textwrap.indent(ast.unparse(y), indent) + "\n"
    if orig_text.count(old) != 1:
        return None
    return old, new


def main():
    out = []
    per_rule = {}
    for suf in ("", "2"):
        mf, cf_ = WORK / f"mutants{suf}.json", WORK / f"checks{suf}.json"
        if not mf.exists() or not cf_.exists():
            continue
        allm = {x["id"]: x for x in json.loads(mf.read_text())}
        res = json.loads(cf_.read_text())
        for i, fired in sorted(res.items(), key=lambda kv: int(kv[0])):
            for pr, rules in fired.items():
                if isinstance(rules, str):
                    continue
                for r in rules:
                    if not r.startswith(pr + "."):
                        continue
                    if len(per_rule.setdefault(r, [])) >= 2:
                        continue
                    x = allm[int(i)]
                    ed = stmt_edit(x["module"], x["source"])
                    if ed is None:
                        continue
                    per_rule[r].append(int(i))
                    out.append({"id": f"mutant/{i}:{x['desc'][:50]}", "property": pr, "rule": r, "module": x["module"], "old": ed[0], "new": ed[1]})
    (ROOT / "tools" / "mutsweep_results" / "witnesses.json").write_text(json.dumps(out, indent=0) + "\n")
    print(len(out), "witness seeds for", len(per_rule), "rules")


main()
