#!/bin/sh
# developer helper: run every quick check, print one line each, non-zero exit if any is not 0
cd "$(dirname "$0")/.." || exit 2
rc=0
for i in 01 02 03 04 05 06 07 08 09 10 11 12 13 14 15 16 17 18 19 20; do
  out=$(./check C$i "$@"); r=$?
  echo "$out" | tail -1 | sed "s/^/rc=$r /"
  [ $r -ne 0 ] && rc=1 && echo "$out" | head -5
done
exit $rc
