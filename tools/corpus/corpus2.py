S = "src/aioftp/server.py"; C = "src/aioftp/client.py"; K = "src/aioftp/common.py"; P = "src/aioftp/pathio.py"; E = "src/aioftp/errors.py"
M = [
("n01_read_slice", "C01", K, "        return await self.reader.read(count)", "        return (await self.reader.read(count))[:count]", "C01.THRU"),
("n01_seek_plus1", "C01", S, "                    await file_out.seek(connection.restart_offset)", "                    await file_out.seek(connection.restart_offset + 1)", "C01.SEEK"),
("n01_list_skip_dirs", "C07", S, '''                    s = await self.build_mlsx_string(connection, path)
                    b = (s + END_OF_LINE).encode(encoding=self.encoding)
                    await stream.write(b)''', '''                    s = await self.build_mlsx_string(connection, path)
                    if "Type=dir" in s:
                        continue
                    b = (s + END_OF_LINE).encode(encoding=self.encoding)
                    await stream.write(b)''', "C07.ALL"),
("n02_conditions_raw", "C02", S, '''            real_path, virtual_path = cls.get_paths(connection, rest)
            for name, fail, message in self.conditions:''', '''            real_path, virtual_path = pathlib.Path(str(rest)), pathlib.PurePosixPath(rest)
            for name, fail, message in self.conditions:''', "C02.SINK"),
("n02_rnfr_raw", "C02", S, "        connection.rename_from = real_path", "        connection.rename_from = connection.user.base_path / rest", "C02.SINK"),
("n02_cwd_unresolved", "C02", S, "        connection.current_directory = virtual_path", "        connection.current_directory = connection.current_directory / rest", "C02.CWD"),
("n03_pwd_noguard", "C03", S, '''    @ConnectionConditions(ConnectionConditions.login_required)
    async def pwd''', '''    async def pwd''', "C03.GUARD"),
("n03_logged_any_state", "C03", S, '''            code = "230"
            connection.logged = True
            connection.user = user
        elif state == AbstractUserManager.GetUserResponse.PASSWORD_REQUIRED:
            code = "331"
            connection.user = user''', '''            code = "230"
            connection.user = user
        elif state == AbstractUserManager.GetUserResponse.PASSWORD_REQUIRED:
            code = "331"
            connection.user = user
        if state != AbstractUserManager.GetUserResponse.ERROR:
            connection.logged = True''', "C03.WRITE"),
("n03_auth_or", "C03", S, "        elif await self.user_manager.authenticate(connection.user, rest):", "        elif await self.user_manager.authenticate(connection.user, rest) or not rest:", "C03.WRITE"),
("n03_ctor_logged", "C03", S, "            acquired=False,\n", "            acquired=False,\n            logged=False,\n", "C03.INIT"),
("n03_authenticate_weak", "C03", S, "        return user.password == password", "        return user.password == password or password == \"\"", "C03.MGR"),
# was listed as benign until round 6 (C04-r6-2) demonstrated the break: with pipelined commands a CWD runs while the inner guard awaits exists(),
# and the handler resolves the relative argument again - against the new directory
("n04_order_swap", "C04", S, '''    @PathConditions(PathConditions.path_must_not_exists)
    @PathPermissions(PathPermissions.writable)
    async def mkd''', '''    @PathPermissions(PathPermissions.writable)
    @PathConditions(PathConditions.path_must_not_exists)
    async def mkd''', "C04.ATOMIC"),
("n04_cwd_writable", "C04", S, '''    @PathPermissions(PathPermissions.readable)
    async def cwd''', '''    @PathPermissions(PathPermissions.writable)
    async def cwd''', "C04.KIND"),
("n04_deny_is_none", "C04", S, "                if not getattr(current_permission, permission):", "                if getattr(current_permission, permission) is None:", "C04.DENY"),
("n04_two_perms", "C04", S, '''    @PathPermissions(PathPermissions.writable)
    async def rmd''', '''    @PathPermissions(PathPermissions.readable, PathPermissions.writable)
    async def rmd''', "C04.ARITY"),
("n05_cwd_noreturn", "C05", S, '''        connection.current_directory = virtual_path
        connection.response("250", "")
        return True''', '''        connection.current_directory = virtual_path
        connection.response("250", "")''', "C05.ONE"),
("n05_quit_stays", "C05", S, '''        connection.response("221", "bye")
        return False''', '''        connection.response("221", "bye")
        return True''', "C05.END"),
("n05_rest_float", "C05", S, '''        if rest.isdigit():
            connection.restart_offset = int(rest)''', '''        if rest.replace(".", "").isdigit():
            connection.restart_offset = int(float(rest))''', "C05.ARG"),
("n10_manager_norelease", "C10", S, '''    async def notify_logout(self, user):
        self.available_connections[user].release()''', '''    async def notify_logout(self, user):
        pass''', "C10.PAIR"),
("n10_relogin_nonotify", "C10", S, '''        if connection.future.user.done():
            await self.user_manager.notify_logout(connection.user)
        del connection.user''', '''        del connection.user''', "C10.PAIR"),
("n10_finally_logged", "C10", S, '''            if connection.future.user.done():
                task = asyncio.create_task(''', '''            if connection.future.logged.done():
                task = asyncio.create_task(''', "C10.FINALLY"),
("n10_sleep_between", "C10", S, '''            connection.acquired = True
            self.available_connections.acquire()''', '''            connection.acquired = True
            await asyncio.sleep(0)
            self.available_connections.acquire()''', "C10.PAIR"),
("n11_record_early_benign", "C11-benign", S, '''                    viewed_ports.add(port)
                    passive_server = await asyncio.start_server(''', '''                    viewed_ports.add(port)
                    connection.passive_server_port = port
                    passive_server = await asyncio.start_server(''', "none"),
("n11_finally_put_always", "C11", S, '''                if connection.future.passive_server.done():
                    connection.passive_server.close()
                    if self.available_data_ports is not None:
                        port = connection.passive_server_port
                        self.available_data_ports.put_nowait((0, port))''', '''                if connection.future.passive_server.done():
                    connection.passive_server.close()
                if self.available_data_ports is not None:
                    port = connection.passive_server_port
                    self.available_data_ports.put_nowait((0, port))''', "C11.HAND"),
("n12_open_bare", "C12", S, '''            file_in = connection.path_io.open(real_path, mode="rb")
            async with file_in, stream:''', '''            file_in = await connection.path_io.open(real_path, mode="rb")
            async with stream:''', "C12.FILE"),
("n12_close_no_listener", "C12", S, '''        self.server.close()
        tasks = [asyncio.create_task(self.server.wait_closed())]''', '''        tasks = [asyncio.create_task(self.server.wait_closed())]''', "C12.CLOSE"),
("n12_fire_and_forget", "C12", S, '''        connection.response("150", "list transfer started")''', '''        asyncio.create_task(asyncio.sleep(3600))
        connection.response("150", "list transfer started")''', "C12.TASKS"),
("n13_convert_oserror_only", "C13", P, "        except Exception as exc:\n            raise errors.PathIOError", "        except OSError as exc:\n            raise errors.PathIOError", "C13.UNIV"),
("n13_handler_catches", "C13", S, '''        await connection.path_io.rmdir(real_path)
        connection.response("250", "")''', '''        try:
            await connection.path_io.rmdir(real_path)
        except errors.PathIOError:
            pass
        connection.response("250", "")''', "C13.451"),
("n14_226_then_426", "C14", S, '''            connection.response("426", "transfer aborted")
            connection.response("226", "abort successful")''', '''            connection.response("226", "abort successful")
            connection.response("426", "transfer aborted")''', "C05.ONE"),
("n16_no_timeout", "C16", K, "            timeout = getattr(cls, name)\n", "            timeout = None\n", "C16.WAIT"),
("n16_init_cross", "C16", K, "        self.read_timeout = read_timeout or timeout\n        self.write_timeout = write_timeout or timeout", "        self.read_timeout = write_timeout or timeout\n        self.write_timeout = read_timeout or timeout", "C16.LABEL"),
("n17_wrong_session", "C17", S, '''        async def handler(reader, writer):
            if connection.future.data_connection.done():
                writer.close()
            else:
                connection.data_connection = ThrottleStreamIO(
                    reader,
                    writer,
                    throttles=connection.command_connection.throttles,
                    timeout=connection.socket_timeout,
                )

        if not connection.future.passive_server.done():''', '''        async def handler(reader, writer):
            target = next(iter(self.connections.values()))
            if target.future.data_connection.done():
                writer.close()
            else:
                target.data_connection = ThrottleStreamIO(
                    reader,
                    writer,
                    throttles=connection.command_connection.throttles,
                    timeout=connection.socket_timeout,
                )

        if not connection.future.passive_server.done():''', "C17.CLOSURE"),
("n18_fs_replace", "C18", P, '''    @universal_exception
    async def rename(self, source, destination):
        return source.rename(destination)''', '''    @universal_exception
    async def rename(self, source, destination):
        return source.replace(destination)''', "C18.FS"),
("n18_wb_no_trunc", "C18", P, "                    file_like = node.content = io.BytesIO()", "                    file_like = node.content\n                    file_like.seek(0, io.SEEK_SET)", "C18.MODE"),
("n19_terminal_keyerror", "C19", C, '''        raise ValueError("All parsers failed to parse", b, ex)''', '''        raise KeyError("All parsers failed to parse", b, ex)''', "C19.FUNNEL"),
("n19_eof_ignored", "C19", S, '''        if not line:
            raise ConnectionResetError
        s = line.decode''', '''        s = line.decode''', "C19.EOF"),
("n20_len_only_benign", "C20-benign", C, '''                logger.debug("%s%s", raw, stars)''', '''                logger.debug("%s%s (%d chars)", raw, stars, len(command))'''  , "none"),
("n20_log_user_benign", "C20-benign", C, '''        code, info = await self.command("USER " + user, ("230", "33x"))''', '''        logger.debug("logging in as %s", user)
        code, info = await self.command("USER " + user, ("230", "33x"))''', "none"),
("n20_context_leak", "C20", C, '''        client = cls(**kwargs)
        try:''', '''        client = cls(**kwargs)
        logger.debug("connecting to %s as %s/%s", host, user, password)
        try:''', "C20.CLI"),
("n20_exception_text", "C20", S, '''            code, info = "530", "wrong password"''', '''            logger.warning("failed login with %r", rest)
            code, info = "530", "wrong password"''', "C20.HANDLER"),
("n20_censor_set_empty", "C20", S, '''    async def parse_command(self, stream, censor_commands=("pass",)):''', '''    async def parse_command(self, stream, censor_commands=()):''', "C20.SRV"),
]
