# (id, property, file, old, new, expected rule)
S = "src/aioftp/server.py"; C = "src/aioftp/client.py"; K = "src/aioftp/common.py"; P = "src/aioftp/pathio.py"; E = "src/aioftp/errors.py"
M = [
("m01_ack_inside", "C01", S, '''                async for data in stream.iter_by_block(connection.block_size):
                    await file_out.write(data)
            connection.response("226", "data transfer done")''', '''                async for data in stream.iter_by_block(connection.block_size):
                    await file_out.write(data)
                connection.response("226", "data transfer done")''', "C01.ACK"),
("m01_retr_noseek", "C01", S, '''                if connection.restart_offset:
                    await file_in.seek(connection.restart_offset)''', '''                if False:
                    await file_in.seek(connection.restart_offset)''', "C01.SEEK"),
("m01_short_tail", "C01", K, '''        if data:
            return data''', '''        if len(data) > 1:
            return data''', "C01.EOF"),
("m01_write_trunc", "C01", K, "        self.writer.write(data)\n", "        self.writer.write(data[:65536])\n", "C01.THRU"),
("m01_stor_wb", "C01", S, '''                file_mode = "r+b"''', '''                file_mode = "wb"''', "C01.SEEK"),
("m01_keep_noappe", "C01", S, '''if cmd not in ("retr", "stor", "appe"):''', '''if cmd not in ("retr", "stor"):''', "C01.KEEP"),
("m01_crlf_munge", "C01", S, "                    await file_out.write(data)\n", '                    await file_out.write(data.replace(b"\\r\\n", b"\\n"))\n', "C01.COPY"),
("m01_benign_blocksize", "C01-benign", S, "async for data in file_in.iter_by_block(connection.block_size):", "async for data in file_in.iter_by_block(connection.block_size - 1):", "none"),
("m02_no_dotdot", "C02", S, '''            if part == "..":''', '''            if part == "...":''', "C02.RES"),
("m02_join_unresolved", "C02", S, '''real_path = base_path / str(resolved_virtual_path.relative_to("/"))''', '''real_path = base_path / str(virtual_path.relative_to("/"))''', "C02.RES"),
("m02_depth_only", "C02", S, '''            if part == "..":''', '''            if part == ".." and len(resolved_virtual_path.parts) < 4:''', "C02.RES"),
("m02_ret_unresolved", "C02", S, "        return real_path, resolved_virtual_path", "        return real_path, virtual_path", "C02.RES"),
("m02_mkd_wire", "C02", S, "        await connection.path_io.mkdir(real_path, parents=True)", "        await connection.path_io.mkdir(connection.user.base_path / rest, parents=True)", "C02.SINK"),
("m03_keep_logged", "C03", S, "        del connection.user\n        del connection.logged\n", "        del connection.user\n", "C03.DROP"),
("m03_mlst_noguard", "C03", S, '''    @ConnectionConditions(ConnectionConditions.login_required)
    @PathConditions(PathConditions.path_must_exists)
    @PathPermissions(PathPermissions.readable)
    async def mlst''', '''    @PathConditions(PathConditions.path_must_exists)
    @PathPermissions(PathPermissions.readable)
    async def mlst''', "C03.GUARD"),
("m03_rnto_noguard", "C03", S, '''        ConnectionConditions.login_required,
        ConnectionConditions.rename_from_required,''', '''        ConnectionConditions.rename_from_required,''', "C03.GUARD"),
("m03_dele_order", "C03", S, '''    @ConnectionConditions(ConnectionConditions.login_required)
    @PathConditions(
        PathConditions.path_must_exists,
        PathConditions.path_must_be_file,
    )
    @PathPermissions(PathPermissions.writable)
    async def dele''', '''    @PathConditions(
        PathConditions.path_must_exists,
        PathConditions.path_must_be_file,
    )
    @ConnectionConditions(ConnectionConditions.login_required)
    @PathPermissions(PathPermissions.writable)
    async def dele''', "C03.GUARD"),
("m03_pass_sets_logged_on_fail", "C03", S, '''            code, info = "530", "wrong password"''', '''            connection.logged = True
            code, info = "530", "wrong password"''', "C03.WRITE"),
("m04_dele_readable", "C04", S, '''    @PathPermissions(PathPermissions.writable)
    async def dele''', '''    @PathPermissions(PathPermissions.readable)
    async def dele''', "C04.KIND"),
("m04_rnto_noperm", "C04", S, '''    @PathConditions(PathConditions.path_must_not_exists)
    @PathPermissions(PathPermissions.writable)
    async def rnto''', '''    @PathConditions(PathConditions.path_must_not_exists)
    async def rnto''', "C04.KIND"),
("m04_retr_noperm", "C04", S, '''    @PathPermissions(PathPermissions.readable)
    async def retr''', '''    async def retr''', "C04.KIND"),
("m04_lookup_rest", "C04", S, '''            current_permission = await connection.user.get_permissions(
                virtual_path,
            )''', '''            current_permission = await connection.user.get_permissions(
                rest,
            )''', "C04.ARG"),
("m04_farthest", "C04", S, '''        perm = min(
            parents,''', '''        perm = max(
            parents,''', "C04.NEAR"),
("m05_dele_twice", "C05", S, '''        await connection.path_io.unlink(real_path)
        connection.response("250", "")''', '''        await connection.path_io.unlink(real_path)
        connection.response("250", "")
        connection.response("250", "")''', "C05.ONE"),
("m05_rnfr_noreply", "C05", S, '''        connection.response("350", "rename from accepted")\n''', "", "C05.ONE"),
("m05_type_drop", "C05", S, '''            code, info = "502", f"type {rest!r} not implemented"
        connection.response(code, info)
        return True''', '''            connection.response("502", f"type {rest!r} not implemented")
            return False
        connection.response(code, info)
        return True''', "C05.END"),
("m05_no502", "C05", S, '''                            message = f"{cmd!r} not implemented"
                            connection.response("502", message)''', '''                            message = f"{cmd!r} not implemented"''', "C05.ONE"),
("m06_body_drop_last", "C06", S, '''            *body, tail = lines
            for line in body:''', '''            *body, tail = lines
            for line in body[:-1]:''', "C06.ENC"),
("m06_list_nospace", "C06", S, '''                await write(" " + line)''', '''                await write(line)''', "C06.ENC"),
("m06_matches_any", "C06", C, "        return all(map(lambda m, c: not m.isdigit() or m == c, mask, self))", "        return any(map(lambda m, c: not m.isdigit() or m == c, mask, self))", "C06.MASK"),
("m07_modify_ctime", "C07", S, '''            "Modify": self._format_mlsx_time(stats.st_mtime),''', '''            "Modify": self._format_mlsx_time(stats.st_ctime),''', "C07.FACT"),
("m07_half_early", "C07", S, "            if now - HALF_OF_YEAR_IN_SECONDS < st_mtime <= now:", "            if now - (HALF_OF_YEAR_IN_SECONDS - 86400) < st_mtime <= now:", "C07.HALF"),
("m07_year_sign", "C07", C, "                        d = d.replace(year=now.year - 1)", "                        d = d.replace(year=now.year + 1)", "C07.HALF"),
("m07_list_size_nlink", "C07", S, '''            str(stats.st_size),
            mtime,''', '''            str(stats.st_nlink),
            mtime,''', "C07.FACT"),
("m08_mlsx_strip", "C08", C, "        return pathlib.PurePosixPath(name), entry", "        return pathlib.PurePosixPath(name.strip()), entry", "C08.CARRY"),
("m08_srv_arg_strip", "C08", S, "        return cmd.lower(), rest", "        return cmd.lower(), rest.strip()", "C08.CARRY"),
("m08_cwd_nospace", "C08", C, '''            cmd = "CWD " + str(path)''', '''            cmd = "CWD " + str(path).lstrip()''', "C08.SEND"),
("m09_skip_empty_dirs", "C09", C, '''                    if await self.path_io.is_dir(path):
                        await self.make_directory(relative)
                        sources.append(path)''', '''                    if await self.path_io.is_dir(path):
                        sources.append(path)''', "C09.REC"),
("m09_no_dot_skip", "C09", C, '''                    if str(name) in (".", ".."):
                        continue''', '''                    if str(name) in ():
                        continue''', "C09.LIST/C19.DOT"),
("m09_rm_preorder", "C09", C, '''                for name, info in await self.list(path):
                    if info["type"] in ("dir", "file"):
                        await self.remove(name)
                await self.remove_directory(path)''', '''                for name, info in await self.list(path):
                    if info["type"] in ("file",):
                        await self.remove(name)
                await self.remove_directory(path)''', "C09.RM"),
("m10_release_nested", "C10", S, '''                stream.close()
            if connection.acquired:
                self.available_connections.release()''', '''                stream.close()
                if connection.acquired:
                    self.available_connections.release()''', "C10.FINALLY"),
("m10_no_del_user", "C10", S, "        del connection.user\n        del connection.logged\n", "        del connection.logged\n", "C10.PAIR"),
("m10_flag_never", "C10", S, "            connection.acquired = True\n", "", "C10.PAIR"),
("m10_quit_releases", "C10", S, '''        connection.response("221", "bye")
        return False''', '''        connection.response("221", "bye")
        self.available_connections.release()
        return False''', "C10.WHO"),
("m11_not_oserror", "C11", E, "class NoAvailablePort(AIOFTPException, OSError):", "class NoAvailablePort(AIOFTPException):", "C11.TOKEN"),
("m11_no_final_putback", "C11", S, '''                        port = connection.passive_server_port
                        self.available_data_ports.put_nowait((0, port))''', '''                        port = connection.passive_server_port''', "C11.HAND"),
("m11_no_oserror_putback", "C11", S, '''                    self.available_data_ports.put_nowait((priority + 1, port))
                    if err.errno != errno.EADDRINUSE:''', '''                    if err.errno != errno.EADDRINUSE:''', "C11.TOKEN"),
("m11_putback_only_busy", "C11", S, '''                    self.available_data_ports.put_nowait((priority + 1, port))
                    if err.errno != errno.EADDRINUSE:
                        raise''', '''                    if err.errno != errno.EADDRINUSE:
                        raise
                    self.available_data_ports.put_nowait((priority + 1, port))''', "C11.TOKEN"),
("m12_no_data_close", "C12", S, '''                if connection.future.data_connection.done():
                    connection.data_connection.close()
                stream.close()''', '''                stream.close()''', "C12.FIELDS"),
("m12_stale_noclose", "C12", S, '''        nums = tuple(map(int, host.split("."))) + (port >> 8, port & 0xFF)
        info = [info_template.format(address=f"({','.join(map(str, nums))})")]
        if connection.future.data_connection.done():
            connection.data_connection.close()
            del connection.data_connection''', '''        nums = tuple(map(int, host.split("."))) + (port >> 8, port & 0xFF)
        info = [info_template.format(address=f"({','.join(map(str, nums))})")]
        if connection.future.data_connection.done():
            del connection.data_connection''', "C12.REPLACE"),
("m12_no_listener_close", "C12", S, '''                    connection.passive_server.close()
                    if self.available_data_ports is not None:''', '''                    if self.available_data_ports is not None:''', "C12.FIELDS"),
("m12_no_pop", "C12", S, "            self.connections.pop(key)\n", "", "C12.FIELDS"),
("m12_list_no_with", "C12", S, '''            async with stream:
                async for path in connection.path_io.list(real_path):
                    if not (await connection.path_io.exists(path)):''', '''            if True:
                async for path in connection.path_io.list(real_path):
                    if not (await connection.path_io.exists(path)):''', "C12.DETACH"),
("m13_rename_raw", "C13", P, '''    @universal_exception
    async def rename(self, source, destination):
        if source != destination:''', '''    async def rename(self, source, destination):
        if source != destination:''', "C13.UNIV"),
("m13_async_timeout_outside", "C13", P, '''    @universal_exception
    @with_timeout
    @_blocking_io
    def unlink(self, path):''', '''    @with_timeout
    @universal_exception
    @_blocking_io
    def unlink(self, path):''', "C13.UNIV"),
("m13_mkd_reply_first", "C13", S, '''        await connection.path_io.mkdir(real_path, parents=True)
        connection.response("257", "")''', '''        connection.response("257", "")
        await connection.path_io.mkdir(real_path, parents=True)''', "C13.NOSUCCESS"),
("m14_no_done_removal", "C14", S, "                connection.extra_workers -= done\n", "", "C14.DONE"),
("m14_only_226", "C14", S, '''            connection.response("426", "transfer aborted")\n''', "", "C05.ONE/C14"),
("m14_abor_noreply", "C14", S, '''        else:
            connection.response("226", "nothing to abort")
        return True''', '''        return True''', "C05.ONE"),
("m15_no_clone", "C15", S, "server_per_connection=self.throttle_per_connection.clone(),", "server_per_connection=self.throttle_per_connection,", "C15.SHARE"),
("m15_label_swap", "C15", K, '''        data = await super().read(count)
        self.append("read", data, start)''', '''        data = await super().read(count)
        self.append("write", data, start)''', "C15.DIR"),
("m15_count_ops", "C15", K, "            self._sum += len(data)", "            self._sum += 1", "C15.DIM"),
("m15_dim", "C15", K, "            end = self._start + self._sum / self._limit", "            end = self._start + self._sum * self._limit", "C15.DIM"),
("m15_data_fresh_map", "C15", S, '''                    throttles=connection.command_connection.throttles,
                    timeout=connection.socket_timeout,
                )

        if not connection.future.passive_server.done():
            coro = self._start_passive_server(connection, handler)
            try:
                connection.passive_server = await coro
            except errors.NoAvailablePort:
                connection.response("421", ["no free ports"])
                return False
            code, info_template''', '''                    throttles=dict(connection.command_connection.throttles),
                    timeout=connection.socket_timeout,
                )

        if not connection.future.passive_server.done():
            coro = self._start_passive_server(connection, handler)
            try:
                connection.passive_server = await coro
            except errors.NoAvailablePort:
                connection.response("421", ["no free ports"])
                return False
            code, info_template''', "C15.SHARE"),
("m16_swap_wrapper", "C16", K, '''    @with_timeout("write_timeout")
    async def write(self, data):''', '''    @with_timeout("read_timeout")
    async def write(self, data):''', "C16.LABEL"),
("m16_swap_wiring", "C16", S, '''            read_timeout=self.idle_timeout,
            write_timeout=self.socket_timeout,''', '''            read_timeout=self.socket_timeout,
            write_timeout=self.idle_timeout,''', "C16.WIRE"),
("m16_data_idle", "C16", S, '''                    throttles=connection.command_connection.throttles,
                    timeout=connection.socket_timeout,
                )

        if rest:''', '''                    throttles=connection.command_connection.throttles,
                    timeout=connection.idle_timeout,
                )

        if rest:''', "C16.WIRE"),
("m16_wait_always", "C16", S, '''            if self.wait:
                timeout = connection.wait_future_timeout
            else:
                timeout = 0''', '''            timeout = connection.wait_future_timeout''', "C16.WAIT/C03.WRAP"),
("m17_rest_on_server", "C17", S, '''        if rest.isdigit():
            connection.restart_offset = int(rest)''', '''        if rest.isdigit():
            self.last_restart_offset = connection.restart_offset = int(rest)''', "C17.WRITE"),
("m17_shared_workers", "C17", S, "            extra_workers=set(),", "            extra_workers=self.__dict__.setdefault('_workers', set()),", "C17.FRESH"),
("m18_async_delegate", "C18", P, '''    @_blocking_io
    def rmdir(self, path):
        return path.rmdir()''', '''    @_blocking_io
    def rmdir(self, path):
        return path.unlink()''', "C18.FS"),
("m18_ab_no_seek_end", "C18", P, '''                    file_like = node.content
                    file_like.seek(0, io.SEEK_END)''', '''                    file_like = node.content''', "C18.MODE"),
("m18_mkdir_no_typecheck", "C18", P, '''            if parent.type != "dir":
                raise NotADirectoryError
            node = Node("dir", path.name, content=[])''', '''            node = Node("dir", path.name, content=[])''', "C18.ATOMIC"),
("m19_funnel_narrow", "C19", C, "            except (ValueError, KeyError, IndexError) as e:", "            except (ValueError, KeyError) as e:", "C19.FUNNEL"),
("m19_parser_typeerror", "C19", C, '''        if not info["size"].isdigit():
            raise ValueError

        s = s[i:].lstrip()
        info["modify"]''', '''        if int(info["size"]) / len(info["unix.group"][1:]) < 0:
            raise ValueError

        s = s[i:].lstrip()
        info["modify"]''', "C19.FUNNEL"),
("m19_dispatcher_reraise", "C19", S, '''        except Exception:
            logger.exception("dispatcher caught exception")''', '''        except Exception:
            logger.exception("dispatcher caught exception")
            raise''', "C19.SRV"),
("m20_censor_exact", "C20", S, "        if cmd.lower() in censor_commands:", "        if cmd in censor_commands:", "C20.SRV"),
("m20_client_nocensor", "C20", C, "                censor_after = 5\n", "                censor_after = None\n", "C20.CLI"),
("m20_reply_echo", "C20", S, '''            code, info = "530", "wrong password"''', '''            code, info = "530", f"wrong password {rest!r}"''', "C20.HANDLER"),
("m20_log_line", "C20", S, '''        s = line.decode(encoding=self.encoding).rstrip()
        cmd, _, rest = s.partition(" ")''', '''        s = line.decode(encoding=self.encoding).rstrip()
        logger.debug("received %r", s)
        cmd, _, rest = s.partition(" ")''', "C20.SRV"),
("m20_censor_short", "C20", C, "                censor_after = 5\n", "                censor_after = 4\n", "C20.CLI"),
]
