S = "src/aioftp/server.py"; C = "src/aioftp/client.py"; K = "src/aioftp/common.py"; P = "src/aioftp/pathio.py"
B = [
("b01_rename_local", S, '''        real_path, virtual_path = self.get_paths(connection, rest)
        await connection.path_io.mkdir(real_path, parents=True)''', '''        rp, vp = self.get_paths(connection, rest)
        await connection.path_io.mkdir(rp, parents=True)'''),
("b02_extra_log", S, '''        await connection.path_io.rmdir(real_path)''', '''        logger.debug("rmd %s", virtual_path)
        await connection.path_io.rmdir(real_path)'''),
("b03_alias_block", S, '''                async for data in stream.iter_by_block(connection.block_size):
                    await file_out.write(data)''', '''                async for data in stream.iter_by_block(connection.block_size):
                    block = data
                    await file_out.write(block)'''),
("b04_nested_with", S, '''            async with stream:
                async for path in connection.path_io.list(real_path):
                    s = await self.build_mlsx_string(connection, path)''', '''            async with stream as out:
                async for path in connection.path_io.list(real_path):
                    s = await self.build_mlsx_string(connection, path)'''),
("b05_reply_direct", S, '''        code, info = "257", f'"{connection.current_directory}"'
        connection.response(code, info)''', '''        connection.response("257", f'"{connection.current_directory}"')'''),
("b06_reply_text", S, '''connection.response("350", "rename from accepted")''', '''connection.response("350", "ready for RNTO")'''),
("b07_had_user_alias", S, '''        if connection.future.user.done():
            await self.user_manager.notify_logout(connection.user)
        del connection.user''', '''        had_user = connection.future.user.done()
        if had_user:
            await self.user_manager.notify_logout(connection.user)
        del connection.user'''),
("b08_rename_param", S, '''    async def syst(self, connection, rest):''', '''    async def syst(self, connection, arg):'''),
("b09_rename_pending", S, "pending", "running"),
("b10_helper_reply", S, '''        await connection.path_io.unlink(real_path)
        connection.response("250", "")
        return True''', '''        await connection.path_io.unlink(real_path)
        return self._ok(connection)

    def _ok(self, connection):
        connection.response("250", "")
        return True'''),
("b11_isdecimal", S, "        if rest.isdigit():", "        if rest.isascii() and rest.isdigit():"),
("b12_throttle_comment", K, "            self._sum += len(data)", "            self._sum += len(data)  # bytes accounted"),
("b13_client_local", C, '''        code, info = await self.command("PWD", "257")
        directory = self.parse_directory_response(info[-1])
        return directory''', '''        code, info = await self.command("PWD", "257")
        return self.parse_directory_response(info[-1])'''),
("b14_perm_kw", S, '''        perm = min(
            parents,
            key=lambda p: len(path.relative_to(p.path).parts),
            default=Permission(),
        )
        return perm''', '''        return min(
            parents,
            key=lambda p: len(path.relative_to(p.path).parts),
            default=Permission(),
        )'''),
("b15_mode_order", P, '''        elif mode in ("wb", "ab", "r+b"):''', '''        elif mode in ("r+b", "ab", "wb"):'''),
]
