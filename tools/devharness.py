"""developer harness (not a registered check): apply each hand-written mutant of tools/corpus in memory to the
current /repo sources (or, when its anchor text only exists there, to the pinned sources) and report which
properties' analyses change their verdict.  usage: python tools/devharness.py [filter ...] [--benign]"""
import sys, pathlib, subprocess, importlib, os
sys.path.insert(0, str(pathlib.Path(__file__).resolve().parent.parent))
sys.path.insert(0, str(pathlib.Path(__file__).resolve().parent / "corpus"))
from sa.model import CORE_MODULES, EXTRA_MODULES
from sa.cli import analyse, PROPS

def current():
    root = pathlib.Path("/repo/src/aioftp")
    return {m: (root / m).read_text() for m in CORE_MODULES + EXTRA_MODULES if (root / m).exists()}
def pinned():
    out = {}
    for m in CORE_MODULES + EXTRA_MODULES:
        r = subprocess.run(["git", "-C", "/repo", "show", f"3a8549c:src/aioftp/{m}"], capture_output=True, text=True)
        if r.returncode == 0: out[m] = r.stdout
    return out
def available():
    return [p for p in PROPS if (pathlib.Path(__file__).resolve().parent.parent / "sa" / "props" / f"{p.lower()}.py").exists()]
def keys(srcs, props):
    out = set()
    for pr in props:
        st, F, ctx, msg = analyse(pr, srcs)
        if st == "ok": out |= {(pr,) + f.key() for f in F}
        else: out.add((pr, st, (msg or "")[:160], ""))
    return out
_JOB = None
_TODO = []


def _job_proxy(i):
    return _JOB(_TODO[i])


def main():
    args = [a for a in sys.argv[1:] if not a.startswith("--")]
    benign = "--benign" in sys.argv
    props = available()
    trees = [("current", current()), ("pinned", pinned())]
    base = {label: keys(s, props) for label, s in trees}
    print("props:", " ".join(props)); print({l: len(b) for l, b in base.items()})
    if benign:
        from benign import B
        items = [(bid, "benign", f, o, n, "none") for bid, f, o, n in B]
    else:
        from corpus1 import M as M1
        from corpus2 import M as M2
        items = list(M1) + list(M2)
    caught = silent = na = 0
    todo = []
    for mid, prop, file, old, new, rule in items:
        if args and not any(mid.startswith(a) or prop.startswith(a) or rule.startswith(a) for a in args): continue
        if prop[:3] not in props and not benign: continue
        todo.append((mid, prop, file, old, new, rule))
    global _JOB
    def _JOB(item):
        mid, prop, file, old, new, rule = item
        fname = file.split("/")[-1]
        for label, srcs in trees:
            if srcs[fname].count(old) != 1: continue
            s2 = dict(srcs); s2[fname] = srcs[fname].replace(old, new)
            return (label, keys(s2, props) - base[label])
        return None
    _TODO[:] = todo
    import concurrent.futures as cf, multiprocessing
    with cf.ProcessPoolExecutor(14, mp_context=multiprocessing.get_context("fork")) as ex:
        results = list(ex.map(_job_proxy, range(len(todo))))
    for (mid, prop, file, old, new, rule), res in zip(todo, results):
        if res is None:
            na += 1; print(f"{mid:34s} expect {rule:16s} -> n/a"); continue
        label, new_keys = res
        if new_keys: caught += 1
        else: silent += 1
        detail = ", ".join(sorted({f"{k[0]}:{k[1]}" for k in new_keys}))
        flag = ("FALSE-ALARM" if new_keys else "silent") if (benign or "benign" in prop) else ("caught" if new_keys else "MISSED")
        print(f"{mid:34s} expect {rule:16s} -> {flag:11s} [{label}] {detail}")
    print("fired", caught, "silent", silent, "n/a", na)
main()
