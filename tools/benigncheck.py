"""developer tool: apply each <dir>/<k>/patch.diff (a behaviour-preserving refactoring) to a throw-away export of /repo HEAD and list every check
whose verdict changes (new finding, or analysis error/inconclusive) - each such line is a false alarm to be fixed in the machinery.
usage: python tools/benigncheck.py <dir> [<dir> ...]"""
import concurrent.futures as cf, pathlib, shutil, subprocess, sys, tempfile
ROOT = pathlib.Path(__file__).resolve().parent.parent
sys.path.insert(0, str(ROOT))
from sa.cli import analyse, PROPS
from sa.model import CORE_MODULES, EXTRA_MODULES

def sources(root):
    root = pathlib.Path(root) / "src" / "aioftp"
    return {m: (root / m).read_text() for m in CORE_MODULES + EXTRA_MODULES if (root / m).exists()}
def verdicts(srcs):
    out = {}
    for pr in PROPS:
        st, F, ctx, msg = analyse(pr, srcs)
        out[pr] = (st, sorted(str(f.key()) for f in F), msg)
    return out
def one(pd):
    d = tempfile.mkdtemp(prefix="benign_", dir="/tmp")
    try:
        subprocess.run(f"git -C /repo archive HEAD src | tar -x -C {d}", shell=True, check=True)
        base = verdicts(sources(d))
        r = subprocess.run(["git", "apply", str((pd / "patch.diff").resolve())], cwd=d, capture_output=True, text=True)
        if r.returncode: return str(pd), None, "patch does not apply: " + r.stderr[:150]
        v = verdicts(sources(d)); fired = {}
        for pr in PROPS:
            if v[pr][0] != "ok":
                if base[pr][0] == "ok": fired[pr] = [f"{v[pr][0]}: {(v[pr][2] or '')[:200]}"]
            else:
                new = [x for x in v[pr][1] if x not in base[pr][1]]
                if new: fired[pr] = new
        return str(pd), fired, None
    finally:
        shutil.rmtree(d, ignore_errors=True)
def main():
    dirs = [p for a in sys.argv[1:] for p in ([pathlib.Path(a)] if (pathlib.Path(a) / "patch.diff").exists() else sorted(pathlib.Path(a).iterdir(), key=lambda x: (len(x.name), x.name))) if (p / "patch.diff").exists()]
    with cf.ProcessPoolExecutor(12) as ex: res = list(ex.map(one, dirs))
    bad = 0
    for name, fired, err in res:
        if err: print(name, "ERROR", err); bad += 1; continue
        if fired:
            bad += 1; print(name, "FALSE-ALARM")
            for k, v in fired.items():
                for x in v: print("     ", k, x)
        else: print(name, "silent")
    print("refactorings:", len(res), "false alarms:", bad)
main()
