"""regenerate MANIFEST.json from the property modules present in sa/props (developer tool)"""
import importlib
import json
import pathlib
import sys

ROOT = pathlib.Path(__file__).resolve().parent.parent
sys.path.insert(0, str(ROOT))
BASELINE = "cd /repo && /venv/bin/python -m pytest -ra -q -p no:cacheprovider --timeout=900 --continue-on-collection-errors"

TECH = {
    "C01": "static: must-pass-through on worker paths (ack after close), copy-loop dataflow, wrapper transparency provenance, seek/mode guard agreement",
    "C02": "static: abstract interpretation of get_paths over a lexical-path domain + provenance of every backend path argument",
    "C03": "static: effect summaries + decorator-order check over the command table, who-may-write rule, guard-wrapper path analysis",
    "C04": "static: permission-kind table vs effect inference over the command table, wrapper path analysis, provenance of the lookup key",
    "C05": "static: reply-count typestate over enumerated handler paths, guard-domination of wire conversions, offset typestate, server/client code-table agreement",
    "C06": "static: encoder/decoder prefix-table agreement, boolean-table evaluation of Code.matches, reply-code literal check",
    "C07": "static: fact-table/field dataflow, strftime/strptime width and directive agreement, shared-threshold and sign check",
    "C08": "static: transformation whitelist along the name's dataflow in each decoder, quoting agreement, command construction check",
    "C09": "static: placement-dependency dataflow of upload/download targets, traversal-order rules",
    "C10": "static: slot typestate with atomic-section (may-suspend) analysis, finite-enum agreement table, who-may-call rule",
    "C11": "static: port-token typestate over all exits incl. cancellation edges, resolved exception hierarchy, who-may-call rule",
    "C12": "static: release table over closable session fields, detach-protection ordering, task-ownership rule",
    "C13": "static: exhaustive backend x operation decorator table, exception-mapping rule, no-success-before-backend path rule",
    "C14": "static: decorator-order rule for abortable workers, dispatcher done-set rule, abort handler shape",
    "C15": "static: aliasing topology of throttle objects, label/direction tables, dimension check of Throttle arithmetic",
    "C16": "static: timeout label and wiring tables, wait selection rule",
    "C17": "static: who-may-write rule on server-level state, freshness and closure-binding rules",
    "C18": "static: sibling equivalence of filesystem backends, mode table of MemoryPathIO._open by path enumeration, failure-atomicity ordering",
    "C19": "static: exception-escape (may-raise) analysis of the listing parsers vs the funnel, dispatcher containment shape, EOF-termination rule",
    "C20": "static: information-flow (taint) analysis from password sources to every logging sink, censor/dispatch key agreement",
}


PROGRAM = [None]


def main():
    from sa.model import Program
    PROGRAM[0] = Program.from_dir("/repo/src/aioftp")
    checks = []
    na = []
    props = [json.loads(l) for l in (ROOT / "properties.jsonl").read_text().splitlines() if l.strip()]
    for pr in props:
        pid = pr["id"]
        f = ROOT / "sa" / "props" / f"{pid.lower()}.py"
        if not f.exists():
            na.append({"property_id": pid, "reason": "check not built yet in this round (planned: see DESIGN.md section 4)"})
            continue
        mod = importlib.import_module(f"sa.props.{pid.lower()}")
        # rule ids and their one-line statements as the check itself declares them on the current tree
        rules_txt = ""
        try:
            from sa.cli import run_rules
            from sa.model import Program
            _m, ctx = run_rules(pid, PROGRAM[0], "quick")
            rules_txt = " Rules on the current tree: " + "; ".join(f"{r}" for r in sorted(ctx.rules))
        except Exception as e:  # the manifest must be writable even if a check is broken
            rules_txt = ""
        checks.append({
            "property_id": pid,
            "quick_cmd": f"./check {pid} --tier quick",
            "thorough_cmd": f"./check {pid} --tier thorough",
            "evidence_file": f"/verif/evidence/{pid}.json",
            "replay_cmd_template": f"./check {pid} --replay {{path}}",
            "engine": "sa",
            "level_claimed": {
                "category": "other",
                "text": "static analysis (named rules over the current source), structural necessary conditions only: " + mod.EXPLANATION[:600] + rules_txt,
                "design_ref": f"DESIGN.md section 4, {pid}",
            },
            "level_note": "Decides only the clauses listed under 'decided' in DESIGN.md; NOT decided: " + "; ".join(mod.NOT_DECIDED)
                          + ". Trusted base: CPython ast, the modelled asyncio/pathlib semantics, the rule tables in sa/props.",
            "technique": TECH[pid],
        })
    man = {
        "version": 1,
        "setup_cmd": "/venv/bin/python -m compileall -q sa >/dev/null 2>&1; /venv/bin/python -m sa.selftest",
        "hooks": {
            "guard": "AIO_LIBS_AIOFTP_VERIF",
            "enable": "none needed: static analysis reads /repo/src/aioftp; no instrumentation exists",
            "baseline_off_cmd": BASELINE,
            "source_commits": [],
            "add_only": True,
        },
        "engines": [{"name": "sa", "path": "/verif/sa", "serves_properties": [c["property_id"] for c in checks],
                     "kind_free_text": "purpose-built static analyser (ast-based program model, path enumerator with exception edges, typestate, provenance/taint, small abstract domains)"}],
        "checks": checks,
        "not_applicable": na,
        "notes": "All checks are static: they parse /repo/src/aioftp on every run and never import or execute it. "
                 "Exit 2 = ANALYSIS-ERROR/INCONCLUSIVE (anchor vanished or shape outside the rule's vocabulary), never a violation. "
                 "known_findings.json lists genuine defects (fixed by 'fix:' commits or kept as known).",
    }
    (ROOT / "MANIFEST.json").write_text(json.dumps(man, indent=1) + "\n")
    print("checks:", len(checks), "not_applicable:", len(na))


main()
