"""developer tool: run seedcheck on <seed dir> with <worktree> and store every confirmed change as /verif/seeded/<PROP>-<tag><k>/
usage: python tools/saveseed.py <PROP> <seed dir> <worktree> [tag]"""
import json, pathlib, shutil, subprocess, sys, re
ROOT = pathlib.Path(__file__).resolve().parent.parent
prop, seed, wt = sys.argv[1:4]
tag = sys.argv[4] if len(sys.argv) > 4 else ""
out = subprocess.run(["/venv/bin/python", str(ROOT / "tools/seedcheck.py"), seed, wt], capture_output=True, text=True).stdout
objs = [json.loads(x) for x in re.findall(r"^\{.*?^\}", out, flags=re.S | re.M)]
for r in objs:
    k = r["k"]
    ok = r.get("demo_clean") == "PASS" and r.get("suite", "").startswith("1 failed, 335 passed") and r.get("demo_changed", "").startswith("rc=1")
    name = f"{prop}-{tag}{k}"
    if not ok:
        print(name, "NOT CONFIRMED", r); continue
    d = ROOT / "seeded" / name
    d.mkdir(parents=True, exist_ok=True)
    shutil.copy(f"{seed}/{k}/patch.diff", d / "patch.diff")
    shutil.copy(f"{seed}/{k}/demo.py", d / "demo.py")
    notes = pathlib.Path(f"{seed}/{k}/notes.md").read_text() if pathlib.Path(f"{seed}/{k}/notes.md").exists() else ""
    (d / "notes.md").write_text(notes)
    meta = {"id": name, "property": prop, "source": "independent sub-agent given only the property text and a scratch worktree",
            "needs_to_manifest": notes.strip()[:1200],
            "confirmed_by_me": {"baseline_suite_with_change": r["suite"], "demo_on_clean_tree": r["demo_clean"], "demo_with_change": r["demo_changed"],
                                "how": "tools/seedcheck.py: git apply in a scratch worktree of /repo HEAD, baseline pytest command with PYTHONPATH=<wt>/src, demo.py before/after, git checkout"},
            "checks_fired": r["checks_fired"], "caught": bool(r["checks_fired"]) and any(not str(v[0]).startswith(("inconclusive", "error")) for v in r["checks_fired"].values())}
    (d / "meta.json").write_text(json.dumps(meta, indent=1) + "\n")
    print(name, "saved; caught by", sorted(r["checks_fired"]) or "NOTHING")
