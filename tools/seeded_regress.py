"""developer tool: re-run every check against every stored seeded change (/verif/seeded/*/patch.diff), refresh each meta.json
(`checks_fired`, `caught`) and print the table used in DESIGN.md.  Patches are applied to a throw-away export of /repo HEAD under /tmp
(removed afterwards); /repo itself is never touched.  usage: python tools/seeded_regress.py [--table] [name substring ...]"""
import concurrent.futures as cf
import json
import pathlib
import shutil
import subprocess
import sys
import tempfile

ROOT = pathlib.Path(__file__).resolve().parent.parent
sys.path.insert(0, str(ROOT))
from sa.cli import analyse, PROPS  # noqa: E402
from sa.model import CORE_MODULES, EXTRA_MODULES  # noqa: E402


def sources(root):
    root = pathlib.Path(root) / "src" / "aioftp"
    return {m: (root / m).read_text() for m in CORE_MODULES + EXTRA_MODULES if (root / m).exists()}


def verdicts(srcs):
    out = {}
    for pr in PROPS:
        st, F, ctx, msg = analyse(pr, srcs)
        out[pr] = (st, sorted(str(f.key()) for f in F), msg)
    return out


def one(seed_dir):
    d = tempfile.mkdtemp(prefix="seedreg_", dir="/tmp")
    try:
        subprocess.run(f"git -C /repo archive HEAD src | tar -x -C {d}", shell=True, check=True)
        base = verdicts(sources(d))
        r = subprocess.run(["git", "apply", str(seed_dir / "patch.diff")], cwd=d, capture_output=True, text=True)
        if r.returncode:
            return seed_dir.name, None, "patch does not apply: " + r.stderr[:200]
        v = verdicts(sources(d))
        fired = {}
        for pr in PROPS:
            if v[pr][0] != "ok":
                if base[pr][0] == "ok":
                    fired[pr] = [f"{v[pr][0]}: {(v[pr][2] or '')[:160]}"]
            else:
                new = [x for x in v[pr][1] if x not in base[pr][1]]
                if new:
                    fired[pr] = new
        return seed_dir.name, fired, None
    finally:
        shutil.rmtree(d, ignore_errors=True)


def main():
    flt = [a for a in sys.argv[1:] if not a.startswith("--")]
    seeds = sorted(p for p in (ROOT / "seeded").iterdir() if (p / "patch.diff").exists() and (not flt or any(f in p.name for f in flt)))
    with cf.ProcessPoolExecutor(16) as ex:
        results = list(ex.map(one, seeds))
    rows = []
    missed = []
    for name, fired, err in results:
        mp = ROOT / "seeded" / name / "meta.json"
        meta = json.loads(mp.read_text())
        if err:
            print(name, "ERROR", err)
            continue
        real = {k: v for k, v in fired.items() if not str(v[0]).startswith(("inconclusive", "error"))}
        meta["checks_fired"] = fired
        meta["caught"] = bool(real)
        meta["caught_by_own_property_check"] = meta["property"] in real
        mp.write_text(json.dumps(meta, indent=1) + "\n")
        rules = sorted({eval(k)[0] for v in real.values() for k in v})
        soft = sorted(k + ":" + v[0].split(":")[0] for k, v in fired.items() if k not in real)
        rows.append((name, meta["property"], ", ".join(rules) or "-", ", ".join(soft)))
        if not real:
            missed.append(name)
    for r in rows:
        print(f"| {r[0]} | {r[2]} |" + (f" (also exit 2: {r[3]})" if r[3] else ""))
    own = sum(1 for n, f, e in results if f is not None and json.loads((ROOT / "seeded" / n / "meta.json").read_text())["caught_by_own_property_check"])
    print(f"seeds: {len(rows)}  caught: {len(rows) - len(missed)}  caught by the property's own check: {own}  missed: {missed}")


main()
