"""developer tool: apply <dir>/patch.diff to a throw-away export of /repo HEAD and print the normalised (inlined) form of a function.
usage: python tools/showinline.py <patch dir> [function qualname suffix]"""
import sys, subprocess, tempfile, shutil, pathlib, ast
sys.path.insert(0,'/verif')
from sa.model import Program, CORE_MODULES, EXTRA_MODULES
pd=sys.argv[1]; fnname=sys.argv[2] if len(sys.argv)>2 else None
d=tempfile.mkdtemp(prefix='inl_',dir='/tmp')
subprocess.run(f"git -C /repo archive HEAD src | tar -x -C {d}", shell=True, check=True)
subprocess.run(["git","apply",pd+"/patch.diff"],cwd=d,check=True)
root=pathlib.Path(d)/'src'/'aioftp'
p=Program({m:(root/m).read_text() for m in CORE_MODULES+EXTRA_MODULES if (root/m).exists()})
print("inlined:",p.inlined)
if fnname:
    for q,fn in p.functions.items():
        if q.endswith(fnname): print(ast.unparse(fn))
shutil.rmtree(d)
