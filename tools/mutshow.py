"""developer tool: show one mutant of the sweep (diff against the current source) and what the checks say. usage: python tools/mutshow.py <id> [PROP ...]"""
import difflib, json, pathlib, sys
ROOT = pathlib.Path(__file__).resolve().parent.parent
sys.path.insert(0, str(ROOT))
from sa.cli import analyse, PROPS
SRC = pathlib.Path("/repo/src/aioftp")
allm = {x["id"]: x for f in ("mutants.json", "mutants2.json") if pathlib.Path("/root/work/mut", f).exists() for x in json.loads(pathlib.Path("/root/work/mut", f).read_text())}
x = allm[int(sys.argv[1])]
import ast
orig = ast.unparse(ast.parse((SRC / x["module"]).read_text()))
for l in difflib.unified_diff(orig.splitlines(), x["source"].splitlines(), lineterm="", n=2):
    if not l.startswith(("---", "+++")):
        print(l)
srcs = {m.name: m.read_text() for m in SRC.glob("*.py")}
srcs[x["module"]] = x["source"]
for pr in (sys.argv[2:] or PROPS):
    st, F, ctx, msg = analyse(pr, srcs)
    if st != "ok" or [f for f in F if "strip on name" not in f.construct]:
        print(pr, st, (msg or "")[:200], [f.key() for f in F if "strip on name" not in f.construct][:4])
