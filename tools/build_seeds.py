"""developer tool: convert the hand-written mutant corpora (tools/corpus) into sa/selfval_seeds.json used by the thorough tier"""
import json, pathlib, sys
ROOT = pathlib.Path(__file__).resolve().parent.parent
sys.path.insert(0, str(ROOT / "tools" / "corpus"))
from corpus1 import M as M1
from corpus2 import M as M2
from benign import B
try:
    from corpus3 import M as M3
except ImportError:
    M3 = []
NOT_BREAKING = {"m11_not_oserror": "silent on the repaired tree by design: the BaseException give-back covers the exit",
                "m15_data_fresh_map": "shallow copy of the throttle map keeps the same throttle objects",
                "m18_mkdir_no_typecheck": "the first mutation itself fails cleanly (same 451, tree unchanged)",
                "m20_censor_short": "censor_after shorter than the prefix still hides the whole password"}
seeds = []
for mid, prop, file, old, new, rule in list(M1) + list(M2) + list(M3):
    benign = rule == "none" or "benign" in prop or mid in NOT_BREAKING
    seeds.append({"id": mid, "property": prop[:3], "module": file.split("/")[-1], "old": old, "new": new, "expect": None if benign else rule,
                  "benign": benign, "note": NOT_BREAKING.get(mid, "")})
for bid, file, old, new in B:
    seeds.append({"id": bid, "property": "*", "module": file.split("/")[-1], "old": old, "new": new, "expect": None, "benign": True, "note": "behaviour-preserving refactoring"})
(ROOT / "sa" / "selfval_seeds.json").write_text(json.dumps(seeds, indent=1) + "\n")
print(len(seeds), "seeds;", sum(1 for s in seeds if s["benign"]), "benign")
