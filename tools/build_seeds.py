"""developer tool: (re)generate sa/selfval_seeds.json, the seed set of the thorough tier, from
  - the hand-written mutant corpora (tools/corpus),
  - the independently produced breaking changes stored under /verif/seeded (each registered for every property whose check reports it),
  - the independently produced behaviour-preserving refactorings under tools/benign_patches (benign for every property).
Patches are turned into text edits (module, old block, new block) by applying them to a throw-away export of /repo HEAD and
diffing; a seed whose old block is not unique in the current module is dropped here (and would be n/a at run time)."""
import difflib, json, pathlib, shutil, subprocess, sys, tempfile
ROOT = pathlib.Path(__file__).resolve().parent.parent
sys.path.insert(0, str(ROOT))
sys.path.insert(0, str(ROOT / "tools" / "corpus"))
from corpus1 import M as M1
from corpus2 import M as M2
from benign import B
NOT_BREAKING = {"m11_not_oserror": "silent on the repaired tree by design: the BaseException give-back covers the exit",
                "m15_data_fresh_map": "shallow copy of the throttle map keeps the same throttle objects",
                "m18_mkdir_no_typecheck": "the first mutation itself fails cleanly (same 451, tree unchanged)",
                "m20_censor_short": "censor_after shorter than the prefix still hides the whole password"}


def edits_of_patch(patch):
    d = tempfile.mkdtemp(prefix="mkseed_", dir="/tmp")
    try:
        subprocess.run(f"git -C /repo archive HEAD src | tar -x -C {d}", shell=True, check=True)
        before = {f.name: f.read_text() for f in pathlib.Path(d, "src/aioftp").glob("*.py")}
        r = subprocess.run(["git", "apply", str(patch)], cwd=d, capture_output=True, text=True)
        if r.returncode:
            return None
        after = {f.name: f.read_text() for f in pathlib.Path(d, "src/aioftp").glob("*.py")}
    finally:
        shutil.rmtree(d, ignore_errors=True)
    edits = []
    for mod in sorted(before):
        if before[mod] == after.get(mod):
            continue
        a, b = before[mod].splitlines(keepends=True), after[mod].splitlines(keepends=True)
        sm = difflib.SequenceMatcher(None, a, b, autojunk=False)
        ops = [op for op in sm.get_opcodes() if op[0] != "equal"]
        # one edit per module spanning from the first to the last changed line, widened until the old block is unique
        i1, i2, j1, j2 = ops[0][1], ops[-1][2], ops[0][3], ops[-1][4]
        for ctx in range(0, 12):
            lo_a, hi_a = max(0, i1 - ctx), min(len(a), i2 + ctx)
            lo_b, hi_b = max(0, j1 - ctx), min(len(b), j2 + ctx)
            old, new = "".join(a[lo_a:hi_a]), "".join(b[lo_b:hi_b])
            if old and before[mod].count(old) == 1:
                edits.append({"module": mod, "old": old, "new": new})
                break
        else:
            return None
    return edits or None


seeds = []
for mid, prop, file, old, new, rule in list(M1) + list(M2):
    benign = rule == "none" or "benign" in prop or mid in NOT_BREAKING
    seeds.append({"id": mid, "property": prop[:3], "edits": [{"module": file.split("/")[-1], "old": old, "new": new}], "expect": None if benign else rule,
                  "benign": benign, "origin": "hand-written corpus", "note": NOT_BREAKING.get(mid, "")})
for bid, file, old, new in B:
    seeds.append({"id": bid, "property": "*", "edits": [{"module": file.split("/")[-1], "old": old, "new": new}], "expect": None, "benign": True,
                  "origin": "hand-written refactoring", "note": ""})
n_sub = n_ben = 0
for sd in sorted((ROOT / "seeded").iterdir()):
    meta = json.loads((sd / "meta.json").read_text())
    real = sorted(k for k, v in meta.get("checks_fired", {}).items() if not str(v[0]).startswith(("inconclusive", "error")))
    if not real:
        continue
    ed = edits_of_patch(sd / "patch.diff")
    if not ed:
        continue
    for pr in real:
        seeds.append({"id": f"seeded/{sd.name}", "property": pr, "edits": ed, "expect": pr, "benign": False, "origin": "independent sub-agent change", "note": ""})
    n_sub += 1
# a refactoring is registered with the properties whose obligations it touches (their list of rule instances differs between the clean and the
# refactored tree); one that changes no obligation of any property is kept with a single property in rotation. This keeps the thorough tier's
# run time proportional to what each property actually looks at.
import concurrent.futures as cf
from sa.cli import analyse, PROPS   # noqa: E402
BASE_SRC = {f.name: f.read_text() for f in pathlib.Path("/repo/src/aioftp").glob("*.py")}


def _sig(srcs, pr):
    st, F, ctx, msg = analyse(pr, srcs)
    if st != "ok":
        return ("!" + st,)
    return tuple(sorted((o["rule"], o["site"], o["what"], o["ok"]) for o in ctx.obligations))


BASE_SIG = {pr: _sig(BASE_SRC, pr) for pr in PROPS}


def _sensitive(args):
    name, ed = args
    srcs = dict(BASE_SRC)
    for e in ed:
        if srcs[e["module"]].count(e["old"]) != 1:
            return name, list(PROPS)
        srcs[e["module"]] = srcs[e["module"]].replace(e["old"], e["new"])
    return name, [pr for pr in PROPS if _sig(srcs, pr) != BASE_SIG[pr]]


todo = []
for bd in sorted((ROOT / "tools" / "benign_patches").iterdir()):
    ed = edits_of_patch(bd / "patch.diff")
    if ed:
        todo.append((bd.name, ed))
with cf.ProcessPoolExecutor(14) as ex:
    sens = dict(ex.map(_sensitive, todo))
for k, (name, ed) in enumerate(todo):
    props_ = sens[name] or [PROPS[k % len(PROPS)]]
    seeds.append({"id": f"refactoring/{name}", "property": "+", "properties": props_, "edits": ed, "expect": None, "benign": True,
                  "origin": "independent sub-agent refactoring", "note": ""})
    n_ben += 1
# witnesses from the mutation sweep (tools/mutwitness.py): one or two single-edit mutants per rule that reports them; kept only if the property's check
# reports the text-level edit on the current tree
wf = ROOT / "tools" / "mutsweep_results" / "witnesses.json"
n_wit = 0
if wf.exists():
    W = json.loads(wf.read_text())

    def _confirm(w):
        srcs = dict(BASE_SRC)
        if srcs[w["module"]].count(w["old"]) != 1:
            return False
        srcs[w["module"]] = srcs[w["module"]].replace(w["old"], w["new"])
        st, F, ctx, msg = analyse(w["property"], srcs)
        st0, F0, _c, _m = analyse(w["property"], BASE_SRC)
        return st == "ok" and bool({f.key() for f in F} - {f.key() for f in F0})
    with cf.ProcessPoolExecutor(14) as ex:
        oks = list(ex.map(_confirm, W))
    for w, ok in zip(W, oks):
        if ok:
            seeds.append({"id": w["id"], "property": w["property"], "edits": [{"module": w["module"], "old": w["old"], "new": w["new"]}], "expect": w["rule"], "benign": False,
                          "origin": "mutation sweep (single-edit mutant the pinned suite does not notice)", "note": ""})
            n_wit += 1
(ROOT / "sa" / "selfval_seeds.json").write_text(json.dumps(seeds, indent=0) + "\n")
print(n_wit, "mutation-sweep witnesses")
print(len(seeds), "seed entries;", sum(1 for s in seeds if s["benign"]), "benign;", n_sub, "sub-agent changes;", n_ben, "sub-agent refactorings")
