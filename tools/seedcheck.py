"""developer tool: confirm a sub-agent's seeded change and see which checks catch it.
usage: python tools/seedcheck.py <seed dir> <clean scratch worktree> [--no-tests]
For each <seed dir>/<k>/patch.diff: demo on the clean tree (must PASS), apply, baseline suite (must stay 335 passed/1 failed),
demo (must FAIL), every available ./check against the worktree's sources, then undo."""
import json
import os
import pathlib
import subprocess
import sys

ROOT = pathlib.Path(__file__).resolve().parent.parent
sys.path.insert(0, str(ROOT))
from sa.cli import analyse, PROPS  # noqa: E402
from sa.model import CORE_MODULES, EXTRA_MODULES  # noqa: E402


def sh(cmd, cwd=None, env=None, timeout=900):
    try:
        r = subprocess.run(cmd, shell=True, cwd=cwd, env=env, capture_output=True, text=True, timeout=timeout)
        return r.returncode, (r.stdout + r.stderr)
    except subprocess.TimeoutExpired:
        return 124, "TIMEOUT"


def sources(root):
    root = pathlib.Path(root) / "src" / "aioftp"
    return {m: (root / m).read_text() for m in CORE_MODULES + EXTRA_MODULES if (root / m).exists()}


def props_available():
    return [p for p in PROPS if (ROOT / "sa" / "props" / f"{p.lower()}.py").exists()]


def verdicts(srcs, props):
    out = {}
    for pr in props:
        st, F, ctx, msg = analyse(pr, srcs)
        out[pr] = (st, sorted(str(f.key()) for f in F), msg)
    return out


def main():
    seed, wt = sys.argv[1], sys.argv[2]
    run_tests = "--no-tests" not in sys.argv
    env = dict(os.environ, PYTHONPATH=f"{wt}/src", PYTHONDONTWRITEBYTECODE="1")
    sh("git checkout -- . && git clean -fdq", cwd=wt)
    props = props_available()
    base = verdicts(sources(wt), props)
    results = []
    for k in sorted(p for p in pathlib.Path(seed).iterdir() if p.is_dir() and (p / "patch.diff").exists()):
        r = {"k": k.name}
        rc, out = sh(f"/venv/bin/python {k}/demo.py", cwd=wt, env=env, timeout=120)
        r["demo_clean"] = "PASS" if rc == 0 else f"rc={rc}: {out.strip().splitlines()[-1] if out.strip() else ''}"
        rc, out = sh(f"git apply {k}/patch.diff", cwd=wt)
        if rc:
            r["apply"] = "FAILED " + out[:200]
            results.append(r)
            continue
        if run_tests:
            rc, out = sh("/venv/bin/python -m pytest -ra -q -p no:cacheprovider --timeout=900 --continue-on-collection-errors 2>&1 | tail -1", cwd=wt, env=env)
            r["suite"] = out.strip()
        rc, out = sh(f"/venv/bin/python {k}/demo.py", cwd=wt, env=env, timeout=120)
        lines = [l for l in out.strip().splitlines() if "FAIL" in l]
        r["demo_changed"] = f"rc={rc} " + (lines[-1][:160] if lines else (out.strip().splitlines()[-1][:160] if out.strip() else ""))
        v = verdicts(sources(wt), props)
        fired = {}
        for pr in props:
            if v[pr][0] != "ok":
                if base[pr][0] == "ok":
                    fired[pr] = [f"{v[pr][0]}: {v[pr][2][:120]}"]
            else:
                new = [x for x in v[pr][1] if x not in base[pr][1]]
                if new:
                    fired[pr] = new
        r["checks_fired"] = fired
        sh("git checkout -- . && git clean -fdq", cwd=wt)
        results.append(r)
    for r in results:
        print(json.dumps(r, indent=1))


main()
