"""developer tool: systematic single-edit mutants of src/aioftp (comparison/boolean operator flips, constant tweaks, statement and decorator deletions, ...).
stage 1 (`gen`): enumerate mutants; stage 2 (`suite`): keep those the pinned test suite does not notice (run in scratch exports under /tmp, never in /repo);
stage 3 (`checks`): run all 20 checks on the survivors and list the ones nothing reports - each is an equivalent mutant, outside the 20 properties, or a blind spot to triage by reading.
usage: python tools/mutsweep.py gen|suite|checks  (state in /root/work/mut)"""
import ast, concurrent.futures as cf, copy, json, os, pathlib, shutil, subprocess, sys, tempfile
ROOT = pathlib.Path(__file__).resolve().parent.parent
sys.path.insert(0, str(ROOT))
WORK = pathlib.Path("/root/work/mut")
SRC = pathlib.Path("/repo/src/aioftp")
MODS = ["server.py", "client.py", "common.py", "pathio.py", "errors.py"]
CMP = {ast.Eq: ast.NotEq, ast.NotEq: ast.Eq, ast.Lt: ast.LtE, ast.LtE: ast.Lt, ast.Gt: ast.GtE, ast.GtE: ast.Gt, ast.Is: ast.IsNot, ast.IsNot: ast.Is, ast.In: ast.NotIn, ast.NotIn: ast.In}


def mutants_of(mod, text):
    tree = ast.parse(text)
    nodes = list(ast.walk(tree))
    out = []

    def emit(desc, node, mutate):
        t2 = copy.deepcopy(tree)
        n2 = list(ast.walk(t2))[nodes.index(node)]
        if mutate(n2, t2) is False:
            return
        try:
            ast.fix_missing_locations(t2)
            new = ast.unparse(t2)
            compile(new, mod, "exec")
        except Exception:
            return
        out.append({"module": mod, "line": getattr(node, "lineno", 0), "desc": desc, "source": new})
    parent = {}
    for n in nodes:
        for c in ast.iter_child_nodes(n):
            parent[c] = n
    for n in nodes:
        if isinstance(n, ast.Compare) and len(n.ops) == 1 and type(n.ops[0]) in CMP:
            emit(f"cmp {type(n.ops[0]).__name__}->{CMP[type(n.ops[0])].__name__}: {ast.unparse(n)[:50]}", n, lambda m, t: m.ops.__setitem__(0, CMP[type(m.ops[0])]()))
        if isinstance(n, ast.BoolOp):
            emit(f"boolop flip: {ast.unparse(n)[:50]}", n, lambda m, t: setattr(m, "op", ast.Or() if isinstance(m.op, ast.And) else ast.And()))
        if isinstance(n, (ast.If, ast.While)) and not (isinstance(n.test, ast.Constant)):
            emit(f"negate test: {ast.unparse(n.test)[:50]}", n, lambda m, t: setattr(m, "test", ast.UnaryOp(op=ast.Not(), operand=m.test)))
        if isinstance(n, ast.Constant) and isinstance(n.value, bool):
            emit(f"bool const {n.value}->{not n.value}", n, lambda m, t: setattr(m, "value", not m.value))
        elif isinstance(n, ast.Constant) and isinstance(n.value, int) and not isinstance(parent.get(n), ast.Expr):
            emit(f"int const {n.value}->{n.value + 1}", n, lambda m, t: setattr(m, "value", m.value + 1))
            if n.value not in (0,):
                emit(f"int const {n.value}->0", n, lambda m, t: setattr(m, "value", 0))
        elif isinstance(n, ast.Constant) and isinstance(n.value, str) and len(n.value) == 3 and n.value.isdigit():
            emit(f"code {n.value}->{n.value[:2] + str((int(n.value[2]) + 1) % 10)}", n, lambda m, t: setattr(m, "value", m.value[:2] + str((int(m.value[2]) + 1) % 10)))
        elif isinstance(n, ast.Constant) and n.value in ("rb", "wb", "ab", "r+b"):
            alt = {"rb": "r+b", "wb": "ab", "ab": "wb", "r+b": "wb"}[n.value]
            emit(f"mode {n.value}->{alt}", n, lambda m, t, alt=alt: setattr(m, "value", alt))
        if isinstance(n, (ast.FunctionDef, ast.AsyncFunctionDef)):
            for i, d in enumerate(n.decorator_list):
                emit(f"drop decorator @{ast.unparse(d)[:40]} of {n.name}", n, lambda m, t, i=i: m.decorator_list.pop(i))
            if len(n.decorator_list) >= 2:
                emit(f"swap decorators of {n.name}", n, lambda m, t: m.decorator_list.__setitem__(slice(0, 2), [m.decorator_list[1], m.decorator_list[0]]))
        for fld in ("body", "orelse", "finalbody"):
            blk = getattr(n, fld, None)
            if isinstance(blk, list) and blk and isinstance(blk[0], ast.stmt) and not isinstance(n, ast.Module):
                for i, s in enumerate(blk):
                    if isinstance(s, ast.Expr) and isinstance(s.value, ast.Constant):
                        continue
                    if isinstance(s, (ast.Expr, ast.Assign, ast.AugAssign, ast.Delete, ast.Raise, ast.Return, ast.Break, ast.Continue)):
                        def drop(m, t, fld=fld, i=i):
                            b = getattr(m, fld)
                            if len(b) == 1:
                                b[0] = ast.Pass()
                            else:
                                b.pop(i)
                        emit(f"delete stmt: {ast.unparse(s)[:60]}", n, drop)
        if isinstance(n, ast.Break):
            emit("break->continue", n, lambda m, t: None if False else _swap(m, t, ast.Continue))
    return out


SWAPS_ATTR = [("path_must_exists", "path_must_not_exists"), ("path_must_be_dir", "path_must_be_file"), ("readable", "writable"), ("is_dir", "is_file"),
              ("login_required", "user_required"), ("passive_server_started", "data_connection_made"), ("read_timeout", "write_timeout"), ("idle_timeout", "socket_timeout"),
              ("read", "write"), ("acquire", "release"), ("real_path", "virtual_path"), ("ctime", "mtime"), ("st_ctime", "st_mtime"), ("lstrip", "rstrip"), ("partition", "rpartition"),
              ("index", "rindex"), ("popleft", "pop"), ("home_path", "base_path"), ("user", "logged"), ("throttle", "throttle_per_connection"),
              ("read_speed_limit", "write_speed_limit"), ("put_nowait", "get_nowait"), ("done", "cancelled"), ("startswith", "endswith"), ("source", "destination")]
SWAPS_STR = [("read", "write"), ("type", "Type"), ("size", "Size"), ("modify", "create"), ("dir", "file"), ("server_global", "server_per_connection"), ("user_global", "user_per_connection"),
             ("MLSD", "LIST"), ("EPSV", "PASV"), ("STOR ", "APPE "), ("RNFR ", "RNTO "), ("I", "A"), ("-", " "), (" ", "-"), ("..", "."), ("/", "")]


def mutants2_of(mod, text):
    """second operator set: wrong-name mutants (attribute / keyword / string / local-name swaps), slice bounds, dropped awaits of non-coroutines are not generated"""
    tree = ast.parse(text)
    nodes = list(ast.walk(tree))
    out = []

    def emit(desc, node, mutate):
        t2 = copy.deepcopy(tree)
        n2 = list(ast.walk(t2))[nodes.index(node)]
        if mutate(n2, t2) is False:
            return
        try:
            ast.fix_missing_locations(t2)
            new = ast.unparse(t2)
            compile(new, mod, "exec")
        except Exception:
            return
        if new != ast.unparse(tree):
            out.append({"module": mod, "line": getattr(node, "lineno", 0), "desc": desc, "source": new})
    pairs_a = {}
    for a, b in SWAPS_ATTR:
        pairs_a[a] = b
        pairs_a[b] = a
    pairs_s = {}
    for a, b in SWAPS_STR:
        pairs_s.setdefault(a, b)
        pairs_s.setdefault(b, a)
    for n in nodes:
        if isinstance(n, ast.Attribute) and n.attr in pairs_a:
            emit(f"attr {n.attr}->{pairs_a[n.attr]}: {ast.unparse(n)[:50]}", n, lambda m, t: setattr(m, "attr", pairs_a[m.attr]))
        if isinstance(n, ast.keyword) and n.arg in pairs_a:
            emit(f"kwarg {n.arg}->{pairs_a[n.arg]}", n, lambda m, t: setattr(m, "arg", pairs_a[m.arg]))
        if isinstance(n, ast.Name) and isinstance(n.ctx, ast.Load) and n.id in pairs_a:
            emit(f"name {n.id}->{pairs_a[n.id]}", n, lambda m, t: setattr(m, "id", pairs_a[m.id]))
        if isinstance(n, ast.Constant) and isinstance(n.value, str) and n.value in pairs_s:
            emit(f"str {n.value!r}->{pairs_s[n.value]!r}", n, lambda m, t: setattr(m, "value", pairs_s[m.value]))
        if isinstance(n, ast.Slice):
            for fld in ("lower", "upper"):
                b = getattr(n, fld)
                if isinstance(b, ast.Constant) and isinstance(b.value, int):
                    emit(f"slice {fld} {b.value}->{b.value + 1}", n, lambda m, t, fld=fld: setattr(getattr(m, fld), "value", getattr(m, fld).value + 1))
        if isinstance(n, ast.Call) and len(n.args) == 2 and not n.keywords and not any(isinstance(a, ast.Starred) for a in n.args) and ast.unparse(n.args[0]) != ast.unparse(n.args[1]):
            emit(f"swap args: {ast.unparse(n)[:50]}", n, lambda m, t: m.args.reverse())
        if isinstance(n, ast.Compare) and len(n.ops) == 1 and isinstance(n.ops[0], (ast.Lt, ast.LtE, ast.Gt, ast.GtE)):
            emit(f"swap operands: {ast.unparse(n)[:50]}", n, lambda m, t: (setattr(m, "left", m.comparators[0]) or True) and m.comparators.__setitem__(0, copy.deepcopy(n.left)))
        if isinstance(n, ast.BinOp) and isinstance(n.op, (ast.Sub, ast.Div)):
            emit(f"swap binop operands: {ast.unparse(n)[:50]}", n, lambda m, t: (lambda l, r: (setattr(m, "left", r), setattr(m, "right", l)))(m.left, m.right))
        if isinstance(n, ast.BinOp) and isinstance(n.op, ast.Add) and not isinstance(n.left, ast.Constant):
            emit(f"+ -> -: {ast.unparse(n)[:50]}", n, lambda m, t: setattr(m, "op", ast.Sub()))
        if isinstance(n, ast.AugAssign) and isinstance(n.op, (ast.Add, ast.Sub)):
            emit(f"aug {type(n.op).__name__} flipped: {ast.unparse(n)[:50]}", n, lambda m, t: setattr(m, "op", ast.Sub() if isinstance(m.op, ast.Add) else ast.Add()))
    return out


def gen2():
    allm = []
    for m in MODS:
        ms = mutants2_of(m, (SRC / m).read_text())
        print(m, len(ms))
        allm += ms
    for i, x in enumerate(allm):
        x["id"] = 100000 + i
    (WORK / "mutants2.json").write_text(json.dumps(allm))
    print("total", len(allm))


def _swap(node, tree, cls):
    for p in ast.walk(tree):
        for fld in ("body", "orelse", "finalbody"):
            b = getattr(p, fld, None)
            if isinstance(b, list) and node in b:
                b[b.index(node)] = cls()
                return
    return False


def gen():
    allm = []
    for m in MODS:
        ms = mutants_of(m, (SRC / m).read_text())
        print(m, len(ms))
        allm += ms
    for i, x in enumerate(allm):
        x["id"] = i
    (WORK / "mutants.json").write_text(json.dumps(allm))
    print("total", len(allm))


def _suite_one(x):
    d = tempfile.mkdtemp(prefix="mutw_", dir="/tmp")
    try:
        subprocess.run(f"git -C /repo archive HEAD | tar -x -C {d}", shell=True, check=True)
        (pathlib.Path(d) / "src" / "aioftp" / x["module"]).write_text(x["source"])
        env = dict(os.environ, PYTHONPATH=f"{d}/src", PYTHONDONTWRITEBYTECODE="1")
        try:
            r = subprocess.run("/venv/bin/python -m pytest -ra -q -p no:cacheprovider --timeout=60 --continue-on-collection-errors -x 2>&1 | tail -1", shell=True, cwd=d, env=env,
                               capture_output=True, text=True, timeout=400)
            line = r.stdout.strip().splitlines()[-1] if r.stdout.strip() else "?"
        except subprocess.TimeoutExpired:
            line = "TIMEOUT"
        return x["id"], line
    finally:
        shutil.rmtree(d, ignore_errors=True)


SUF = os.environ.get("MUT_SET", "")


def suite():
    allm = json.loads((WORK / f"mutants{SUF}.json").read_text())
    done = json.loads((WORK / f"suite{SUF}.json").read_text()) if (WORK / f"suite{SUF}.json").exists() else {}
    todo = [x for x in allm if str(x["id"]) not in done]
    print("todo", len(todo))
    with cf.ProcessPoolExecutor(int(os.environ.get("MUT_JOBS", "12"))) as ex:
        for k, (i, line) in enumerate(ex.map(_suite_one, todo)):
            done[str(i)] = line
            if k % 50 == 0:
                (WORK / f"suite{SUF}.json").write_text(json.dumps(done))
                print(k, "/", len(todo), flush=True)
    (WORK / f"suite{SUF}.json").write_text(json.dumps(done))
    surv = [i for i, l in done.items() if l.startswith("1 failed, 335 passed")]
    print("survivors", len(surv), "of", len(done))


def _check_one(x):
    from sa.cli import analyse, PROPS
    srcs = {m: (SRC / m).read_text() for m in MODS + ["__init__.py", "__main__.py"] if (SRC / m).exists()}
    srcs[x["module"]] = x["source"]
    fired = {}
    for pr in PROPS:
        st, F, ctx, msg = analyse(pr, srcs)
        if st != "ok":
            fired[pr] = st
        elif [f for f in F if not (f.rule in ("C08.CARRY", "C09.NAMES") and "strip on name" in f.construct)]:
            fired[pr] = sorted({f.rule for f in F})
    return x["id"], fired


def checks():
    allm = {x["id"]: x for x in json.loads((WORK / f"mutants{SUF}.json").read_text())}
    done = json.loads((WORK / f"suite{SUF}.json").read_text())
    surv = [allm[int(i)] for i, l in done.items() if l.startswith("1 failed, 335 passed")]
    if os.environ.get("MUT_ONLY") == "silent" and (WORK / f"silent{SUF}.txt").exists():
        ids = {int(l.split("\t")[0]) for l in (WORK / f"silent{SUF}.txt").read_text().splitlines() if l.strip()}
        surv = [x for x in surv if x["id"] in ids]
    print("survivors", len(surv))
    res = json.loads((WORK / f"checks{SUF}.json").read_text()) if os.environ.get("MUT_ONLY") == "silent" and (WORK / f"checks{SUF}.json").exists() else {}
    with cf.ProcessPoolExecutor(14) as ex:
        for i, fired in ex.map(_check_one, surv):
            res[str(i)] = fired
    (WORK / f"checks{SUF}.json").write_text(json.dumps(res))
    quiet = [allm[int(i)] for i, f in res.items() if not f]
    soft = [allm[int(i)] for i, f in res.items() if f and all(isinstance(v, str) for v in f.values())]
    print("reported by some check:", len(res) - len(quiet) - len(soft), " only exit-2:", len(soft), " silent:", len(quiet))
    with open(WORK / f"silent{SUF}.txt", "w") as fh:
        for x in sorted(quiet, key=lambda x: (x["module"], x["line"])):
            fh.write(f'{x["id"]}\t{x["module"]}:{x["line"]}\t{x["desc"]}\n')
    print("silent survivors listed in", WORK / f"silent{SUF}.txt")


if __name__ == "__main__":
    {"gen": gen, "gen2": gen2, "suite": suite, "checks": checks}[sys.argv[1]]()
