"""developer tool: systematic single-edit mutants of src/aioftp (comparison/boolean operator flips, constant tweaks, statement and decorator deletions, ...).
stage 1 (`gen`): enumerate mutants; stage 2 (`suite`): keep those the pinned test suite does not notice (run in scratch exports under /tmp, never in /repo);
stage 3 (`checks`): run all 20 checks on the survivors and list the ones nothing reports - each is an equivalent mutant, outside the 20 properties, or a blind spot to triage by reading.
usage: python tools/mutsweep.py gen|suite|checks  (state in /root/work/mut)"""
import ast, concurrent.futures as cf, copy, json, os, pathlib, shutil, subprocess, sys, tempfile
ROOT = pathlib.Path(__file__).resolve().parent.parent
sys.path.insert(0, str(ROOT))
WORK = pathlib.Path("/root/work/mut")
SRC = pathlib.Path("/repo/src/aioftp")
MODS = ["server.py", "client.py", "common.py", "pathio.py", "errors.py"]
CMP = {ast.Eq: ast.NotEq, ast.NotEq: ast.Eq, ast.Lt: ast.LtE, ast.LtE: ast.Lt, ast.Gt: ast.GtE, ast.GtE: ast.Gt, ast.Is: ast.IsNot, ast.IsNot: ast.Is, ast.In: ast.NotIn, ast.NotIn: ast.In}


def mutants_of(mod, text):
    tree = ast.parse(text)
    nodes = list(ast.walk(tree))
    out = []

    def emit(desc, node, mutate):
        t2 = copy.deepcopy(tree)
        n2 = list(ast.walk(t2))[nodes.index(node)]
        if mutate(n2, t2) is False:
            return
        try:
            ast.fix_missing_locations(t2)
            new = ast.unparse(t2)
            compile(new, mod, "exec")
        except Exception:
            return
        out.append({"module": mod, "line": getattr(node, "lineno", 0), "desc": desc, "source": new})
    parent = {}
    for n in nodes:
        for c in ast.iter_child_nodes(n):
            parent[c] = n
    for n in nodes:
        if isinstance(n, ast.Compare) and len(n.ops) == 1 and type(n.ops[0]) in CMP:
            emit(f"cmp {type(n.ops[0]).__name__}->{CMP[type(n.ops[0])].__name__}: {ast.unparse(n)[:50]}", n, lambda m, t: m.ops.__setitem__(0, CMP[type(m.ops[0])]()))
        if isinstance(n, ast.BoolOp):
            emit(f"boolop flip: {ast.unparse(n)[:50]}", n, lambda m, t: setattr(m, "op", ast.Or() if isinstance(m.op, ast.And) else ast.And()))
        if isinstance(n, (ast.If, ast.While)) and not (isinstance(n.test, ast.Constant)):
            emit(f"negate test: {ast.unparse(n.test)[:50]}", n, lambda m, t: setattr(m, "test", ast.UnaryOp(op=ast.Not(), operand=m.test)))
        if isinstance(n, ast.Constant) and isinstance(n.value, bool):
            emit(f"bool const {n.value}->{not n.value}", n, lambda m, t: setattr(m, "value", not m.value))
        elif isinstance(n, ast.Constant) and isinstance(n.value, int) and not isinstance(parent.get(n), ast.Expr):
            emit(f"int const {n.value}->{n.value + 1}", n, lambda m, t: setattr(m, "value", m.value + 1))
            if n.value not in (0,):
                emit(f"int const {n.value}->0", n, lambda m, t: setattr(m, "value", 0))
        elif isinstance(n, ast.Constant) and isinstance(n.value, str) and len(n.value) == 3 and n.value.isdigit():
            emit(f"code {n.value}->{n.value[:2] + str((int(n.value[2]) + 1) % 10)}", n, lambda m, t: setattr(m, "value", m.value[:2] + str((int(m.value[2]) + 1) % 10)))
        elif isinstance(n, ast.Constant) and n.value in ("rb", "wb", "ab", "r+b"):
            alt = {"rb": "r+b", "wb": "ab", "ab": "wb", "r+b": "wb"}[n.value]
            emit(f"mode {n.value}->{alt}", n, lambda m, t, alt=alt: setattr(m, "value", alt))
        if isinstance(n, (ast.FunctionDef, ast.AsyncFunctionDef)):
            for i, d in enumerate(n.decorator_list):
                emit(f"drop decorator @{ast.unparse(d)[:40]} of {n.name}", n, lambda m, t, i=i: m.decorator_list.pop(i))
            if len(n.decorator_list) >= 2:
                emit(f"swap decorators of {n.name}", n, lambda m, t: m.decorator_list.__setitem__(slice(0, 2), [m.decorator_list[1], m.decorator_list[0]]))
        for fld in ("body", "orelse", "finalbody"):
            blk = getattr(n, fld, None)
            if isinstance(blk, list) and blk and isinstance(blk[0], ast.stmt) and not isinstance(n, ast.Module):
                for i, s in enumerate(blk):
                    if isinstance(s, ast.Expr) and isinstance(s.value, ast.Constant):
                        continue
                    if isinstance(s, (ast.Expr, ast.Assign, ast.AugAssign, ast.Delete, ast.Raise, ast.Return, ast.Break, ast.Continue)):
                        def drop(m, t, fld=fld, i=i):
                            b = getattr(m, fld)
                            if len(b) == 1:
                                b[0] = ast.Pass()
                            else:
                                b.pop(i)
                        emit(f"delete stmt: {ast.unparse(s)[:60]}", n, drop)
        if isinstance(n, ast.Break):
            emit("break->continue", n, lambda m, t: None if False else _swap(m, t, ast.Continue))
    return out


def _swap(node, tree, cls):
    for p in ast.walk(tree):
        for fld in ("body", "orelse", "finalbody"):
            b = getattr(p, fld, None)
            if isinstance(b, list) and node in b:
                b[b.index(node)] = cls()
                return
    return False


def gen():
    allm = []
    for m in MODS:
        ms = mutants_of(m, (SRC / m).read_text())
        print(m, len(ms))
        allm += ms
    for i, x in enumerate(allm):
        x["id"] = i
    (WORK / "mutants.json").write_text(json.dumps(allm))
    print("total", len(allm))


def _suite_one(x):
    d = tempfile.mkdtemp(prefix="mutw_", dir="/tmp")
    try:
        subprocess.run(f"git -C /repo archive HEAD | tar -x -C {d}", shell=True, check=True)
        (pathlib.Path(d) / "src" / "aioftp" / x["module"]).write_text(x["source"])
        env = dict(os.environ, PYTHONPATH=f"{d}/src", PYTHONDONTWRITEBYTECODE="1")
        try:
            r = subprocess.run("/venv/bin/python -m pytest -ra -q -p no:cacheprovider --timeout=60 --continue-on-collection-errors -x 2>&1 | tail -1", shell=True, cwd=d, env=env,
                               capture_output=True, text=True, timeout=400)
            line = r.stdout.strip().splitlines()[-1] if r.stdout.strip() else "?"
        except subprocess.TimeoutExpired:
            line = "TIMEOUT"
        return x["id"], line
    finally:
        shutil.rmtree(d, ignore_errors=True)


def suite():
    allm = json.loads((WORK / "mutants.json").read_text())
    done = json.loads((WORK / "suite.json").read_text()) if (WORK / "suite.json").exists() else {}
    todo = [x for x in allm if str(x["id"]) not in done]
    print("todo", len(todo))
    with cf.ProcessPoolExecutor(int(os.environ.get("MUT_JOBS", "12"))) as ex:
        for k, (i, line) in enumerate(ex.map(_suite_one, todo)):
            done[str(i)] = line
            if k % 50 == 0:
                (WORK / "suite.json").write_text(json.dumps(done))
                print(k, "/", len(todo), flush=True)
    (WORK / "suite.json").write_text(json.dumps(done))
    surv = [i for i, l in done.items() if l.startswith("1 failed, 335 passed")]
    print("survivors", len(surv), "of", len(done))


def _check_one(x):
    from sa.cli import analyse, PROPS
    srcs = {m: (SRC / m).read_text() for m in MODS + ["__init__.py", "__main__.py"] if (SRC / m).exists()}
    srcs[x["module"]] = x["source"]
    fired = {}
    for pr in PROPS:
        st, F, ctx, msg = analyse(pr, srcs)
        if st != "ok":
            fired[pr] = st
        elif [f for f in F if not (f.rule in ("C08.CARRY", "C09.NAMES") and "strip on name" in f.construct)]:
            fired[pr] = sorted({f.rule for f in F})
    return x["id"], fired


def checks():
    allm = {x["id"]: x for x in json.loads((WORK / "mutants.json").read_text())}
    done = json.loads((WORK / "suite.json").read_text())
    surv = [allm[int(i)] for i, l in done.items() if l.startswith("1 failed, 335 passed")]
    if os.environ.get("MUT_ONLY") == "silent" and (WORK / "silent.txt").exists():
        ids = {int(l.split("\t")[0]) for l in (WORK / "silent.txt").read_text().splitlines() if l.strip()}
        surv = [x for x in surv if x["id"] in ids]
    print("survivors", len(surv))
    res = json.loads((WORK / "checks.json").read_text()) if os.environ.get("MUT_ONLY") == "silent" and (WORK / "checks.json").exists() else {}
    with cf.ProcessPoolExecutor(14) as ex:
        for i, fired in ex.map(_check_one, surv):
            res[str(i)] = fired
    (WORK / "checks.json").write_text(json.dumps(res))
    quiet = [allm[int(i)] for i, f in res.items() if not f]
    soft = [allm[int(i)] for i, f in res.items() if f and all(isinstance(v, str) for v in f.values())]
    print("reported by some check:", len(res) - len(quiet) - len(soft), " only exit-2:", len(soft), " silent:", len(quiet))
    with open(WORK / "silent.txt", "w") as fh:
        for x in sorted(quiet, key=lambda x: (x["module"], x["line"])):
            fh.write(f'{x["id"]}\t{x["module"]}:{x["line"]}\t{x["desc"]}\n')
    print("silent survivors listed in", WORK / "silent.txt")


if __name__ == "__main__":
    {"gen": gen, "suite": suite, "checks": checks}[sys.argv[1]]()
