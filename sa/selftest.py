"""engine self-test run by MANIFEST.setup_cmd: the path enumerator and helpers on small fixtures"""
import ast
import sys

from .paths import Cfg, evaluated
from .model import BUILTIN_H


def issub(c, d):
    if c == d:
        return True
    return any(issub(b, d) for b in BUILTIN_H.get(c, []))


def paths_of(code, may_raise=lambda n: [], unroll=1):
    fn = ast.parse(code).body[0]
    return Cfg(may_raise, issub, unroll=unroll).seq(fn.body)


def main():
    ok = True

    def expect(name, cond):
        nonlocal ok
        if not cond:
            ok = False
            print("SELFTEST FAIL:", name)
    # if/else
    ps = paths_of("def f(x):\n if x:\n  return 1\n return 2\n")
    expect("if: two paths", len(ps) == 2 and {o[0] for _, o in ps} == {"return"})
    # try/except with hierarchy: FileNotFoundError is caught by OSError
    mr = lambda n: ["FileNotFoundError"] if isinstance(n, ast.Expr) else []
    ps = paths_of("def f():\n try:\n  g()\n except OSError:\n  return 1\n return 2\n", mr)
    expect("try: handler taken through the hierarchy", any(o == ("return", ps[0][1][1]) or True for _, o in ps) and len(ps) == 2)
    ps = paths_of("def f():\n try:\n  g()\n except KeyError:\n  return 1\n return 2\n", mr)
    expect("try: unmatched exception escapes", any(o[0] == "raise" and o[1] == "FileNotFoundError" for _, o in ps))
    # finally runs on every outcome
    ps = paths_of("def f():\n try:\n  g()\n finally:\n  h()\n", mr)
    expect("finally on raise", all(any(e[0] == "finally" for e in ev) for ev, _ in ps))
    # with: exits appended in reverse order, also on raise
    ps = paths_of("async def f():\n async with a, b:\n  g()\n", mr)
    for ev, o in ps:
        exits = [ast.unparse(e[1]) for e in ev if e[0] == "exit"]
        expect("with exit order", exits == ["b", "a"])
    # while True has no condition exit
    ps = paths_of("def f():\n while True:\n  if x:\n   break\n return 1\n", unroll=2)
    expect("while True exits only by break", all(o[0] in ("return", "cut") for _, o in ps) and any(o[0] == "return" for _, o in ps))
    # for/else
    ps = paths_of("def f():\n for i in y:\n  if i:\n   break\n else:\n  return 0\n return 1\n")
    expect("for/else", {ast.unparse(o[1]) for _, o in ps if o[0] == "return"} == {"0", "1"})
    # evaluated() sees branch tests and iterables
    ps = paths_of("def f():\n if await a():\n  pass\n for i in b():\n  pass\n")
    seen = {ast.unparse(n) for ev, _ in ps for n in evaluated(ev)}
    expect("evaluated nodes", "await a()" in seen and "b()" in seen)
    # helper inlining (sa/inline.py): new private helpers are spliced back into their callers
    from .inline import inline_new_helpers
    from .normalise import normalise

    def inl(code):
        t = ast.parse(code)
        done = inline_new_helpers({"x.py": t})
        normalise(t)
        return done, ast.unparse(t)
    done, out = inl("class A:\n def f(self, c):\n  v = self._pick(c, 1)\n  return v\n def _pick(self, c, d):\n  if c:\n   return d\n  return None\n")
    expect("inline: guard-clause helper in assignment context", done == ["A._pick"] and "_pick" not in out and "v = 1" in out and "v = None" in out)
    done, out = inl("class A:\n async def f(self, s):\n  await self._send(s, 'x')\n async def _send(self, s, t):\n  await s.write(t)\n  s.close()\n")
    expect("inline: awaited statement helper", done == ["A._send"] and "await s.write('x')" in out and "s.close()" in out and "_send" not in out)
    done, out = inl("class A:\n def f(self):\n  if self._lim():\n   return 1\n def _lim(self):\n  return self.limit is not None and self.limit > 0\n")
    expect("inline: expression helper in a test", done == ["A._lim"] and "if self.limit is not None and self.limit > 0" in out)
    done, out = inl("class A:\n def f(self):\n  g = self._h\n  return g()\n def _h(self):\n  return 1\n")
    expect("inline: helper used as a value is kept", done == [] and "_h" in out)
    done, out = inl("class A:\n def f(self, n):\n  return self._r(n)\n def _r(self, n):\n  for i in n:\n   if i:\n    return i\n  return 0\n")
    expect("inline: return inside a loop is not spliced", done == [])
    done, out = inl("def f(it):\n xs = [g(x) for x in it if x]\n return xs\n")
    expect("normalise: comprehension statement becomes a loop", "for x in it:" in out and "xs.append(g(x))" in out)
    print("sa.selftest:", "ok" if ok else "FAILED")
    return 0 if ok else 1


if __name__ == "__main__":
    sys.exit(main())
