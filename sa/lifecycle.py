"""Rules shared by C12 / C13 / C14: detached data stream protection, abortable-guard order"""
import ast
from .model import *
from .util import *
from .facts import *
from .paths import Cfg, evaluated


def data_field(p):
    return field_names(p).get("data_connection_made", "data_connection")


def check_detach(ctx, rule, floor=4):
    """After `s = <conn>.<data field>; del <conn>.<data field>` the local owns the socket: on every path the first
    may-suspend construct after the capture must be the entry of a context whose FIRST item is `s` (or a try/finally
    closing it)."""
    p = ctx.p
    field = data_field(p)
    n_inst = 0
    for h, w in p.workers():
        conn = [a.arg for a in w.args.args][1]
        captures = [n for n in walk_no_nested(w) if isinstance(n, ast.Assign) and isinstance(n.value, ast.Attribute) and n.value.attr == field
                    and isinstance(n.value.value, ast.Name) and n.value.value.id == conn and isinstance(n.targets[0], ast.Name)]
        dels = [n for n in walk_no_nested(w) if isinstance(n, ast.Delete) and any(isinstance(t, ast.Attribute) and t.attr == field for t in n.targets)]
        uses = [n for n in walk_no_nested(w) if isinstance(n, ast.Attribute) and n.attr == field and isinstance(n.ctx, ast.Load)]
        if not uses and not dels:
            continue
        n_inst += 1
        q = p.qualname(w)
        if not captures:
            ctx.fail(rule, dels[0] if dels else w, f"{w.name}: the data connection is used/removed without being captured in a local owner", construct=f"{w.name}:no capture")
            continue
        ctx.ob(rule, w, f"{w.name}: the data connection is removed from the session once captured (a second transfer cannot reuse it)", bool(dels),
               f"{w.name}: the data connection stays in the session after the worker took it", construct=f"{w.name}:no del")
        local = captures[0].targets[0].id
        paths = enum_paths(p, w)
        ctx.paths_enumerated += len(paths)
        verdict = None  # (node, what)
        protected_somewhere = False
        for ev, out in paths:
            captured = False
            for e in ev:
                if not captured:
                    if e[0] == "stmt" and e[1] is captures[0]:
                        captured = True
                    continue
                if e[0] == "enter":
                    withn = e[2]
                    first = withn.items[0].context_expr
                    if isinstance(e[1], ast.Name) and e[1].id == local and e[1] is first:
                        protected_somewhere = True
                        break
                    if isinstance(withn, ast.AsyncWith):
                        verdict = verdict or (withn, f"enters `{src(e[1])}` first")
                        break
                    continue
                if e[0] == "stmt" and isinstance(e[1], ast.Try) or e[0] == "finally":
                    continue
                node = e[1].iter if e[0] in ("iter", "aiter") else e[1] if e[0] in ("stmt", "branch") else None
                if node is None:
                    continue
                touches_backend = isinstance(node, ast.AST) and any(isinstance(x, ast.Attribute) and x.attr == "path_io" and isinstance(p.parent.get(x), ast.Attribute)
                                                                    and isinstance(p.parent.get(p.parent.get(x)), ast.Call) and p.parent.get(p.parent.get(x)).func is p.parent.get(x)
                                                                    and p.parent.get(x).attr not in ("open", "list")
                                                                    for x in walk_self(node))
                if e[0] == "aiter" or touches_backend or may_suspend_node(p, node, w):
                    # inside a try whose finally closes the local?
                    if _in_closing_try(p, node if e[0] != "aiter" else e[1], w, local):
                        protected_somewhere = True
                        break
                    verdict = verdict or (node if isinstance(node, ast.AST) else w, f"awaits `{src(node)[:50]}`")
                    break
        if verdict is None and not protected_somewhere:
            verdict = (w, "never closes it")
        what = verdict[1] if verdict else "is protected first"
        cons = None
        if verdict:
            n0 = verdict[0]
            cons = f"{w.name}:first-context={src(n0.items[0].context_expr)}" if isinstance(n0, ast.AsyncWith) else f"{w.name}:{what}"
        ctx.ob(rule, verdict[0] if verdict else w, f"{w.name}: after detaching the data stream `{local}` the first suspending construct is its own context", verdict is None,
               f"{w.name}: after detaching the data stream `{local}` the worker {what}; a backend failure or cancellation there leaves the data socket open "
               "(the peer waits for data/EOF forever)", construct=cons, function=q)
    if n_inst < floor:
        ctx.floor_errors.append(f"rule={rule}: {n_inst} detach sites (floor {floor})")
    return n_inst


def _in_closing_try(p, node, fn, local):
    par, child = p.parent.get(node), node
    while par is not None and par is not fn:
        if isinstance(par, ast.Try) and child in par.body and par.finalbody:
            if any(is_method_call(c, "close") and isinstance(c.func.value, ast.Name) and c.func.value.id == local for s in par.finalbody for c in ast.walk(s)):
                return True
        child, par = par, p.parent.get(par)
    return False


def catches_cancel(p, deco_name):
    try:
        wr = p.wrapper_of(deco_name)
    except AnalysisError:
        return False
    for t in [n for n in walk_no_nested(wr) if isinstance(n, ast.Try)]:
        for h in t.handlers:
            if h.type is None or any(hn in ("CancelledError", "BaseException") for hn in handler_names(h)):
                return True
    return False


def check_outer(ctx, rule, floor=4):
    """the abortable guard (the wrapper that catches CancelledError and answers 426/226) is the OUTERMOST wrapper of every
    coroutine whose task is placed in extra_workers; accepted alternative: the dispatcher distinguishes cancelled tasks"""
    p = ctx.p
    ws = p.workers()
    disp = p.dispatcher()
    alt = any(is_method_call(c, "cancelled") for c in walk_no_nested(disp) if isinstance(c, ast.Call)) or any(
        isinstance(h, ast.ExceptHandler) and h.type is not None and "CancelledError" in handler_names(h)
        and any(is_reply(x) for s in h.body for x in ast.walk(s))
        and any(isinstance(x, ast.Call) and is_method_call(x, "result") for t in [p.parent.get(h)] if isinstance(t, ast.Try) for s in t.body for x in walk_self(s))
        for h in ast.walk(disp))
    for h, w in ws:
        ds = p.decorators(w)
        outer = ds[0].name if ds else None
        ok = bool(ds) and catches_cancel(p, ds[0].name)
        if not ok and alt:
            raise Inconclusive(f"{rule}: the dispatcher distinguishes cancelled worker tasks itself and {w.name}'s outermost decorator is {outer}; "
                               "this shape is outside the rule's vocabulary")
        ctx.ob(rule, w, f"{w.name}: outermost decorator `{outer}` is the abortable guard (catches CancelledError)", ok,
               f"worker {w.name}: outermost decorator is {outer}; a cancellation (ABOR) while an outer wrapper runs - e.g. during the wait for the data "
               "connection - is not answered 426/226 and tears the session down", construct=f"{w.name}:outermost={outer}")
    if len(ws) < floor:
        ctx.floor_errors.append(f"rule={rule}: {len(ws)} workers found (floor {floor})")
