"""./check <ID> [--tier quick|thorough] [--replay file] [--src DIR]

exit 0: every obligation of every decided clause discharged (KNOWN-FINDING lines possible)
exit 1: at least one unlisted violation; each printed as `VIOLATION property=<id> replay=<path>`
exit 2: ANALYSIS-ERROR / ANALYSIS-INCONCLUSIVE (never looks like a violation)
"""
import argparse
import importlib
import json
import os
import sys
import time
import traceback

from .model import Program, AnalysisError, Inconclusive
from . import report

DEFAULT_SRC = "/repo/src/aioftp"
PROPS = [f"C{i:02d}" for i in range(1, 21)]


THOROUGH_EXTRA_UNROLL = 2


def run_rules(prop, program, tier):
    mod = importlib.import_module(f"sa.props.{prop.lower()}")
    ctx = report.Ctx(prop, program, tier)
    for rule in mod.RULES:
        try:
            rule(ctx)
        except Inconclusive as e:   # one rule group cannot decide: the others still run
            ctx.rule_errors.append(("inconclusive", f"{rule.__name__}: {e}"))
        except AnalysisError as e:
            ctx.rule_errors.append(("error", f"{rule.__name__}: {e}"))
    return mod, ctx


def analyse(prop, sources, tier="quick", program=None):
    """-> (status, findings, ctx, message) ; status in ok / error / inconclusive"""
    try:
        p = program if program is not None else Program(sources)
        mod, ctx = run_rules(prop, p, tier)
        if not ctx.findings:   # a violation found by any rule takes priority over an undecided / vacuous rule
            if ctx.rule_errors:
                kinds = {k for k, _ in ctx.rule_errors}
                return ("inconclusive" if kinds == {"inconclusive"} else "error"), [], None, "; ".join(m for _, m in ctx.rule_errors)
            if ctx.floor_errors:
                return "error", [], None, "; ".join(ctx.floor_errors)
        return "ok", ctx.findings, ctx, None
    except Inconclusive as e:
        return "inconclusive", [], None, str(e)
    except AnalysisError as e:
        return "error", [], None, str(e)
    except RecursionError as e:
        return "error", [], None, "recursion limit: " + str(e)
    except Exception as e:  # a bug in the analyser is never a violation
        return "error", [], None, "internal: " + "".join(traceback.format_exception_only(type(e), e)).strip() + " @ " + traceback.format_exc().strip().splitlines()[-3].strip()


def main(argv=None):
    ap = argparse.ArgumentParser(prog="check")
    ap.add_argument("prop")
    ap.add_argument("--tier", default=os.environ.get("VERIF_TIER", "quick"), choices=["quick", "thorough"])
    ap.add_argument("--replay")
    ap.add_argument("--src", default=DEFAULT_SRC)
    ap.add_argument("--no-evidence", action="store_true")
    a = ap.parse_args(argv)
    prop = a.prop.upper()
    if prop not in PROPS:
        print(f"unknown property {a.prop}")
        return 2
    try:
        seed = int(os.environ.get("VERIF_SEED", "0"))
    except ValueError:
        seed = 0
    t0 = time.time()
    mod = importlib.import_module(f"sa.props.{prop.lower()}")
    try:
        program = Program.from_dir(a.src)
        sources = program.sources
    except AnalysisError as e:
        print(f"ANALYSIS-ERROR property={prop} {e}")
        _error_evidence(prop, a, seed, t0, mod, "error", str(e))
        return 2
    from .paths import Cfg
    Cfg.BONUS = THOROUGH_EXTRA_UNROLL if a.tier == "thorough" else 0   # thorough: every path rule explores loops deeper
    try:
        status, findings, ctx, msg = analyse(prop, sources, a.tier, program)
    finally:
        Cfg.BONUS = 0   # the seeded self-validation below re-runs the quick analysis on each seeded variant
    if status != "ok":
        tag = "ANALYSIS-INCONCLUSIVE" if status == "inconclusive" else "ANALYSIS-ERROR"
        print(f"{tag} property={prop} {msg}")
        _error_evidence(prop, a, seed, t0, mod, status, msg)
        return 2
    known = report.load_known()
    known_hits, unknown = [], []
    for f in findings:
        (known_hits if report.known_match(f, known) else unknown).append(f)

    if a.replay:
        want = json.loads(open(a.replay).read())
        hit = [f for f in findings if (f.rule, f.function, f.construct) == (want["rule"], want["function"], want["construct"])]
        if hit:
            print(f"REPLAY reproduced: {hit[0]}")
            print(f"VIOLATION property={prop} replay={a.replay}")
            return 1
        print(f"REPLAY not reproduced on the current tree: rule={want['rule']} function={want['function']} construct={want['construct']}")
        return 0

    extra = {}
    if a.tier == "thorough" and not unknown:
        from . import selfval
        sv = selfval.run(prop, sources, findings)
        extra["self_validation"] = sv["summary"]
        extra["self_validation_details"] = sv["details"]
        if sv["blind"]:
            for b in sv["blind"]:
                print(f"ANALYSIS-ERROR property={prop} self-validation: seeded fault {b} was not reported by its rule (a pass from a blind rule is not believed)")
            _error_evidence(prop, a, seed, t0, mod, "error", "self-validation failed: " + ", ".join(sv["blind"]))
            return 2
        if sv["false_alarms"]:
            for b in sv["false_alarms"]:
                print(f"ANALYSIS-ERROR property={prop} self-validation: benign variant {b} raised an alarm")
            _error_evidence(prop, a, seed, t0, mod, "error", "self-validation false alarm: " + ", ".join(sv["false_alarms"]))
            return 2

    for f in known_hits:
        print(f"KNOWN-FINDING: property={prop} {f.rule} {f.function}: {f.message}")
    paths = []
    for i, f in enumerate(unknown):
        rp = report.write_replay(f, i)
        paths.append(rp)
        print(f"VIOLATION property={prop} replay={rp}")
        print(f"    {f}")
    st = "violations" if unknown else "pass"
    if not a.no_evidence:
        report.write_evidence(ctx, time.time() - t0, seed, mod.EXPLANATION, mod.NOT_DECIDED, st, unknown, known_hits, extra)
    n_ob = len(ctx.obligations)
    n_ok = sum(1 for o in ctx.obligations if o["ok"])
    print(f"{prop} [{a.tier}] rules={len(ctx.rules)} obligations={n_ob} discharged={n_ok} "
          f"known={len(known_hits)} violations={len(unknown)} wall={time.time() - t0:.2f}s")
    return 1 if unknown else 0


def _error_evidence(prop, a, seed, t0, mod, status, msg):
    if a.no_evidence:
        return
    report.EVIDENCE_DIR.mkdir(exist_ok=True)
    ev = {"property_id": prop, "tier": a.tier, "seed": seed, "level": "other",
          "coverage": {"explanation": getattr(mod, "EXPLANATION", "") + f" -- THIS RUN DID NOT COMPLETE: {status}: {msg}",
                       "status": status, "obligations": 0, "discharged": 0},
          "assumptions": report.ASSUMPTIONS, "wall_s": round(time.time() - t0, 3), "violations": 0}
    (report.EVIDENCE_DIR / f"{prop}.json").write_text(json.dumps(ev, indent=1) + "\n")


if __name__ == "__main__":
    try:
        import signal
        signal.signal(signal.SIGPIPE, signal.SIG_DFL)   # behave like a unix filter when the reader goes away
    except Exception:
        pass
    try:
        rc = main()
    except SystemExit:
        raise
    except BaseException:
        traceback.print_exc()
        print("ANALYSIS-ERROR internal failure of the checker")
        rc = 2
    sys.exit(rc)
