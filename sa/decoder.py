"""Abstract evaluation of the client's reply decoder (BaseClient.parse_response) over a finite alphabet of line kinds.

A reply line is abstracted to (head numeric?, head == first code?, kind of the text after the 3-char head) with
kind in {'-x' (continuation separator), ' x' (final, text), '' (final, empty text), 'x' (other)}.
The decoder's own statements are interpreted over this alphabet (assignments of names, boolean expressions built from
startswith(<const>), isdigit(), ==/!= between codes, not/and/or, if/while, raise, return) for every line sequence of
length <= 3 and compared with the reference framing:  single line unless the first text starts with '-'; then lines are
consumed until a numeric head with a non-'-' text; a numeric head differing from the first code is rejected; a
non-numeric head is a body line.  Anything outside this vocabulary -> Inconclusive (never a pass).
No code of the repository is executed: the interpreter walks the AST.
"""
import ast
import itertools
from .model import *

KINDS = ("-x", " x", "", "x")
KIND_STR = {"-x": "-x", " x": " x", "": "", "x": "x"}


class _Reject(Exception):
    pass


class _More(Exception):
    pass


class _Return(Exception):
    def __init__(self, value=None):
        self.value = value


class CodeV:
    def __init__(self, numeric, same):
        self.numeric, self.same = numeric, same


class TextV:
    def __init__(self, kind):
        self.kind = kind


class LineV:
    """a whole control line as read from the stream (bytes or decoded text, right-stripped or not)"""

    def __init__(self, num, same, kind):
        self.num, self.same, self.kind = num, same, kind


class HeadV:
    """the first three characters of a line, before they are wrapped into the code type"""

    def __init__(self, line):
        self.line = line


def spec(lines):
    first = lines[0]
    if not first[2].startswith("-"):
        return ("done", 1)
    k = 1
    while True:
        if k >= len(lines):
            return ("more", k)
        num, same, kind = lines[k]
        k += 1
        if num:
            if not same:
                return ("reject", k)
            if not kind.startswith("-"):
                return ("done", k)


class _Env:
    """frames of local variables; a nested helper reads the variables of the frames below it"""

    def __init__(self):
        self.frames = [{}]

    def __contains__(self, k):
        return any(k in f for f in self.frames)

    def __getitem__(self, k):
        for f in reversed(self.frames):
            if k in f:
                return f[k]
        raise KeyError(k)

    def __setitem__(self, k, v):
        self.frames[-1][k] = v


def run_impl(fn, lines, helpers=None):
    env = _Env()
    funcs = dict(helpers or {})   # name -> function node: methods of the class (called as self.<name>) and local functions
    pos = [0]
    depth = [0]

    def read():
        if pos[0] >= len(lines):
            raise _More()
        num, same, kind = lines[pos[0]]
        pos[0] += 1
        return CodeV(num, same if num else False), TextV(kind)

    def is_parse_line(e):
        return isinstance(e, ast.Await) and isinstance(e.value, ast.Call) and isinstance(e.value.func, ast.Attribute) and e.value.func.attr == "parse_line"

    def call(fnode, args):
        params = [a.arg for a in fnode.args.args]
        if params and params[0] in ("self", "cls"):
            if len(args) == len(params):
                args = args[1:]    # a local function that takes the instance explicitly
            params = params[1:]
        if len(args) > len(params) or fnode.args.vararg or fnode.args.kwarg:
            raise Inconclusive(f"C06.DEC: helper call outside the vocabulary: {fnode.name}")
        depth[0] += 1
        if depth[0] > 6:
            raise Inconclusive("C06.DEC: helper recursion")
        env.frames.append(dict(zip(params, args)))
        try:
            body = list(fnode.body)
            if body and isinstance(body[0], ast.Expr) and isinstance(body[0].value, ast.Constant):
                body = body[1:]
            try:
                run(body)
            except _Return as r:
                return r.value
            return None
        finally:
            env.frames.pop()
            depth[0] -= 1

    def helper_of(e):
        if isinstance(e, ast.Call) and isinstance(e.func, ast.Name) and e.func.id in funcs:
            return funcs[e.func.id]
        if isinstance(e, ast.Call) and isinstance(e.func, ast.Attribute) and isinstance(e.func.value, ast.Name) and e.func.value.id in ("self", "cls") \
                and e.func.attr in funcs and e.func.attr != "parse_line":
            return funcs[e.func.attr]
        return None

    def ev(e):
        if isinstance(e, ast.Constant):
            return e.value
        if is_parse_line(e):
            return read()
        if isinstance(e, ast.Await) and isinstance(e.value, ast.Call) and isinstance(e.value.func, ast.Attribute) and e.value.func.attr == "readline" and not e.value.args:
            if pos[0] >= len(lines):
                raise _More()
            num, same, kind = lines[pos[0]]
            pos[0] += 1
            return LineV(num, same if num else False, kind)
        if isinstance(e, ast.Await):
            return ev(e.value)
        if isinstance(e, ast.Call) and isinstance(e.func, ast.Attribute) and e.func.attr in ("decode", "rstrip") and (e.func.attr == "decode" or not e.args):
            try:
                recv0 = ev(e.func.value)
            except Inconclusive:
                recv0 = None
            if isinstance(recv0, LineV):
                return recv0
        if isinstance(e, ast.Subscript) and isinstance(e.slice, ast.Slice) and isinstance(e.value, ast.Name) and e.value.id in env and isinstance(env[e.value.id], LineV):
            ln, sl = env[e.value.id], e.slice
            lo = sl.lower.value if isinstance(sl.lower, ast.Constant) else None
            hi = sl.upper.value if isinstance(sl.upper, ast.Constant) else None
            if sl.step is None and (lo, hi) in ((None, 3), (0, 3)):
                return HeadV(ln)
            if sl.step is None and (lo, hi) == (3, None):
                return TextV(ln.kind)
            raise Inconclusive(f"C06.DEC: line slice outside the vocabulary: {src(e)}")
        if isinstance(e, ast.Call) and isinstance(e.func, ast.Name) and e.func.id == "Code" and len(e.args) == 1:
            h = ev(e.args[0])
            if isinstance(h, HeadV):
                return CodeV(h.line.num, h.line.same)
            raise Inconclusive(f"C06.DEC: code built from something else than the first three characters: {src(e)}")
        if isinstance(e, ast.Tuple) and any(isinstance(x, (ast.Call, ast.Subscript)) for x in e.elts) and depth[0] >= 0 \
                and all(isinstance(x, (ast.Call, ast.Subscript, ast.Name, ast.Constant)) for x in e.elts):
            try:
                vals = tuple(ev(x) for x in e.elts)
            except Inconclusive:
                vals = None
            if vals is not None and any(isinstance(v, (CodeV, TextV)) for v in vals):
                return vals
        if helper_of(e) is not None:
            if e.keywords or any(isinstance(a, ast.Starred) for a in e.args):
                raise Inconclusive(f"C06.DEC: helper call outside the vocabulary: {src(e)[:50]}")
            return call(helper_of(e), [None if isinstance(a, ast.Name) and a.id in ("self", "cls") else ev(a) for a in e.args])
        if isinstance(e, ast.Tuple) and all(isinstance(x, (ast.Name, ast.Constant)) for x in e.elts):
            return tuple(ev(x) if not isinstance(x, ast.Name) or x.id in env else None for x in e.elts)
        if isinstance(e, ast.Name):
            if e.id not in env:
                raise Inconclusive(f"C06.DEC: decoder reads unknown name `{e.id}`")
            return env[e.id]
        if isinstance(e, ast.UnaryOp) and isinstance(e.op, ast.Not):
            return not truth(ev(e.operand))
        if isinstance(e, ast.BoolOp):
            if isinstance(e.op, ast.And):
                r = True
                for v in e.values:
                    r = ev(v)
                    if not truth(r):
                        return r
                return r
            r = False
            for v in e.values:
                r = ev(v)
                if truth(r):
                    return r
            return r
        if isinstance(e, ast.Call) and isinstance(e.func, ast.Attribute):
            recv = ev(e.func.value)
            a = e.func.attr
            if isinstance(recv, TextV) and a == "startswith" and len(e.args) == 1 and isinstance(e.args[0], ast.Constant) and isinstance(e.args[0].value, str):
                return KIND_STR[recv.kind].startswith(e.args[0].value)
            if isinstance(recv, TextV) and a in ("strip", "lstrip", "rstrip") and not e.args:
                return TextV({"-x": "-x", " x": "x", "": "", "x": "x"}[recv.kind] if a != "rstrip" else recv.kind)
            if isinstance(recv, CodeV) and a in ("isdigit", "isdecimal", "isnumeric") and not e.args:
                return recv.numeric
            if isinstance(recv, CodeV) and a == "matches":
                raise Inconclusive("C06.DEC: decoder uses mask matching inside the framing loop")
            raise Inconclusive(f"C06.DEC: decoder operation outside the vocabulary: {src(e)[:50]}")
        if isinstance(e, ast.Compare) and len(e.ops) == 1:
            l, r = ev(e.left), ev(e.comparators[0])
            if isinstance(l, CodeV) and isinstance(r, CodeV):
                eq = (l.same and r.same) if (l.numeric and r.numeric) else (l is r)
                if isinstance(e.ops[0], ast.Eq):
                    return eq
                if isinstance(e.ops[0], ast.NotEq):
                    return not eq
            if isinstance(l, TextV) and isinstance(r, str):
                eq = KIND_STR[l.kind] == r if l.kind in ("",) or r == "" else None
                if eq is not None:
                    return eq if isinstance(e.ops[0], ast.Eq) else not eq
            raise Inconclusive(f"C06.DEC: comparison outside the vocabulary: {src(e)[:50]}")
        if isinstance(e, (ast.List, ast.Tuple, ast.BinOp, ast.JoinedStr, ast.Subscript)):
            return None   # text accumulation: not part of the framing decision
        if isinstance(e, ast.IfExp):
            return ev(e.body) if truth(ev(e.test)) else ev(e.orelse)
        raise Inconclusive(f"C06.DEC: expression outside the vocabulary: {src(e)[:50]}")

    def truth(v):
        if isinstance(v, TextV):
            return v.kind != ""
        if isinstance(v, (CodeV, LineV)):
            return True
        return bool(v)

    def run(stmts):
        for s in stmts:
            if isinstance(s, FuncT):
                funcs[s.name] = s
            elif isinstance(s, ast.Assign):
                produces_pair = is_parse_line(s.value) or helper_of(s.value.value if isinstance(s.value, ast.Await) else s.value) is not None \
                    or (isinstance(s.value, ast.Tuple) and any(isinstance(x, ast.Call) and isinstance(x.func, ast.Name) and x.func.id == "Code" for x in s.value.elts))
                if produces_pair and isinstance(s.targets[0], ast.Tuple):
                    v = ev(s.value)
                    tg = s.targets[0]
                    if isinstance(v, tuple) and len(tg.elts) == len(v) and all(isinstance(x, ast.Name) for x in tg.elts):
                        for x, y in zip(tg.elts, v):
                            env[x.id] = y
                    else:
                        raise Inconclusive("C06.DEC: parse_line result is not unpacked into (code, rest)")
                elif is_parse_line(s.value):
                    raise Inconclusive("C06.DEC: parse_line result is not unpacked into (code, rest)")
                else:
                    v = ev(s.value)
                    for tg in s.targets:
                        if isinstance(tg, ast.Name):
                            env[tg.id] = v
                        elif isinstance(tg, ast.Tuple) and isinstance(s.value, ast.Tuple) and len(tg.elts) == len(s.value.elts):
                            for a, b in zip(tg.elts, s.value.elts):
                                if isinstance(a, ast.Name):
                                    env[a.id] = ev(b)
            elif isinstance(s, ast.AugAssign):
                continue
            elif isinstance(s, ast.Expr):
                if is_parse_line(s.value):
                    read()
                elif helper_of(s.value.value if isinstance(s.value, ast.Await) else s.value) is not None:
                    ev(s.value)
                continue
            elif isinstance(s, ast.If):
                run(s.body if truth(ev(s.test)) else s.orelse)
            elif isinstance(s, ast.While):
                n = 0
                while truth(ev(s.test)):
                    n += 1
                    if n > 8:
                        raise _More()
                    try:
                        run(s.body)
                    except _Break:
                        break
                    except _Continue:
                        continue
                else:
                    run(s.orelse)
            elif isinstance(s, ast.Raise):
                raise _Reject()
            elif isinstance(s, ast.Return):
                v = None
                if s.value is not None and depth[0] > 0:
                    v = ev(s.value)
                raise _Return(v)
            elif isinstance(s, ast.Break):
                raise _Break()
            elif isinstance(s, ast.Continue):
                raise _Continue()
            elif isinstance(s, ast.Pass):
                continue
            else:
                raise Inconclusive(f"C06.DEC: statement outside the vocabulary: {src(s)[:50]}")
    body = list(fn.body)
    if body and isinstance(body[0], ast.Expr) and isinstance(body[0].value, ast.Constant):
        body = body[1:]
    try:
        run(body)
    except _Return:
        return ("done", pos[0])
    except _Reject:
        return ("reject", pos[0])
    except _More:
        return ("more", pos[0])
    return ("done", pos[0])


class _Break(Exception):
    pass


class _Continue(Exception):
    pass


def render(lines):
    out = []
    for i, (num, same, kind) in enumerate(lines):
        head = ("211" if same or i == 0 else "250") if num else " ab"
        out.append(head + {"-x": "-text", " x": " text", "": "", "x": "text"}[kind])
    return out


def compare(fn, maxlen=3, helpers=None):
    """-> (n sequences, [(lines, impl outcome, spec outcome)])"""
    others = [(True, True, k) for k in KINDS] + [(True, False, k) for k in KINDS] + [(False, False, k) for k in KINDS]
    firsts = [(True, True, k) for k in KINDS]
    n = 0
    diffs = []
    for L in range(1, maxlen + 1):
        for first in firsts:
            for rest in itertools.product(others, repeat=L - 1):
                lines = [first] + list(rest)
                n += 1
                want = spec(lines)
                got = run_impl(fn, lines, helpers)
                # a sequence longer than what the reference consumes: compare only the prefix behaviour
                if got != want:
                    if want[0] == "done" and got == ("done", want[1]):
                        continue
                    diffs.append((lines, got, want))
    return n, diffs
