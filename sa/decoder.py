"""Abstract evaluation of the client's reply decoder (BaseClient.parse_response) over a finite alphabet of line kinds.

A reply line is abstracted to (head numeric?, head == first code?, kind of the text after the 3-char head) with
kind in {'-x' (continuation separator), ' x' (final, text), '' (final, empty text), 'x' (other)}.
The decoder's own statements are interpreted over this alphabet (assignments of names, boolean expressions built from
startswith(<const>), isdigit(), ==/!= between codes, not/and/or, if/while, raise, return) for every line sequence of
length <= 3 and compared with the reference framing:  single line unless the first text starts with '-'; then lines are
consumed until a numeric head with a non-'-' text; a numeric head differing from the first code is rejected; a
non-numeric head is a body line.  Anything outside this vocabulary -> Inconclusive (never a pass).
No code of the repository is executed: the interpreter walks the AST.
"""
import ast
import itertools
from .model import *

KINDS = ("-x", " x", "", "x")
KIND_STR = {"-x": "-x", " x": " x", "": "", "x": "x"}


class _Reject(Exception):
    pass


class _More(Exception):
    pass


class _Return(Exception):
    pass


class CodeV:
    def __init__(self, numeric, same):
        self.numeric, self.same = numeric, same


class TextV:
    def __init__(self, kind):
        self.kind = kind


def spec(lines):
    first = lines[0]
    if not first[2].startswith("-"):
        return ("done", 1)
    k = 1
    while True:
        if k >= len(lines):
            return ("more", k)
        num, same, kind = lines[k]
        k += 1
        if num:
            if not same:
                return ("reject", k)
            if not kind.startswith("-"):
                return ("done", k)


def run_impl(fn, lines):
    env = {}
    pos = [0]

    def read():
        if pos[0] >= len(lines):
            raise _More()
        num, same, kind = lines[pos[0]]
        pos[0] += 1
        return CodeV(num, same if num else False), TextV(kind)

    def is_parse_line(e):
        return isinstance(e, ast.Await) and isinstance(e.value, ast.Call) and isinstance(e.value.func, ast.Attribute) and e.value.func.attr == "parse_line"

    def ev(e):
        if isinstance(e, ast.Constant):
            return e.value
        if isinstance(e, ast.Name):
            if e.id not in env:
                raise Inconclusive(f"C06.DEC: decoder reads unknown name `{e.id}`")
            return env[e.id]
        if isinstance(e, ast.UnaryOp) and isinstance(e.op, ast.Not):
            return not truth(ev(e.operand))
        if isinstance(e, ast.BoolOp):
            if isinstance(e.op, ast.And):
                r = True
                for v in e.values:
                    r = ev(v)
                    if not truth(r):
                        return r
                return r
            r = False
            for v in e.values:
                r = ev(v)
                if truth(r):
                    return r
            return r
        if isinstance(e, ast.Call) and isinstance(e.func, ast.Attribute):
            recv = ev(e.func.value)
            a = e.func.attr
            if isinstance(recv, TextV) and a == "startswith" and len(e.args) == 1 and isinstance(e.args[0], ast.Constant) and isinstance(e.args[0].value, str):
                return KIND_STR[recv.kind].startswith(e.args[0].value)
            if isinstance(recv, TextV) and a in ("strip", "lstrip", "rstrip") and not e.args:
                return TextV({"-x": "-x", " x": "x", "": "", "x": "x"}[recv.kind] if a != "rstrip" else recv.kind)
            if isinstance(recv, CodeV) and a in ("isdigit", "isdecimal", "isnumeric") and not e.args:
                return recv.numeric
            if isinstance(recv, CodeV) and a == "matches":
                raise Inconclusive("C06.DEC: decoder uses mask matching inside the framing loop")
            raise Inconclusive(f"C06.DEC: decoder operation outside the vocabulary: {src(e)[:50]}")
        if isinstance(e, ast.Compare) and len(e.ops) == 1:
            l, r = ev(e.left), ev(e.comparators[0])
            if isinstance(l, CodeV) and isinstance(r, CodeV):
                eq = (l.same and r.same) if (l.numeric and r.numeric) else (l is r)
                if isinstance(e.ops[0], ast.Eq):
                    return eq
                if isinstance(e.ops[0], ast.NotEq):
                    return not eq
            if isinstance(l, TextV) and isinstance(r, str):
                eq = KIND_STR[l.kind] == r if l.kind in ("",) or r == "" else None
                if eq is not None:
                    return eq if isinstance(e.ops[0], ast.Eq) else not eq
            raise Inconclusive(f"C06.DEC: comparison outside the vocabulary: {src(e)[:50]}")
        if isinstance(e, (ast.List, ast.Tuple, ast.BinOp, ast.JoinedStr, ast.Subscript)):
            return None   # text accumulation: not part of the framing decision
        if isinstance(e, ast.IfExp):
            return ev(e.body) if truth(ev(e.test)) else ev(e.orelse)
        raise Inconclusive(f"C06.DEC: expression outside the vocabulary: {src(e)[:50]}")

    def truth(v):
        if isinstance(v, TextV):
            return v.kind != ""
        if isinstance(v, CodeV):
            return True
        return bool(v)

    def run(stmts):
        for s in stmts:
            if isinstance(s, ast.Assign):
                if is_parse_line(s.value):
                    c, t = read()
                    tg = s.targets[0]
                    if isinstance(tg, ast.Tuple) and len(tg.elts) == 2 and all(isinstance(x, ast.Name) for x in tg.elts):
                        env[tg.elts[0].id], env[tg.elts[1].id] = c, t
                    else:
                        raise Inconclusive("C06.DEC: parse_line result is not unpacked into (code, rest)")
                else:
                    v = ev(s.value)
                    for tg in s.targets:
                        if isinstance(tg, ast.Name):
                            env[tg.id] = v
                        elif isinstance(tg, ast.Tuple) and isinstance(s.value, ast.Tuple) and len(tg.elts) == len(s.value.elts):
                            for a, b in zip(tg.elts, s.value.elts):
                                if isinstance(a, ast.Name):
                                    env[a.id] = ev(b)
            elif isinstance(s, ast.AugAssign):
                continue
            elif isinstance(s, ast.Expr):
                if is_parse_line(s.value):
                    read()
                continue
            elif isinstance(s, ast.If):
                run(s.body if truth(ev(s.test)) else s.orelse)
            elif isinstance(s, ast.While):
                n = 0
                while truth(ev(s.test)):
                    n += 1
                    if n > 8:
                        raise _More()
                    try:
                        run(s.body)
                    except _Break:
                        break
                    except _Continue:
                        continue
                else:
                    run(s.orelse)
            elif isinstance(s, ast.Raise):
                raise _Reject()
            elif isinstance(s, ast.Return):
                raise _Return()
            elif isinstance(s, ast.Break):
                raise _Break()
            elif isinstance(s, ast.Continue):
                raise _Continue()
            elif isinstance(s, ast.Pass):
                continue
            else:
                raise Inconclusive(f"C06.DEC: statement outside the vocabulary: {src(s)[:50]}")
    body = list(fn.body)
    if body and isinstance(body[0], ast.Expr) and isinstance(body[0].value, ast.Constant):
        body = body[1:]
    try:
        run(body)
    except _Return:
        return ("done", pos[0])
    except _Reject:
        return ("reject", pos[0])
    except _More:
        return ("more", pos[0])
    return ("done", pos[0])


class _Break(Exception):
    pass


class _Continue(Exception):
    pass


def render(lines):
    out = []
    for i, (num, same, kind) in enumerate(lines):
        head = ("211" if same or i == 0 else "250") if num else " ab"
        out.append(head + {"-x": "-text", " x": " text", "": "", "x": "text"}[kind])
    return out


def compare(fn, maxlen=3):
    """-> (n sequences, [(lines, impl outcome, spec outcome)])"""
    others = [(True, True, k) for k in KINDS] + [(True, False, k) for k in KINDS] + [(False, False, k) for k in KINDS]
    firsts = [(True, True, k) for k in KINDS]
    n = 0
    diffs = []
    for L in range(1, maxlen + 1):
        for first in firsts:
            for rest in itertools.product(others, repeat=L - 1):
                lines = [first] + list(rest)
                n += 1
                want = spec(lines)
                got = run_impl(fn, lines)
                # a sequence longer than what the reference consumes: compare only the prefix behaviour
                if got != want:
                    if want[0] == "done" and got == ("done", want[1]):
                        continue
                    diffs.append((lines, got, want))
    return n, diffs
