"""AST normalisation, step 1: inlining of NEW private helpers ("extract method" undone).

The rules of this package are mostly intra-procedural: they look at the body of a handler, a wrapper, the dispatcher.
A refactoring that moves a few statements into a new helper method would hide them. Helpers that did not exist on the
reference tree (sa/known_functions.json lists every function the rules were written against) and that are simple enough
are therefore inlined into their callers before the program model is built:

 * candidates: module-level functions, methods (plain / staticmethod / classmethod) and nested functions whose
   qualified name is not in the reference inventory, without other decorators, without *args/**kwargs, yield,
   global/nonlocal or recursion;
 * 'expr' helpers (body = one `return <expr>`) are substituted at expression level anywhere;
 * 'tail' helpers (every `return` in tail position) are spliced in at statement level where the call is the whole
   statement: `h(...)`, `await h(...)`, `x = [await] h(...)`, `return [await] h(...)`;
 * parameters that receive a pure reference (name, attribute chain, constant) and are never re-assigned are substituted,
   others are bound by an assignment; helper locals that would capture a caller name are renamed;
 * a helper whose every use was inlined is removed, so that rules enumerating the methods of a class do not see the
   detached copy.

Everything else (a helper passed as a value, called inside a larger expression with a multi-statement body, ...) is left
alone; the rules then answer on the shape they find. Nothing is executed; line numbers of moved statements are kept.
"""
import ast
import copy
import json
import pathlib

FuncT = (ast.FunctionDef, ast.AsyncFunctionDef)
_INVENTORY = json.loads((pathlib.Path(__file__).resolve().parent / "known_functions.json").read_text())   # "module:qualname" -> fingerprint
KNOWN_CONSTANTS = set(_INVENTORY.pop("@constants", []))
KNOWN = set(_INVENTORY)


def fingerprint(fn):
    """what a function touches, independent of its own name and of the names of its locals: attribute names, called plain names,
    short string constants (the docstring excluded)"""
    out = set()
    body = _body_wo_doc(fn)
    for st in body:
        for n in ast.walk(st):
            if isinstance(n, ast.Attribute):
                out.add("a:" + n.attr)
            elif isinstance(n, ast.Call) and isinstance(n.func, ast.Name):
                out.add("c:" + n.func.id)
            elif isinstance(n, ast.Constant) and isinstance(n.value, str) and len(n.value) <= 60:
                out.add("s:" + n.value)
    return sorted(out)


def undo_renames(trees):
    """a reference method / module function that is missing while an unknown one with (nearly) the same fingerprint exists in the
    same class / module was renamed: the old name is restored at the definition and at every reference, so that rules that
    name a function of the reference tree keep finding it. -> {new name: old name}"""
    renamed = {}
    for mod, tree in trees.items():
        qn = _qualnames(tree, mod)
        cur = {q: fn for fn, q in qn.items() if q.count(".") <= 1}
        known_here = {k.split(":", 1)[1]: v for k, v in _INVENTORY.items() if k.startswith(mod + ":") and k.split(":", 1)[1].count(".") <= 1}
        missing = {q: fp for q, fp in known_here.items() if q not in cur}
        new = {q: fn for q, fn in cur.items() if q not in known_here}
        if not missing or not new:
            continue
        pairs = []
        for nq, fn in new.items():
            fp = set(fingerprint(fn))
            for mq, mfp in missing.items():
                if nq.rsplit(".", 1)[0:-1] != mq.rsplit(".", 1)[0:-1]:
                    continue   # another class / the module level
                mset = set(mfp)
                if not fp and not mset:
                    continue
                sim = len(fp & mset) / max(1, len(fp | mset))
                pairs.append((sim, nq, mq))
        pairs.sort(reverse=True)
        used_n, used_m = set(), set()
        for sim, nq, mq in pairs:
            if sim < 0.6 or nq in used_n or mq in used_m:
                continue
            # ambiguous second-best for the same new function: skip
            rivals = [s_ for s_, n_, m_ in pairs if n_ == nq and m_ != mq and s_ >= sim - 0.1]
            if rivals:
                continue
            used_n.add(nq)
            used_m.add(mq)
            old_name, new_name = mq.rsplit(".", 1)[-1], nq.rsplit(".", 1)[-1]
            if any(isinstance(n, FuncT) and n.name == old_name for t in trees.values() for n in ast.walk(t)):
                continue   # the old name is in use elsewhere: do not merge
            fn_node = new[nq]
            owner = None
            for cand in ast.walk(tree):
                b_ = getattr(cand, "body", None)
                if isinstance(b_, list) and any(fn_node is x for x in b_):
                    owner = cand
            if isinstance(owner, FuncT):
                # a nested function: its name is a local of the enclosing function
                if any(isinstance(n, ast.Name) and n.id == old_name for n in ast.walk(owner)):
                    continue
                fn_node.name = old_name
                for n in ast.walk(owner):
                    if isinstance(n, ast.Name) and n.id == new_name:
                        n.id = old_name
            else:
                for t in trees.values():
                    for n in ast.walk(t):
                        if isinstance(n, FuncT) and n.name == new_name:
                            n.name = old_name
                        elif isinstance(n, ast.Attribute) and n.attr == new_name:
                            n.attr = old_name
                        elif isinstance(n, ast.Name) and n.id == new_name and isinstance(owner, ast.Module):
                            n.id = old_name
            renamed[f"{mod}:{nq}"] = mq
    return renamed


def _qualnames(tree, mod):
    out = {}

    def rec(node, prefix):
        for n in ast.iter_child_nodes(node):
            if isinstance(n, FuncT + (ast.ClassDef,)):
                q = prefix + [n.name]
                if isinstance(n, FuncT):
                    out[n] = ".".join(q)
                rec(n, q)
            else:
                rec(n, prefix)
    rec(tree, [])
    return out


def _pure_ref(v):
    if isinstance(v, ast.Constant):
        return True
    if isinstance(v, ast.Name):
        return True
    if isinstance(v, ast.Attribute):
        if isinstance(v.value, ast.Call) and isinstance(v.value.func, ast.Name) and v.value.func.id == "super" and not v.value.args:
            return True    # bound method of the parent class: helper and caller are methods of one class
        return _pure_ref(v.value) and not isinstance(v.value, ast.Constant)
    return False


def _body_wo_doc(fn):
    b = list(fn.body)
    if b and isinstance(b[0], ast.Expr) and isinstance(b[0].value, ast.Constant) and isinstance(b[0].value.value, str):
        b = b[1:]
    return b


def _tail_only(stmts):
    """every Return is in tail position of this statement list"""
    for i, s in enumerate(stmts):
        last = i == len(stmts) - 1
        if isinstance(s, ast.Return):
            if not last:
                return False
            continue
        if isinstance(s, ast.If):
            ok = _tail_only(s.body) and _tail_only(s.orelse) if last else not _has_return(s)
            if not ok:
                return False
        elif isinstance(s, (ast.With, ast.AsyncWith)):
            if not (_tail_only(s.body) if last else not _has_return(s)):
                return False
        elif isinstance(s, ast.Try):
            if last:
                if s.finalbody and _has_return_list(s.finalbody):
                    return False
                if not (_tail_only(s.body + s.orelse) and all(_tail_only(h.body) for h in s.handlers)):
                    return False
                if s.orelse and _has_return_list(s.body):
                    return False
            elif _has_return(s):
                return False
        elif _has_return(s):
            return False
    return True


def _has_return(s):
    stack = [s]
    while stack:
        n = stack.pop()
        if isinstance(n, ast.Return):
            return True
        if isinstance(n, FuncT + (ast.Lambda, ast.ClassDef)) and n is not s:
            continue
        stack.extend(ast.iter_child_nodes(n))
    return False


def _has_return_list(stmts):
    return any(_has_return(s) for s in stmts)


def _terminates(stmts):
    if not stmts:
        return False
    last = stmts[-1]
    if isinstance(last, (ast.Return, ast.Raise)):
        return True
    if isinstance(last, ast.If):
        return _terminates(last.body) and _terminates(last.orelse)
    return False


def _guard_normal_form(stmts):
    """`if c: ...; return x` followed by more statements == `if c: ...; return x` / `else: <the rest>` (returns become tail returns)"""
    out = []
    for i, s in enumerate(stmts):
        if isinstance(s, ast.If):
            s.body = _guard_normal_form(s.body)
            s.orelse = _guard_normal_form(s.orelse)
            rest = stmts[i + 1:]
            if rest and _terminates(s.body) and not s.orelse:
                s.orelse = _guard_normal_form(rest)
                out.append(s)
                return out
            if rest and s.orelse and _terminates(s.orelse) and not _terminates(s.body):
                s.body = s.body + _guard_normal_form(copy.deepcopy(rest))
                out.append(s)
                return out
        if isinstance(s, ast.Try) and not s.finalbody and s.handlers and all(_terminates(h.body) for h in s.handlers) and stmts[i + 1:]:
            # handlers all leave: what follows the try runs only after its body (and else) completed - it is the try's else clause
            s.body = _guard_normal_form(s.body)
            s.orelse = _guard_normal_form(list(s.orelse) + stmts[i + 1:])
            for h in s.handlers:
                h.body = _guard_normal_form(h.body)
            out.append(s)
            return out
        out.append(s)
    return out


def _fold_alias_prefix(stmts):
    """[`a = <pure ref>`]* + `return <expr>`  ->  [`return <expr with the aliases substituted>`]"""
    if len(stmts) < 2 or not isinstance(stmts[-1], ast.Return) or stmts[-1].value is None:
        return stmts
    mapping = {}
    for st in stmts[:-1]:
        if not (isinstance(st, ast.Assign) and len(st.targets) == 1 and isinstance(st.targets[0], ast.Name) and _pure_ref(st.value) and st.targets[0].id not in mapping):
            return stmts
        mapping[st.targets[0].id] = _Renamer(mapping).visit(copy.deepcopy(st.value))
    stored_later = {n.id for n in ast.walk(stmts[-1]) if isinstance(n, ast.Name) and not isinstance(n.ctx, ast.Load)}
    if stored_later & set(mapping):
        return stmts
    return [ast.copy_location(ast.Return(value=_Renamer(mapping).visit(copy.deepcopy(stmts[-1].value))), stmts[-1])]


def _helper_body(fn):
    return _fold_alias_prefix(_guard_normal_form(copy.deepcopy(_body_wo_doc(fn))))


def _PARENT_OF(fn):
    out = {}
    for n in ast.walk(fn):
        for ch in ast.iter_child_nodes(n):
            out[ch] = n
    return out


def _classify(fn):
    a = fn.args
    if a.kwarg or a.posonlyargs:
        return None
    if a.vararg and any(isinstance(n, ast.Name) and n.id == a.vararg.arg and not isinstance(p_, ast.Starred) for n in ast.walk(fn) for p_ in [_PARENT_OF(fn).get(n)]):
        return None   # *args used other than as `*args` in a call
    for d in fn.decorator_list:
        if not (isinstance(d, ast.Name) and d.id in ("staticmethod", "classmethod")):
            return None
    for n in ast.walk(fn):
        if isinstance(n, (ast.Yield, ast.YieldFrom, ast.Global, ast.Nonlocal)):
            return None
        if isinstance(n, ast.Call) and ((isinstance(n.func, ast.Attribute) and n.func.attr == fn.name) or (isinstance(n.func, ast.Name) and n.func.id == fn.name)):
            return None   # (possibly) recursive
    body = _fold_alias_prefix(_guard_normal_form(copy.deepcopy(_body_wo_doc(fn))))
    if len(body) > 40 or not body:
        return None
    if len(body) == 1 and isinstance(body[0], ast.Return) and body[0].value is not None:
        return "expr"
    if _tail_only(body):
        return "tail"
    return None


class _Renamer(ast.NodeTransformer):
    def __init__(self, mapping):
        self.mapping = mapping   # name -> AST expr (Load) or new name (str)

    def visit_Name(self, node):
        m = self.mapping.get(node.id)
        if m is None:
            return node
        if isinstance(m, str):
            return ast.copy_location(ast.Name(id=m, ctx=node.ctx), node)
        if isinstance(node.ctx, ast.Load):
            return ast.copy_location(copy.deepcopy(m), node)
        return node

    def visit_arg(self, node):
        return node


def _bind(helper, call, kind, is_method, caller_names, counter):
    """-> (prelude assignments, substitution mapping) or None"""
    params = [x.arg for x in helper.args.args]
    defaults = list(helper.args.defaults)
    dmap = dict(zip(params[len(params) - len(defaults):], defaults))
    kwonly = [x.arg for x in helper.args.kwonlyargs]
    for x, d in zip(helper.args.kwonlyargs, helper.args.kw_defaults):
        if d is not None:
            dmap[x.arg] = d
    bound = {}
    pos = list(call.args)
    if any(isinstance(x, ast.Starred) for x in pos) or any(k.arg is None for k in call.keywords):
        return None
    plist = list(params)
    if is_method == "instance" or is_method == "class":
        if not plist:
            return None
        recv = call.func.value
        bound[plist[0]] = recv
        plist = plist[1:]
    extras = None
    if len(pos) > len(plist):
        if helper.args.vararg is None:
            return None
        extras = pos[len(plist):]
    elif helper.args.vararg is not None:
        extras = []
    for p_, a_ in zip(plist, pos):
        bound[p_] = a_
    for k in call.keywords:
        if k.arg in bound or k.arg not in params + kwonly:
            return None
        bound[k.arg] = k.value
    for p_ in params + kwonly:
        if p_ not in bound:
            if p_ in dmap:
                bound[p_] = dmap[p_]
            else:
                return None
    stored = {n.id for n in ast.walk(helper) if isinstance(n, ast.Name) and isinstance(n.ctx, (ast.Store, ast.Del))}
    prelude, mapping = [], {}
    loads = {}
    for n in ast.walk(helper):
        if isinstance(n, ast.Name) and isinstance(n.ctx, ast.Load):
            loads[n.id] = loads.get(n.id, 0) + 1
    in_loop = {n.id for l in ast.walk(helper) if isinstance(l, (ast.For, ast.AsyncFor, ast.While, ast.Lambda) + FuncT) and l is not helper
               for n in ast.walk(l) if isinstance(n, ast.Name)}
    for p_, a_ in bound.items():
        if _pure_ref(a_) and p_ not in stored:
            mapping[p_] = a_
        elif p_ not in stored and loads.get(p_, 0) == 1 and p_ not in in_loop and not any(isinstance(x, (ast.Await, ast.Yield, ast.NamedExpr)) for x in ast.walk(a_)):
            mapping[p_] = a_    # evaluated once, at its single use
        else:
            new = p_ if p_ not in caller_names else f"{p_}__{helper.name.strip('_')}{counter}"
            prelude.append(ast.Assign(targets=[ast.Name(id=new, ctx=ast.Store())], value=copy.deepcopy(a_), lineno=getattr(call, "lineno", 1)))
            if new != p_:
                mapping[p_] = new
    for name in stored:
        if name in bound:
            continue
        if name in caller_names:
            mapping[name] = f"{name}__{helper.name.strip('_')}{counter}"
    if extras is not None:
        if not all(_pure_ref(x) for x in extras):
            return None
        mapping[helper.args.vararg.arg] = ast.Tuple(elts=[copy.deepcopy(x) for x in extras], ctx=ast.Load())
    return prelude, mapping


def _rewrite_returns(stmts, mode, target):
    """mode: 'expr' (drop value, keep side effects), 'assign' (target = value), 'return' (keep)"""
    out = []
    for s in stmts:
        if isinstance(s, ast.Return):
            if mode == "return":
                out.append(s)
            elif mode == "assign" and isinstance(target, tuple):
                v = s.value if s.value is not None else ast.Constant(None)
                out.append(ast.copy_location(ast.AugAssign(target=copy.deepcopy(target[1]), op=target[2], value=v), s))
            elif mode == "assign":
                v = s.value if s.value is not None else ast.Constant(None)
                if isinstance(target, ast.Tuple) and isinstance(v, ast.Tuple) and len(v.elts) == len(target.elts) and all(isinstance(t, ast.Name) for t in target.elts) \
                        and not any(isinstance(x, ast.Starred) for x in v.elts) \
                        and not ({t.id for t in target.elts} & {x.id for e in v.elts for x in ast.walk(e) if isinstance(x, ast.Name)}):
                    for t, e in zip(target.elts, v.elts):
                        out.append(ast.copy_location(ast.Assign(targets=[copy.deepcopy(t)], value=e, lineno=s.lineno), s))
                else:
                    out.append(ast.copy_location(ast.Assign(targets=[copy.deepcopy(target)], value=v, lineno=s.lineno), s))
            else:
                if s.value is not None and any(isinstance(x, (ast.Call, ast.Await)) for x in ast.walk(s.value)):
                    out.append(ast.copy_location(ast.Expr(value=s.value), s))
                elif not out and len(stmts) == 1:
                    out.append(ast.copy_location(ast.Pass(), s))
            continue
        if isinstance(s, ast.If):
            s.body = _rewrite_returns(s.body, mode, target) or [ast.copy_location(ast.Pass(), s)]
            s.orelse = _rewrite_returns(s.orelse, mode, target)
        elif isinstance(s, (ast.With, ast.AsyncWith)):
            s.body = _rewrite_returns(s.body, mode, target) or [ast.copy_location(ast.Pass(), s)]
        elif isinstance(s, ast.Try):
            s.body = _rewrite_returns(s.body, mode, target) or [ast.copy_location(ast.Pass(), s)]
            s.orelse = _rewrite_returns(s.orelse, mode, target)
            for h in s.handlers:
                h.body = _rewrite_returns(h.body, mode, target) or [ast.copy_location(ast.Pass(), s)]
        out.append(s)
    return out


def _own_scope(fn):
    """fn and the nodes of its own scope (nested functions, lambdas and classes are not entered)"""
    yield fn
    stack = list(ast.iter_child_nodes(fn))
    while stack:
        n = stack.pop()
        if isinstance(n, FuncT + (ast.Lambda, ast.ClassDef)):
            continue
        yield n
        stack.extend(ast.iter_child_nodes(n))


def _names_bound(fn):
    out = {x.arg for x in fn.args.args + fn.args.kwonlyargs}
    for n in _own_scope(fn):
        if isinstance(n, ast.Name) and isinstance(n.ctx, (ast.Store, ast.Del)):
            out.add(n.id)
    return out


class _SpliceStar(ast.NodeTransformer):
    """f(*(a, b)) -> f(a, b)"""

    def visit_Call(self, node):
        self.generic_visit(node)
        args = []
        for a in node.args:
            if isinstance(a, ast.Starred) and isinstance(a.value, ast.Tuple):
                args.extend(a.value.elts)
            else:
                args.append(a)
        node.args = args
        return node


class _Fold(ast.NodeTransformer):
    """'MLSD' + ' ' -> 'MLSD ' (literal arguments substituted into a helper's string building)"""

    def visit_BinOp(self, node):
        self.generic_visit(node)
        if isinstance(node.op, ast.Add) and isinstance(node.left, ast.Constant) and isinstance(node.right, ast.Constant) \
                and isinstance(node.left.value, str) and isinstance(node.right.value, str):
            return ast.copy_location(ast.Constant(node.left.value + node.right.value), node)
        if isinstance(node.op, ast.Add) and isinstance(node.left, ast.BinOp) and isinstance(node.left.op, ast.Add) and isinstance(node.left.right, ast.Constant) \
                and isinstance(node.right, ast.Constant) and isinstance(node.left.right.value, str) and isinstance(node.right.value, str):
            return ast.copy_location(ast.BinOp(left=node.left.left, op=ast.Add(), right=ast.Constant(node.left.right.value + node.right.value)), node)
        return node


def _ctx_kind(fn):
    """a NEW helper decorated with (async)contextmanager: exactly one `yield` statement, not inside a loop or a nested function"""
    names = [(d.attr if isinstance(d, ast.Attribute) else getattr(d, "id", None)) for d in fn.decorator_list]
    if not any(n in ("asynccontextmanager", "contextmanager") for n in names):
        return False
    if any(n not in ("asynccontextmanager", "contextmanager", "staticmethod") for n in names):
        return False
    a = fn.args
    if a.kwarg or a.posonlyargs or a.vararg:
        return False
    ys = [n for n in ast.walk(fn) if isinstance(n, (ast.Yield, ast.YieldFrom))]
    if len(ys) != 1 or isinstance(ys[0], ast.YieldFrom):
        return False
    par = _PARENT_OF(fn)
    st = par.get(ys[0])
    if not isinstance(st, ast.Expr):
        return False
    q = st
    while q is not fn:
        q = par.get(q)
        if q is None or isinstance(q, (ast.For, ast.AsyncFor, ast.While, ast.Lambda)) or (isinstance(q, FuncT) and q is not fn):
            return False
    if any(isinstance(n, (ast.Return, ast.Global, ast.Nonlocal)) for n in ast.walk(fn)):
        return False
    return True


def _decompose_decorator(expr, param):
    """`A(x)(B(f))` -> [A(x), B] (outermost first); None if expr is not a pure composition applied to `param`"""
    if isinstance(expr, ast.Name) and expr.id == param:
        return []
    if isinstance(expr, ast.Call) and len(expr.args) == 1 and not expr.keywords:
        inner = _decompose_decorator(expr.args[0], param)
        if inner is not None and not any(isinstance(n, ast.Name) and n.id == param for n in ast.walk(expr.func)):
            return [expr.func] + inner
    return None


def inline_new_helpers(trees):
    """in place over {module: tree}; returns the list of helper qualnames that were inlined"""
    inlined = []
    all_names = {}
    for tree in trees.values():
        for n in ast.walk(tree):
            if isinstance(n, FuncT):
                all_names[n.name] = all_names.get(n.name, 0) + 1
    qn_all, parent, cands, ctx_cands, deco_cands = {}, {}, {}, {}, {}
    mod_of = {}
    for mod, tree in trees.items():
        qn = _qualnames(tree, mod)
        qn_all[mod] = qn
        for node in ast.walk(tree):
            for ch in ast.iter_child_nodes(node):
                parent[ch] = node
        for fn, q in qn.items():
            mod_of[fn] = mod
            if f"{mod}:{q}" in KNOWN:
                continue
            if q.split(".")[-1].startswith("__") and q.split(".")[-1].endswith("__"):
                continue
            owner = parent.get(fn)
            if isinstance(owner, ast.ClassDef):
                decos = {d.id for d in fn.decorator_list if isinstance(d, ast.Name)}
                how, cls = ("static" if "staticmethod" in decos else "class" if "classmethod" in decos else "instance"), owner.name
            elif isinstance(owner, ast.Module):
                how, cls = "function", None
            elif isinstance(owner, FuncT):
                how, cls = "nested", None
            else:
                continue
            if _ctx_kind(fn):
                ctx_cands[fn] = ("ctx", how, cls, q)
                continue
            kind = _classify(fn)
            if kind is None:
                continue
            cands[fn] = (kind, how, cls, q)
            # a decorator that is a pure composition of other decorators
            params = [a.arg for a in fn.args.args]
            if kind == "expr" and how in ("function", "nested", "static") and len(params) == 1:
                dec = _decompose_decorator(_helper_body(fn)[0].value, params[0])
                if dec:
                    deco_cands[fn] = dec
    if not cands and not ctx_cands:
        return []
    by_name = {}
    for table in (cands, ctx_cands):
        for fn, info in table.items():
            by_name.setdefault(fn.name, []).append((fn, info))
    counter = [0]

    def match(call, caller, want_ctx=False):
        f = call.func
        if isinstance(f, ast.Attribute) and _pure_ref(f.value) and not isinstance(f.value, ast.Constant) and f.attr in by_name:
            for fn, (kind, how, cls, q) in by_name[f.attr]:
                if how not in ("instance", "static", "class") or fn is caller or (kind == "ctx") != want_ctx:
                    continue
                recv = f.value.id if isinstance(f.value, ast.Name) else None
                same_class = recv in ("self", "cls") and _enclosing_class_name(parent, caller) == cls
                if same_class or recv == cls or (all_names.get(f.attr, 0) == 1 and how == "instance"):
                    # instance helper called through the class name needs an explicit self: skip that form
                    if how == "instance" and recv == cls:
                        continue
                    return fn, kind, ("instance" if how == "instance" else None if how == "static" else "class")
        if isinstance(f, ast.Name) and f.id in by_name:
            for fn, (kind, how, cls, q) in by_name[f.id]:
                if how in ("function", "nested") and fn is not caller and (kind == "ctx") == want_ctx:
                    if how == "function" and mod_of.get(fn) != mod_of.get(caller) and all_names.get(f.id, 0) != 1:
                        continue
                    return fn, kind, None
        return None

    def is_async(fn):
        return isinstance(fn, ast.AsyncFunctionDef)

    def info_of(fn):
        return cands.get(fn) or ctx_cands.get(fn)

    class ExprInliner(ast.NodeTransformer):
        def __init__(self, caller):
            self.caller = caller
            self.names = _names_bound(caller)

        def visit_FunctionDef(self, node):
            return node if node is not self.caller and (node in cands or node in ctx_cands) else self.generic_visit(node)
        visit_AsyncFunctionDef = visit_FunctionDef

        def _try(self, call, awaited):
            m = match(call, self.caller)
            if m is None:
                return None
            fn, kind, how = m
            if kind != "expr" or is_async(fn) != awaited:
                return None
            counter[0] += 1
            b = _bind(fn, call, kind, how, self.names, counter[0])
            if b is None or b[0]:
                return None
            expr = _helper_body(fn)[0].value
            expr = _SpliceStar().visit(_Fold().visit(_Renamer(b[1]).visit(expr)))
            inlined.append(info_of(fn)[3])
            return ast.copy_location(expr, call)

        def visit_Await(self, node):
            if isinstance(node.value, ast.Call):
                r = self._try(node.value, True)
                if r is not None:
                    return self.generic_visit(r) if not isinstance(r, ast.Name) else r
            return self.generic_visit(node)

        def visit_Call(self, node):
            r = self._try(node, False)
            if r is not None:
                return self.generic_visit(r) if not isinstance(r, ast.Name) else r
            return self.generic_visit(node)

    def hoist(s, caller, names):
        """`f(a, h(x))` / `await f(h(x))` with h a multi-statement helper and everything evaluated before it a pure reference:
        -> `tmp = h(x)` + the statement using tmp. Returns the new leading statement or None."""
        holder, fld = None, None
        if isinstance(s, (ast.Expr, ast.Return)) or (isinstance(s, (ast.Assign, ast.AugAssign))):
            val = s.value
        else:
            return None
        if isinstance(val, ast.Await):
            val = val.value
        if not isinstance(val, ast.Call) or not (_pure_ref(val.func) or (isinstance(val.func, ast.Attribute) and _pure_ref(val.func.value))):
            return None
        for k, a in enumerate(val.args):
            inner = a.value if isinstance(a, ast.Await) else a
            if isinstance(a, ast.Starred):
                return None
            if isinstance(inner, ast.Call):
                m = match(inner, caller)
                if m is not None and m[1] == "tail" and is_async(m[0]) == isinstance(a, ast.Await):
                    if all(_pure_ref(x) for x in val.args[:k]):
                        counter[0] += 1
                        tmp = f"{m[0].name.strip('_')}__value{counter[0]}"
                        val.args[k] = ast.copy_location(ast.Name(id=tmp, ctx=ast.Load()), a)
                        return ast.copy_location(ast.Assign(targets=[ast.Name(id=tmp, ctx=ast.Store())], value=a, lineno=s.lineno), s)
                return None
            if not _pure_ref(a):
                return None
        return None

    def splice_with(s, caller, names):
        """`async with self._h(a) as t, other: BODY` with _h a NEW (async)contextmanager helper -> the helper's statements with its `yield v`
        replaced by `t = v` + (`async with other: BODY` | BODY). Returns the replacement statements or None."""
        for k, it in enumerate(s.items):
            call = it.context_expr
            alias_def = None
            if isinstance(call, ast.Name):
                # `cm = self._h(...)` ... `async with cm as x:` - the context manager object bound to a local used only here
                defs = [n for n in _own_scope(caller) if isinstance(n, ast.Assign) and len(n.targets) == 1 and isinstance(n.targets[0], ast.Name) and n.targets[0].id == call.id]
                uses = [n for n in _own_scope(caller) if isinstance(n, ast.Name) and n.id == call.id and isinstance(n.ctx, ast.Load)]
                if len(defs) == 1 and len(uses) == 1 and isinstance(defs[0].value, ast.Call):
                    alias_def, call = defs[0], defs[0].value
            if not isinstance(call, ast.Call):
                continue
            m = match(call, caller, want_ctx=True)
            if m is None:
                continue
            fn, kind, how = m
            if is_async(fn) != isinstance(s, ast.AsyncWith):
                continue
            counter[0] += 1
            b = _bind(fn, call, "tail", how, names, counter[0])
            if b is None:
                continue
            prelude, mapping = b
            body = [_SpliceStar().visit(_Fold().visit(_Renamer(mapping).visit(x))) for x in copy.deepcopy(_body_wo_doc(fn))]
            inner_body = list(s.body)
            if s.items[k + 1:]:
                inner_body = [ast.copy_location(type(s)(items=s.items[k + 1:], body=inner_body), s)]
            done = [False]

            def put(stmts):
                out = []
                for st in stmts:
                    if isinstance(st, ast.Expr) and isinstance(st.value, ast.Yield):
                        if it.optional_vars is not None:
                            v = st.value.value if st.value.value is not None else ast.Constant(None)
                            tgt = copy.deepcopy(it.optional_vars)
                            if isinstance(tgt, ast.Tuple) and isinstance(v, ast.Tuple) and len(tgt.elts) == len(v.elts):
                                for t_, e_ in zip(tgt.elts, v.elts):
                                    out.append(ast.copy_location(ast.Assign(targets=[t_], value=e_, lineno=s.lineno), s))
                            else:
                                out.append(ast.copy_location(ast.Assign(targets=[tgt], value=v, lineno=s.lineno), s))
                        out.extend(inner_body)
                        done[0] = True
                        continue
                    for fld in ("body", "orelse", "finalbody"):
                        b_ = getattr(st, fld, None)
                        if isinstance(b_, list) and b_ and isinstance(b_[0], ast.stmt):
                            setattr(st, fld, put(b_))
                    if isinstance(st, ast.Try):
                        for h in st.handlers:
                            h.body = put(h.body)
                    out.append(st)
                return out
            new_body = put(body)
            if not done[0]:
                continue
            new = prelude + new_body
            if k > 0:
                new = [ast.copy_location(type(s)(items=s.items[:k], body=new), s)]
            inlined.append(info_of(fn)[3])
            if alias_def is not None:
                alias_def.value = ast.copy_location(ast.Constant(None), alias_def.value)   # the binding is no longer used
            return new
        return None

    def splice_blocks(caller):
        changed = False
        names = _names_bound(caller)
        for node in list(_own_scope(caller)):
            blocks = [getattr(node, fld, None) for fld in ("body", "orelse", "finalbody")]
            if isinstance(node, ast.Try):
                blocks += [h.body for h in node.handlers]
            for blk in blocks:
                if not isinstance(blk, list) or not blk or not isinstance(blk[0], ast.stmt):
                    continue
                i = 0
                while i < len(blk):
                    s = blk[i]
                    if isinstance(s, (ast.With, ast.AsyncWith)) and ctx_cands:
                        new = splice_with(s, caller, names)
                        if new is not None:
                            blk[i:i + 1] = new
                            names |= {n.id for x in new for n in ast.walk(x) if isinstance(n, ast.Name) and isinstance(n.ctx, ast.Store)}
                            changed = True
                            return True   # block structure changed: rescan this caller
                    val, mode, target = None, None, None
                    if isinstance(s, ast.Expr):
                        val, mode = s.value, "expr"
                    elif isinstance(s, ast.Assign) and len(s.targets) == 1:
                        val, mode, target = s.value, "assign", s.targets[0]
                    elif isinstance(s, ast.AugAssign):
                        val, mode, target = s.value, "assign", ("aug", s.target, s.op)
                    elif isinstance(s, ast.Return) and s.value is not None:
                        val, mode = s.value, "return"
                    awaited = isinstance(val, ast.Await)
                    call = val.value if awaited else val
                    m = match(call, caller) if isinstance(call, ast.Call) else None
                    if m is None and val is not None:
                        lead = hoist(s, caller, names)
                        if lead is not None:
                            blk.insert(i, lead)
                            names.add(lead.targets[0].id)
                            changed = True
                            continue   # the new leading statement is processed next
                    if m is not None:
                        fn, kind, how = m
                        if is_async(fn) == awaited:
                            counter[0] += 1
                            b = _bind(fn, call, kind, how, names, counter[0])
                            if b is not None:
                                prelude, mapping = b
                                body = [_SpliceStar().visit(_Fold().visit(_Renamer(mapping).visit(x))) for x in _helper_body(fn)]
                                body = _rewrite_returns(body, mode, target)
                                if mode == "assign" and not isinstance(target, tuple) and not _all_paths_assign(body, target):
                                    body = [ast.copy_location(ast.Assign(targets=[copy.deepcopy(target)], value=ast.Constant(None), lineno=s.lineno), s)] + body
                                new = prelude + (body or [ast.copy_location(ast.Pass(), s)])
                                blk[i:i + 1] = new
                                names |= {n.id for x in new for n in ast.walk(x) if isinstance(n, ast.Name) and isinstance(n.ctx, ast.Store)}
                                inlined.append(info_of(fn)[3])
                                changed = True
                                i += len(new)
                                continue
                    i += 1
        return changed

    callers = [fn for qn in qn_all.values() for fn in qn]
    for _round in range(4):
        any_change = False
        for caller in callers:
            before = len(inlined)
            ExprInliner(caller).visit(caller)
            for _k in range(6):
                if not splice_blocks(caller):
                    break
                any_change = True
            if len(inlined) != before:
                any_change = True
        if not any_change:
            break
    # decorators that are pure compositions of other decorators: expanded at their use sites
    for fn, dec in deco_cands.items():
        for tree in trees.values():
            for g in ast.walk(tree):
                if isinstance(g, FuncT) and g is not fn:
                    new_list, hit = [], False
                    for d in g.decorator_list:
                        if (isinstance(d, ast.Name) and d.id == fn.name) or (isinstance(d, ast.Attribute) and d.attr == fn.name and isinstance(d.value, ast.Name) and d.value.id in ("self", "cls")):
                            new_list += [copy.deepcopy(x) for x in dec]
                            hit = True
                        else:
                            new_list.append(d)
                    if hit:
                        g.decorator_list = new_list
                        inlined.append(cands[fn][3])
    # remove helpers without remaining references
    for table in (cands, ctx_cands):
        for fn, (kind, how, cls, q) in list(table.items()):
            if q not in inlined:
                continue
            refs = 0
            for tree in trees.values():
                for n in ast.walk(tree):
                    if isinstance(n, ast.Attribute) and n.attr == fn.name:
                        refs += 1
                    elif isinstance(n, ast.Name) and n.id == fn.name and isinstance(n.ctx, ast.Load):
                        refs += 1
            if refs == 0:
                owner = parent.get(fn)
                if owner is not None and fn in getattr(owner, "body", []):
                    owner.body.remove(fn)
                    if not owner.body:
                        owner.body.append(ast.Pass())
    for tree in trees.values():
        ast.fix_missing_locations(tree)
    return sorted(set(inlined))


def _enclosing_class_name(parent, fn):
    q = parent.get(fn)
    while q is not None and not isinstance(q, ast.ClassDef):
        q = parent.get(q)
    return q.name if q is not None else None


def _all_paths_assign(stmts, target):
    if not stmts:
        return False
    last = stmts[-1]
    if isinstance(target, ast.Tuple) and len(stmts) >= len(target.elts):
        tail = stmts[-len(target.elts):]
        if all(isinstance(a, ast.Assign) and ast.dump(a.targets[0]) == ast.dump(t) for a, t in zip(tail, target.elts)):
            return True   # `a, b = x, y` was split into `a = x; b = y`
    if isinstance(last, ast.Assign) and ast.dump(last.targets[0]) == ast.dump(target):
        return True
    if isinstance(last, ast.If):
        return _all_paths_assign(last.body, target) and _all_paths_assign(last.orelse, target)
    if isinstance(last, (ast.With, ast.AsyncWith)):
        return _all_paths_assign(last.body, target)
    if isinstance(last, ast.Try):
        return _all_paths_assign(last.body + last.orelse, target) and all(_all_paths_assign(h.body, target) for h in last.handlers)
    return False


def localise_single_use_methods(trees):
    """a NEW method that could not be inlined (decorated, or used as a value / through functools.partial) and that is referenced
    from exactly one other method of its class is moved into that method as a nested function - the reverse of "move the nested
    worker / callback out to a private method". `self.m(a)` becomes `m(self, a)`, a static `self.m` value becomes `m`.
    -> list of moved qualnames"""
    moved = []
    for mod, tree in trees.items():
        qn = _qualnames(tree, mod)
        for cls in [n for n in tree.body if isinstance(n, ast.ClassDef)]:   # top-level classes only
            methods = [n for n in cls.body if isinstance(n, FuncT)]
            for m in list(methods):
                q = f"{mod}:{qn.get(m, cls.name + '.' + m.name)}"
                if q in KNOWN or (m.name.startswith("__") and m.name.endswith("__")):
                    continue
                decos = [d.id for d in m.decorator_list if isinstance(d, ast.Name)]
                if "classmethod" in decos or "property" in decos:
                    continue
                static = "staticmethod" in decos
                refs = []   # (host function, attribute node)
                elsewhere = False
                for host in methods:
                    if host is m:
                        if any(isinstance(x, ast.Attribute) and x.attr == m.name for x in ast.walk(host)):
                            elsewhere = True   # recursive
                        continue
                    for x in ast.walk(host):
                        if isinstance(x, ast.Attribute) and x.attr == m.name:
                            if isinstance(x.value, ast.Name) and x.value.id in ("self", "cls", cls.name):
                                refs.append((host, x))
                            else:
                                elsewhere = True
                for t in trees.values():
                    for x in ast.walk(t):
                        if isinstance(x, ast.Attribute) and x.attr == m.name and not any(x is r for _, r in refs):
                            inside_m = any(x is y for y in ast.walk(m))
                            if not inside_m:
                                elsewhere = True
                hosts = {id(h): h for h, _ in refs}
                if elsewhere or len(hosts) != 1:
                    continue
                host = next(iter(hosts.values()))
                if any(isinstance(n, ast.Name) and n.id == m.name for n in ast.walk(host)):
                    continue   # the name is taken inside the host
                recv_is_self = all(r.value.id in ("self", "cls") for _, r in refs)
                if not static and not recv_is_self:
                    continue
                # rewrite the references
                parent = {}
                for n in ast.walk(host):
                    for ch in ast.iter_child_nodes(n):
                        parent[ch] = n
                ok = True
                for _, r in refs:
                    par = parent.get(r)
                    if static:
                        continue
                    if not (isinstance(par, ast.Call) and par.func is r):
                        ok = False   # bound-method value of an instance method: leave the whole thing alone
                if not ok:
                    continue
                for _, r in refs:
                    par = parent.get(r)
                    new = ast.copy_location(ast.Name(id=m.name, ctx=ast.Load()), r)
                    if not static:
                        par.args.insert(0, ast.copy_location(ast.Name(id=r.value.id, ctx=ast.Load()), r))
                    for fld, val in ast.iter_fields(par):
                        if val is r:
                            setattr(par, fld, new)
                        elif isinstance(val, list):
                            for i_, v_ in enumerate(val):
                                if v_ is r:
                                    val[i_] = new
                m.decorator_list = [d for d in m.decorator_list if not (isinstance(d, ast.Name) and d.id == "staticmethod")]
                cls.body.remove(m)
                methods.remove(m)
                pos = 1 if host.body and isinstance(host.body[0], ast.Expr) and isinstance(host.body[0].value, ast.Constant) and isinstance(host.body[0].value.value, str) else 0
                host.body.insert(pos, m)
                moved.append(f"{cls.name}.{m.name}")
        ast.fix_missing_locations(tree)
    return moved


def _literal(v, top=True):
    """an IMMUTABLE literal: propagating a shared list/dict/set to its use sites would hide that it is one shared object"""
    if isinstance(v, ast.Constant):
        return True
    if isinstance(v, ast.Tuple):
        return all(_literal(x, False) for x in v.elts)
    if isinstance(v, ast.Call) and isinstance(v.func, ast.Name) and v.func.id in ("frozenset", "tuple") and len(v.args) == 1 and not v.keywords \
            and isinstance(v.args[0], (ast.Tuple, ast.List, ast.Set)):
        return all(_literal(x, False) for x in v.args[0].elts)
    return False


def propagate_new_constants(trees):
    """a NEW class-level or module-level name bound once to a literal (constant, or tuple/list/set of constants) and never stored
    anywhere else is replaced by the literal where it is read (`self.NAME`, `cls.NAME`, `Class.NAME`, bare module `NAME`) - the reverse
    of "move the constant tuple out of the function". -> list of propagated names"""
    done = []
    for mod, tree in trees.items():
        # module level
        cands = {}
        for n in tree.body:
            if isinstance(n, ast.Assign) and len(n.targets) == 1 and isinstance(n.targets[0], ast.Name) and _literal(n.value) and f"{mod}:{n.targets[0].id}" not in KNOWN_CONSTANTS:
                cands[n.targets[0].id] = n
        for name, node in cands.items():
            stores = [x for x in ast.walk(tree) if isinstance(x, ast.Name) and x.id == name and not isinstance(x.ctx, ast.Load)]
            shadow = any(isinstance(f, FuncT) and name in {a.arg for a in f.args.args + f.args.kwonlyargs} for f in ast.walk(tree))
            if len(stores) != 1 or shadow or name.startswith("__"):
                continue

            class T(ast.NodeTransformer):
                def visit_Name(self, x):
                    if x.id == name and isinstance(x.ctx, ast.Load):
                        return ast.copy_location(copy.deepcopy(node.value), x)
                    return x
            T().visit(tree)
            done.append(f"{mod}:{name}")
        # class level
        for cls in [c for c in tree.body if isinstance(c, ast.ClassDef)]:   # top-level classes only (the inventory lists those)
            for st in list(cls.body):
                if not (isinstance(st, ast.Assign) and len(st.targets) == 1 and isinstance(st.targets[0], ast.Name) and _literal(st.value)):
                    continue
                name = st.targets[0].id
                if f"{mod}:{cls.name}.{name}" in KNOWN_CONSTANTS or name.startswith("__"):
                    continue
                attr_stores_ = [x for t in trees.values() for x in ast.walk(t) if isinstance(x, ast.Attribute) and x.attr == name and not isinstance(x.ctx, ast.Load)]
                if attr_stores_:
                    continue

                class T2(ast.NodeTransformer):
                    def visit_Attribute(self, x):
                        self.generic_visit(x)
                        if x.attr == name and isinstance(x.ctx, ast.Load) and isinstance(x.value, ast.Name) and x.value.id in ("self", "cls", cls.name):
                            return ast.copy_location(copy.deepcopy(st.value), x)
                        return x
                for t in trees.values():
                    T2().visit(t)
                done.append(f"{mod}:{cls.name}.{name}")
        ast.fix_missing_locations(tree)
    return done
