"""AST normalisation applied when the program model is built: pure local aliases are propagated.

A local name that (a) is assigned exactly once in its function by a plain `name = <value>` statement, (b) is not a parameter,
loop/with/except target, global or nonlocal, (c) whose value is a *pure reference*: a name, a dotted attribute chain over a
name, or an immutable constant, and (d) whose value cannot have changed between the definition and any use (no store or
delete of an attribute with the same final name anywhere in the function, the base name is never rebound, and every use
comes after the definition in the same or an enclosed block) - is replaced at each use by its value.

`respond = connection.response; respond("226", ...)` becomes `connection.response("226", ...)`,
`user = connection.user; user.home_path` becomes `connection.user.home_path`, `direction = "write"; self.wait(direction)`
becomes `self.wait("write")`.  Aliases such as `stream = connection.data_connection` followed by
`del connection.data_connection` are NOT touched (condition d), so ownership rules still see the capture.
The rules therefore see one canonical form; line numbers are preserved (copy_location), nothing is executed.
"""
import ast
import copy

FuncT = (ast.FunctionDef, ast.AsyncFunctionDef)


def _pure_ref(v):
    if isinstance(v, ast.Constant):
        return isinstance(v.value, (str, int, bool, type(None), bytes, float))
    if isinstance(v, ast.Name):
        return True
    if isinstance(v, ast.Attribute):
        return _pure_ref(v.value) and not isinstance(v.value, ast.Constant)
    return False


def _base_name(v):
    while isinstance(v, ast.Attribute):
        v = v.value
    return v.id if isinstance(v, ast.Name) else None


def _own_nodes(fn):
    """nodes of fn's body, entering nested functions too (closures see the alias) but reporting the nesting depth"""
    stack = [(c, 0) for c in ast.iter_child_nodes(fn)]
    while stack:
        n, d = stack.pop()
        yield n, d
        nd = d + 1 if isinstance(n, FuncT + (ast.Lambda, ast.ClassDef)) else d
        stack.extend((c, nd) for c in ast.iter_child_nodes(n))


def _bindings(fn):
    """name -> number of binding occurrences in fn's own scope (not nested scopes), params included"""
    cnt = {}

    def bump(name):
        cnt[name] = cnt.get(name, 0) + 1
    a = fn.args
    for x in a.posonlyargs + a.args + a.kwonlyargs + ([a.vararg] if a.vararg else []) + ([a.kwarg] if a.kwarg else []):
        bump(x.arg)
        bump(x.arg)   # parameters are never aliases
    for n, depth in _own_nodes(fn):
        if depth > 0:
            if isinstance(n, (ast.Nonlocal,)):
                for name in n.names:
                    bump(name)
                    bump(name)
            continue
        if isinstance(n, ast.Name) and isinstance(n.ctx, (ast.Store, ast.Del)):
            bump(n.id)
        elif isinstance(n, (ast.Global, ast.Nonlocal)):
            for name in n.names:
                bump(name)
                bump(name)
        elif isinstance(n, ast.ExceptHandler) and n.name:
            bump(n.name)
            bump(n.name)
        elif isinstance(n, FuncT + (ast.ClassDef,)):
            bump(n.name)
            bump(n.name)
        elif isinstance(n, (ast.Import, ast.ImportFrom)):
            for al in n.names:
                bump((al.asname or al.name).split(".")[0])
                bump((al.asname or al.name).split(".")[0])
    return cnt


def _block_of(fn, stmt):
    """(list containing stmt, index) searching fn's own statements"""
    for n in ast.walk(fn):
        for fld in ("body", "orelse", "finalbody"):
            blk = getattr(n, fld, None)
            if isinstance(blk, list) and stmt in blk:
                return blk, blk.index(stmt)
        if isinstance(n, ast.Try):
            for h in n.handlers:
                if stmt in h.body:
                    return h.body, h.body.index(stmt)
    return None, None


class _Subst(ast.NodeTransformer):
    def __init__(self, name, value):
        self.name, self.value = name, value
        self.count = 0

    def visit_Name(self, node):
        if node.id == self.name and isinstance(node.ctx, ast.Load):
            self.count += 1
            return ast.copy_location(copy.deepcopy(self.value), node)
        return node

    def _scoped(self, node):
        # a nested scope that rebinds the name hides the alias
        a = getattr(node, "args", None)
        if a is not None:
            params = {x.arg for x in a.posonlyargs + a.args + a.kwonlyargs} | ({a.vararg.arg} if a.vararg else set()) | ({a.kwarg.arg} if a.kwarg else set())
            if self.name in params:
                return node
        if isinstance(node, FuncT) and any(isinstance(x, ast.Name) and x.id == self.name and isinstance(x.ctx, ast.Store) for x in ast.walk(node)):
            return node
        return self.generic_visit(node)

    visit_FunctionDef = visit_AsyncFunctionDef = visit_Lambda = _scoped


def _normalise_function(fn):
    changed = 0
    for _round in range(4):
        # cheap pre-check: is there any `name = <pure reference>` statement at all?
        if not any(isinstance(n, ast.Assign) and len(n.targets) == 1 and isinstance(n.targets[0], ast.Name) and _pure_ref(n.value)
                   for n in ast.walk(fn) if isinstance(n, ast.Assign)):
            break
        cnt = _bindings(fn)
        stored_attrs = set()
        rebound = {k for k, v in cnt.items() if v > 1}
        for n, depth in _own_nodes(fn):
            if isinstance(n, ast.Attribute) and isinstance(n.ctx, (ast.Store, ast.Del)):
                stored_attrs.add(n.attr)
            if isinstance(n, ast.Call) and isinstance(n.func, ast.Name) and n.func.id in ("setattr", "delattr") and len(n.args) >= 2 and isinstance(n.args[1], ast.Constant):
                stored_attrs.add(n.args[1].value)
        done = False
        for n, depth in list(_own_nodes(fn)):
            if depth > 0 or not isinstance(n, ast.Assign) or len(n.targets) != 1 or not isinstance(n.targets[0], ast.Name):
                continue
            name = n.targets[0].id
            v = n.value
            if cnt.get(name, 0) != 1 or not _pure_ref(v):
                continue
            base = _base_name(v)
            if base is not None and (base == name or (base in rebound and base not in ("self", "cls"))):
                # the base is assigned more than once (or is a parameter rebound): only safe if it is a parameter never stored again
                params = {x.arg for x in fn.args.posonlyargs + fn.args.args + fn.args.kwonlyargs}
                if not (base in params and cnt.get(base, 0) == 2):
                    continue
            attrs = set()
            w = v
            while isinstance(w, ast.Attribute):
                attrs.add(w.attr)
                w = w.value
            if attrs & stored_attrs:
                continue
            blk, idx = _block_of(fn, n)
            if blk is None:
                continue
            # every use must lie in statements after the definition inside the same block (or blocks nested in them)
            later = blk[idx + 1:]
            uses_later = sum(1 for s in later for x in ast.walk(s) if isinstance(x, ast.Name) and x.id == name and isinstance(x.ctx, ast.Load))
            uses_all = sum(1 for x, d in _own_nodes(fn) if isinstance(x, ast.Name) and x.id == name and isinstance(x.ctx, ast.Load))
            if uses_all == 0 or uses_later != uses_all:
                continue
            # a loop around the definition would re-evaluate it: fine for a pure reference. Substitute.
            sub = _Subst(name, v)
            for i in range(idx + 1, len(blk)):
                blk[i] = sub.visit(blk[i])
            if sub.count:
                changed += sub.count
                done = True
                break   # recompute facts after each substitution
        if not done:
            break
    return changed


class _AnnToAssign(ast.NodeTransformer):
    """`x: T = v` -> `x = v` (annotations carry no behaviour); bare `x: T` is dropped"""

    def visit_AnnAssign(self, node):
        if node.value is None:
            return ast.copy_location(ast.Pass(), node)
        return ast.copy_location(ast.Assign(targets=[node.target], value=node.value, lineno=node.lineno), node)


def normalise(tree):
    """in-place; returns the number of substituted uses"""
    _AnnToAssign().visit(tree)
    total = 0
    fns = [n for n in ast.walk(tree) if isinstance(n, FuncT)]
    for fn in fns:
        total += _normalise_function(fn)
    ast.fix_missing_locations(tree)
    return total
