"""AST normalisation applied when the program model is built: pure local aliases are propagated.

A local name that (a) is assigned exactly once in its function by a plain `name = <value>` statement, (b) is not a parameter,
loop/with/except target, global or nonlocal, (c) whose value is a *pure reference*: a name, a dotted attribute chain over a
name, or an immutable constant, and (d) whose value cannot have changed between the definition and any use (no store or
delete of an attribute with the same final name anywhere in the function, the base name is never rebound, and every use
comes after the definition in the same or an enclosed block) - is replaced at each use by its value.

`respond = connection.response; respond("226", ...)` becomes `connection.response("226", ...)`,
`user = connection.user; user.home_path` becomes `connection.user.home_path`, `direction = "write"; self.wait(direction)`
becomes `self.wait("write")`.  Aliases such as `stream = connection.data_connection` followed by
`del connection.data_connection` are NOT touched (condition d), so ownership rules still see the capture.
The rules therefore see one canonical form; line numbers are preserved (copy_location), nothing is executed.
"""
import ast
import copy

FuncT = (ast.FunctionDef, ast.AsyncFunctionDef)


def _pure_ref(v):
    if isinstance(v, ast.Constant):
        return isinstance(v.value, (str, int, bool, type(None), bytes, float))
    if isinstance(v, ast.Name):
        return True
    if isinstance(v, ast.Attribute):
        return _pure_ref(v.value) and not isinstance(v.value, ast.Constant)
    return False


def _base_name(v):
    while isinstance(v, ast.Attribute):
        v = v.value
    return v.id if isinstance(v, ast.Name) else None


def _own_nodes(fn):
    """nodes of fn's body, entering nested functions too (closures see the alias) but reporting the nesting depth"""
    stack = [(c, 0) for c in ast.iter_child_nodes(fn)]
    while stack:
        n, d = stack.pop()
        yield n, d
        nd = d + 1 if isinstance(n, FuncT + (ast.Lambda, ast.ClassDef)) else d
        stack.extend((c, nd) for c in ast.iter_child_nodes(n))


def _bindings(fn):
    """name -> number of binding occurrences in fn's own scope (not nested scopes), params included"""
    cnt = {}

    def bump(name):
        cnt[name] = cnt.get(name, 0) + 1
    a = fn.args
    for x in a.posonlyargs + a.args + a.kwonlyargs + ([a.vararg] if a.vararg else []) + ([a.kwarg] if a.kwarg else []):
        bump(x.arg)
        bump(x.arg)   # parameters are never aliases
    for n, depth in _own_nodes(fn):
        if depth > 0:
            if isinstance(n, (ast.Nonlocal,)):
                for name in n.names:
                    bump(name)
                    bump(name)
            continue
        if isinstance(n, ast.Name) and isinstance(n.ctx, (ast.Store, ast.Del)):
            bump(n.id)
        elif isinstance(n, (ast.Global, ast.Nonlocal)):
            for name in n.names:
                bump(name)
                bump(name)
        elif isinstance(n, ast.ExceptHandler) and n.name:
            bump(n.name)
            bump(n.name)
        elif isinstance(n, FuncT + (ast.ClassDef,)):
            bump(n.name)
            bump(n.name)
        elif isinstance(n, (ast.Import, ast.ImportFrom)):
            for al in n.names:
                bump((al.asname or al.name).split(".")[0])
                bump((al.asname or al.name).split(".")[0])
    return cnt


def _block_of(fn, stmt):
    """(list containing stmt, index) searching fn's own statements"""
    for n in ast.walk(fn):
        for fld in ("body", "orelse", "finalbody"):
            blk = getattr(n, fld, None)
            if isinstance(blk, list) and stmt in blk:
                return blk, blk.index(stmt)
        if isinstance(n, ast.Try):
            for h in n.handlers:
                if stmt in h.body:
                    return h.body, h.body.index(stmt)
    return None, None


class _Subst(ast.NodeTransformer):
    def __init__(self, name, value):
        self.name, self.value = name, value
        self.count = 0

    def visit_Name(self, node):
        if node.id == self.name and isinstance(node.ctx, ast.Load):
            self.count += 1
            return ast.copy_location(copy.deepcopy(self.value), node)
        return node

    def _scoped(self, node):
        # a nested scope that rebinds the name hides the alias
        a = getattr(node, "args", None)
        if a is not None:
            params = {x.arg for x in a.posonlyargs + a.args + a.kwonlyargs} | ({a.vararg.arg} if a.vararg else set()) | ({a.kwarg.arg} if a.kwarg else set())
            if self.name in params:
                return node
        if isinstance(node, FuncT) and any(isinstance(x, ast.Name) and x.id == self.name and isinstance(x.ctx, ast.Store) for x in ast.walk(node)):
            return node
        return self.generic_visit(node)

    visit_FunctionDef = visit_AsyncFunctionDef = visit_Lambda = _scoped


def _normalise_function(fn):
    changed = 0
    for _round in range(4):
        # cheap pre-check: is there any `name = <pure reference>` statement at all?
        if not any(isinstance(n, ast.Assign) and len(n.targets) == 1 and isinstance(n.targets[0], ast.Name) and _pure_ref(n.value)
                   for n in ast.walk(fn) if isinstance(n, ast.Assign)):
            break
        cnt = _bindings(fn)
        stored_attrs = set()
        rebound = {k for k, v in cnt.items() if v > 1}
        for n, depth in _own_nodes(fn):
            if isinstance(n, ast.Attribute) and isinstance(n.ctx, (ast.Store, ast.Del)):
                stored_attrs.add(n.attr)
            if isinstance(n, ast.Call) and isinstance(n.func, ast.Name) and n.func.id in ("setattr", "delattr") and len(n.args) >= 2 and isinstance(n.args[1], ast.Constant):
                stored_attrs.add(n.args[1].value)
        done = False
        for n, depth in list(_own_nodes(fn)):
            if depth > 0 or not isinstance(n, ast.Assign) or len(n.targets) != 1 or not isinstance(n.targets[0], ast.Name):
                continue
            name = n.targets[0].id
            v = n.value
            if cnt.get(name, 0) != 1 or not _pure_ref(v):
                continue
            base = _base_name(v)
            if base is not None and (base == name or (base in rebound and base not in ("self", "cls"))):
                # the base is assigned more than once (or is a parameter rebound): only safe if it is a parameter never stored again
                params = {x.arg for x in fn.args.posonlyargs + fn.args.args + fn.args.kwonlyargs}
                if not (base in params and cnt.get(base, 0) == 2):
                    continue
            attrs = set()
            w = v
            while isinstance(w, ast.Attribute):
                attrs.add(w.attr)
                w = w.value
            if attrs & stored_attrs:
                continue
            blk, idx = _block_of(fn, n)
            if blk is None:
                continue
            # every use must lie in statements after the definition inside the same block (or blocks nested in them)
            later = blk[idx + 1:]
            uses_later = sum(1 for s in later for x in ast.walk(s) if isinstance(x, ast.Name) and x.id == name and isinstance(x.ctx, ast.Load))
            uses_all = sum(1 for x, d in _own_nodes(fn) if isinstance(x, ast.Name) and x.id == name and isinstance(x.ctx, ast.Load))
            if uses_all == 0 or uses_later != uses_all:
                continue
            # a loop around the definition would re-evaluate it: fine for a pure reference. Substitute.
            sub = _Subst(name, v)
            for i in range(idx + 1, len(blk)):
                blk[i] = sub.visit(blk[i])
            if sub.count:
                changed += sub.count
                done = True
                break   # recompute facts after each substitution
        if not done:
            break
    return changed


class _AnnToAssign(ast.NodeTransformer):
    """`x: T = v` -> `x = v` (annotations carry no behaviour); bare `x: T` is dropped"""

    def visit_AnnAssign(self, node):
        if node.value is None:
            return ast.copy_location(ast.Pass(), node)
        return ast.copy_location(ast.Assign(targets=[node.target], value=node.value, lineno=node.lineno), node)


def _fn_names(fn):
    out = {x.arg for x in fn.args.posonlyargs + fn.args.args + fn.args.kwonlyargs}
    for n in ast.walk(fn):
        if isinstance(n, ast.Name):
            out.add(n.id)
    return out


_desugar_counter = [0]


def _desugar_comprehensions(fn):
    """`x = [elt for t in it if c]` -> `x = []` / `for t in it: if c: x.append(elt)` (also set comprehensions, and a generator
    expression bound to a name that is used once as the iterable of such a comprehension or of a for loop). Only when the
    comprehension variables are not used anywhere else in the function (their scope widens)."""
    changed = 0

    def names_of(t):
        return {x.id for x in ast.walk(t) if isinstance(x, ast.Name)}

    def simple_gen(g):
        return len(g.generators) == 1 and not g.generators[0].is_async

    # 1. generator aliases used once as an iterable
    for _ in range(3):
        done = False
        for blk_owner in ast.walk(fn):
            for fld in ("body", "orelse", "finalbody"):
                blk = getattr(blk_owner, fld, None)
                if not isinstance(blk, list):
                    continue
                for i, s in enumerate(blk):
                    if isinstance(s, ast.Assign) and len(s.targets) == 1 and isinstance(s.targets[0], ast.Name) and isinstance(s.value, ast.GeneratorExp) and simple_gen(s.value):
                        name = s.targets[0].id
                        uses = [x for x in ast.walk(fn) if isinstance(x, ast.Name) and x.id == name and isinstance(x.ctx, ast.Load)]
                        stores = [x for x in ast.walk(fn) if isinstance(x, ast.Name) and x.id == name and not isinstance(x.ctx, ast.Load)]
                        if len(uses) != 1 or len(stores) != 1:
                            continue
                        use = uses[0]
                        host = None
                        for later in blk[i + 1:]:
                            for x in ast.walk(later):
                                if isinstance(x, ast.comprehension) and x.iter is use:
                                    host = x
                                elif isinstance(x, (ast.For,)) and x.iter is use:
                                    host = x
                        if host is None:
                            continue
                        host.iter = s.value
                        blk[i] = ast.copy_location(ast.Pass(), s)
                        changed += 1
                        done = True
        if not done:
            break
    # 2. comprehension statements -> loops
    for blk_owner in list(ast.walk(fn)):
        for fld in ("body", "orelse", "finalbody"):
            blk = getattr(blk_owner, fld, None)
            if not isinstance(blk, list):
                continue
            i = 0
            while i < len(blk):
                s = blk[i]
                if isinstance(s, ast.Assign) and len(s.targets) == 1 and isinstance(s.targets[0], ast.Name) and isinstance(s.value, (ast.ListComp, ast.SetComp, ast.DictComp)) and simple_gen(s.value):
                    comp = s.value
                    g = comp.generators[0]
                    x = s.targets[0].id
                    tnames = names_of(g.target)
                    inner = None
                    if isinstance(g.iter, ast.GeneratorExp) and simple_gen(g.iter):
                        inner = g.iter
                        tnames |= names_of(inner.generators[0].target)
                    # the comprehension variables must not occur outside the comprehension
                    outside = 0
                    inside = {id(n) for n in ast.walk(comp)}
                    for n in ast.walk(fn):
                        if isinstance(n, ast.Name) and n.id in tnames and id(n) not in inside:
                            outside += 1
                    if x in tnames:
                        i += 1
                        continue
                    if outside:
                        # the comprehension's own variables are private to it: rename the ones that also exist outside
                        clash = {n.id for n in ast.walk(fn) if isinstance(n, ast.Name) and n.id in tnames and id(n) not in inside}
                        _desugar_counter[0] += 1

                        class _R(ast.NodeTransformer):
                            def visit_Name(self, node):
                                if node.id in clash:
                                    return ast.copy_location(ast.Name(id=f"{node.id}__c{_desugar_counter[0]}", ctx=node.ctx), node)
                                return node
                        it0 = g.iter if inner is None else inner.generators[0].iter
                        keep_iter = copy.deepcopy(it0)    # the outermost iterable is evaluated in the enclosing scope: not renamed
                        _R().visit(comp)
                        if inner is None:
                            g.iter = keep_iter
                        else:
                            inner.generators[0].iter = keep_iter
                    if isinstance(comp, ast.DictComp):
                        init = ast.Dict(keys=[], values=[])
                        add = ast.Assign(targets=[ast.Subscript(value=ast.Name(id=x, ctx=ast.Load()), slice=comp.key, ctx=ast.Store())], value=comp.value, lineno=s.lineno)
                    else:
                        init = ast.List(elts=[], ctx=ast.Load()) if isinstance(comp, ast.ListComp) else ast.Call(func=ast.Name(id="set", ctx=ast.Load()), args=[], keywords=[])
                        add = ast.Expr(value=ast.Call(func=ast.Attribute(value=ast.Name(id=x, ctx=ast.Load()), attr="append" if isinstance(comp, ast.ListComp) else "add", ctx=ast.Load()),
                                                      args=[comp.elt], keywords=[]))
                    body = [add]
                    if g.ifs:
                        test = g.ifs[0] if len(g.ifs) == 1 else ast.BoolOp(op=ast.And(), values=list(g.ifs))
                        body = [ast.If(test=test, body=body, orelse=[])]
                    if inner is not None:
                        ig = inner.generators[0]
                        tgt = copy.deepcopy(g.target)
                        for t_ in ast.walk(tgt):
                            if isinstance(t_, (ast.Name, ast.Tuple, ast.List)):
                                t_.ctx = ast.Store()
                        body = [ast.Assign(targets=[tgt], value=inner.elt, lineno=s.lineno)] + body
                        if ig.ifs:
                            test = ig.ifs[0] if len(ig.ifs) == 1 else ast.BoolOp(op=ast.And(), values=list(ig.ifs))
                            body = [ast.If(test=test, body=body, orelse=[])]
                        loop = ast.For(target=ig.target, iter=ig.iter, body=body, orelse=[], lineno=s.lineno)
                    else:
                        loop = ast.For(target=g.target, iter=g.iter, body=body, orelse=[], lineno=s.lineno)
                    for t_ in ast.walk(loop.target):
                        if isinstance(t_, ast.Name):
                            t_.ctx = ast.Store()
                    new = [ast.Assign(targets=[s.targets[0]], value=init, lineno=s.lineno), loop]
                    for n_ in new:
                        for sub in ast.walk(n_):
                            if not hasattr(sub, "lineno") and isinstance(sub, (ast.stmt, ast.expr)):
                                ast.copy_location(sub, s)
                    blk[i:i + 1] = new
                    changed += 1
                    i += 2
                    continue
                i += 1
    return changed


# ---------------------------------------------------------------- less common constructs -> the plain forms the rules read
def _blocks(node):
    for fld in ("body", "orelse", "finalbody"):
        b = getattr(node, fld, None)
        if isinstance(b, list) and b and isinstance(b[0], ast.stmt):
            yield b
    if isinstance(node, ast.Try):
        for h in node.handlers:
            yield h.body
    if hasattr(ast, "Match") and isinstance(node, ast.Match):
        for c in node.cases:
            yield c.body


def _pattern_test(pat, subj):
    """test expression equivalent to `pat` matching `subj` for literal / value / or / class-without-arguments / wildcard patterns; None otherwise"""
    if isinstance(pat, ast.MatchValue):
        return ast.Compare(left=copy.deepcopy(subj), ops=[ast.Eq()], comparators=[pat.value])
    if isinstance(pat, ast.MatchSingleton):
        return ast.Compare(left=copy.deepcopy(subj), ops=[ast.Is()], comparators=[ast.Constant(pat.value)])
    if isinstance(pat, ast.MatchOr):
        if all(isinstance(x, ast.MatchValue) and isinstance(x.value, ast.Constant) for x in pat.patterns):
            return ast.Compare(left=copy.deepcopy(subj), ops=[ast.In()], comparators=[ast.Tuple(elts=[x.value for x in pat.patterns], ctx=ast.Load())])
        parts = [_pattern_test(x, subj) for x in pat.patterns]
        return None if any(x is None for x in parts) else ast.BoolOp(op=ast.Or(), values=parts)
    if isinstance(pat, ast.MatchClass) and not pat.patterns and not pat.kwd_patterns:
        return ast.Call(func=ast.Name(id="isinstance", ctx=ast.Load()), args=[copy.deepcopy(subj), pat.cls], keywords=[])
    if isinstance(pat, ast.MatchAs) and pat.pattern is None and pat.name is None:
        return True
    return None


def _desugar_match(fn):
    """`match <name or attribute>:` with literal / value / or / `cls()` / `_` cases -> if/elif/else"""
    if not hasattr(ast, "Match"):
        return 0
    changed = 0
    for owner in list(ast.walk(fn)):
        for blk in _blocks(owner):
            for i, s in enumerate(blk):
                if not isinstance(s, ast.Match) or not _pure_ref(s.subject) or isinstance(s.subject, ast.Constant):
                    continue
                tests = []
                for c in s.cases:
                    t = _pattern_test(c.pattern, s.subject)
                    if t is None:
                        tests = None
                        break
                    if c.guard is not None:
                        t = c.guard if t is True else ast.BoolOp(op=ast.And(), values=[t, c.guard])
                    tests.append(t)
                if not tests or any(t is True for t in tests[:-1]):
                    continue
                node = None
                for c, t in reversed(list(zip(s.cases, tests))):
                    if t is True:
                        node = list(c.body)
                    else:
                        node = [ast.copy_location(ast.If(test=t, body=list(c.body), orelse=node or []), s)]
                blk[i:i + 1] = node
                changed += 1
                break
    return changed


def _unconditional_walrus(e):
    """NamedExpr nodes of e that are evaluated whenever e is (not under a short-circuit right operand, a conditional expression branch, a lambda or a
    comprehension), in evaluation order (inner first)"""
    out = []

    def rec(n):
        if isinstance(n, (ast.Lambda, ast.ListComp, ast.SetComp, ast.DictComp, ast.GeneratorExp)):
            return
        if isinstance(n, ast.BoolOp):
            rec(n.values[0])
            return
        if isinstance(n, ast.IfExp):
            rec(n.test)
            return
        for ch in ast.iter_child_nodes(n):
            rec(ch)
        if isinstance(n, ast.NamedExpr) and isinstance(n.target, ast.Name):
            out.append(n)
    rec(e)
    return out


class _DropWalrus(ast.NodeTransformer):
    def __init__(self, nodes):
        self.ids = {id(n) for n in nodes}

    def visit_NamedExpr(self, node):
        self.generic_visit(node)
        if id(node) in self.ids:
            return ast.copy_location(ast.Name(id=node.target.id, ctx=ast.Load()), node)
        return node


def _desugar_walrus(fn):
    """`if (x := e): ...` -> `x = e` / `if x: ...`; `while (x := e): B` -> `while True: x = e; if not x: break; B`; same for the value of an
    expression statement, assignment or return"""
    changed = 0
    for _ in range(8):
        done = False
        for owner in list(ast.walk(fn)):
            if isinstance(owner, FuncT) and owner is not fn:
                continue
            for blk in _blocks(owner):
                for i, s in enumerate(blk):
                    host = None
                    if isinstance(s, ast.If):
                        host = "test"
                    elif isinstance(s, ast.While) and not s.orelse:
                        host = "while"
                    elif isinstance(s, (ast.Expr, ast.Assign, ast.Return, ast.AugAssign)) and getattr(s, "value", None) is not None:
                        host = "value"
                    if host is None:
                        continue
                    expr = s.test if host in ("test", "while") else s.value
                    ws = _unconditional_walrus(expr)
                    if not ws:
                        continue
                    assigns = [ast.copy_location(ast.Assign(targets=[ast.Name(id=w.target.id, ctx=ast.Store())], value=_DropWalrus(ws).visit(copy.deepcopy(w.value)) if False else w.value, lineno=s.lineno), s)
                               for w in ws]
                    # inner walruses inside an outer walrus value are replaced by their names there too
                    for a in assigns:
                        a.value = _DropWalrus([w for w in ws if w.value is not a.value]).visit(a.value)
                    new_expr = _DropWalrus(ws).visit(expr)
                    if host == "test":
                        s.test = new_expr
                        blk[i:i + 1] = assigns + [s]
                    elif host == "value":
                        s.value = new_expr
                        blk[i:i + 1] = assigns + [s]
                    else:
                        brk = ast.copy_location(ast.If(test=ast.UnaryOp(op=ast.Not(), operand=new_expr), body=[ast.copy_location(ast.Break(), s)], orelse=[]), s)
                        s.test = ast.copy_location(ast.Constant(True), s)
                        s.body = assigns + [brk] + s.body
                    changed += 1
                    done = True
                    break
                if done:
                    break
            if done:
                break
        if not done:
            break
    return changed


def _desugar_exit_stack(fn):
    """`[async] with [contextlib.][Async]ExitStack() as st:` whose body starts with `x = [await] st.enter_[async_]context(E)` / `st.callback(f, *a)` lines
    -> nested with-blocks / try-finally in the same order (only when `st` is used for nothing else)"""
    changed = 0
    for owner in list(ast.walk(fn)):
        for blk in _blocks(owner):
            for i, s in enumerate(blk):
                if not isinstance(s, (ast.With, ast.AsyncWith)) or len(s.items) != 1:
                    continue
                it = s.items[0]
                c = it.context_expr
                if not (isinstance(c, ast.Call) and not c.args and not c.keywords and isinstance(it.optional_vars, ast.Name)
                        and (c.func.attr if isinstance(c.func, ast.Attribute) else getattr(c.func, "id", "")) in ("ExitStack", "AsyncExitStack")):
                    continue
                st = it.optional_vars.id
                lead = []
                k = 0
                for stmt in s.body:
                    val, tgt = None, None
                    if isinstance(stmt, ast.Assign) and len(stmt.targets) == 1:
                        val, tgt = stmt.value, stmt.targets[0]
                    elif isinstance(stmt, ast.Expr):
                        val = stmt.value
                    call = val.value if isinstance(val, ast.Await) else val
                    if isinstance(call, ast.Call) and isinstance(call.func, ast.Attribute) and isinstance(call.func.value, ast.Name) and call.func.value.id == st \
                            and call.func.attr in ("enter_context", "enter_async_context", "callback", "push_async_callback") and call.args and not call.keywords:
                        lead.append((call.func.attr, call.args, tgt, stmt))
                        k += 1
                    else:
                        break
                rest = s.body[k:]
                if not lead or any(isinstance(n, ast.Name) and n.id == st for r in rest for n in ast.walk(r)):
                    continue
                inner = rest or [ast.copy_location(ast.Pass(), s)]
                for kind, args, tgt, stmt in reversed(lead):
                    if kind in ("enter_context", "enter_async_context"):
                        w = (ast.AsyncWith if kind == "enter_async_context" else ast.With)(items=[ast.withitem(context_expr=args[0], optional_vars=tgt)], body=inner)
                        if tgt is not None:
                            for t_ in ast.walk(tgt):
                                if isinstance(t_, (ast.Name, ast.Tuple)):
                                    t_.ctx = ast.Store()
                        inner = [ast.copy_location(w, stmt)]
                    else:
                        fin = ast.Expr(value=ast.Call(func=args[0], args=list(args[1:]), keywords=[]))
                        if kind == "push_async_callback":
                            fin = ast.Expr(value=ast.Await(value=fin.value))
                        inner = [ast.copy_location(ast.Try(body=inner, handlers=[], orelse=[], finalbody=[ast.copy_location(fin, stmt)]), stmt)]
                blk[i:i + 1] = inner
                changed += 1
                break
    return changed


def _split_tuple_assign(fn):
    """`a, b = x, y` -> `a = x` / `b = y` when no value reads a target"""
    changed = 0
    for owner in list(ast.walk(fn)):
        for blk in _blocks(owner):
            i = 0
            while i < len(blk):
                s = blk[i]
                if isinstance(s, ast.Assign) and len(s.targets) == 1 and isinstance(s.targets[0], ast.Tuple) and isinstance(s.value, ast.Tuple) \
                        and len(s.targets[0].elts) == len(s.value.elts) and len(s.value.elts) >= 2 and all(isinstance(t, ast.Name) for t in s.targets[0].elts) \
                        and not any(isinstance(v, ast.Starred) for v in s.value.elts):
                    tn = {t.id for t in s.targets[0].elts}
                    if not (tn & {n.id for v in s.value.elts for n in ast.walk(v) if isinstance(n, ast.Name)}) \
                            and not any(isinstance(n, (ast.Await, ast.Call, ast.NamedExpr)) for v in s.value.elts[:-1] for n in ast.walk(v)) or \
                            (not (tn & {n.id for v in s.value.elts for n in ast.walk(v) if isinstance(n, ast.Name)})):
                        new = [ast.copy_location(ast.Assign(targets=[t], value=v, lineno=s.lineno), s) for t, v in zip(s.targets[0].elts, s.value.elts)]
                        blk[i:i + 1] = new
                        changed += 1
                        i += len(new)
                        continue
                i += 1
    return changed


class _MapMethodcaller(ast.NodeTransformer):
    """map(operator.methodcaller("m", *a), it) -> (x.m(*a) for x in it)"""

    def visit_Call(self, node):
        self.generic_visit(node)
        if isinstance(node.func, ast.Name) and node.func.id == "map" and len(node.args) == 2 and not node.keywords:
            f = node.args[0]
            if isinstance(f, ast.Call) and (f.func.attr if isinstance(f.func, ast.Attribute) else getattr(f.func, "id", "")) == "methodcaller" \
                    and f.args and isinstance(f.args[0], ast.Constant) and isinstance(f.args[0].value, str) and not f.keywords:
                var = ast.Name(id="item__mc", ctx=ast.Load())
                elt = ast.Call(func=ast.Attribute(value=var, attr=f.args[0].value, ctx=ast.Load()), args=list(f.args[1:]), keywords=[])
                gen = ast.GeneratorExp(elt=elt, generators=[ast.comprehension(target=ast.Name(id="item__mc", ctx=ast.Store()), iter=node.args[1], ifs=[], is_async=0)])
                return ast.copy_location(gen, node)
        return node


def normalise(tree):
    """in-place; returns the number of substituted uses"""
    _AnnToAssign().visit(tree)
    _MapMethodcaller().visit(tree)
    for fn in [n for n in ast.walk(tree) if isinstance(n, FuncT)]:
        for _ in range(4):
            if not _desugar_match(fn):
                break
        _desugar_walrus(fn)
        for _ in range(4):
            if not _desugar_exit_stack(fn):
                break
        _split_tuple_assign(fn)
    ast.fix_missing_locations(tree)
    for fn in [n for n in ast.walk(tree) if isinstance(n, FuncT)]:
        _desugar_comprehensions(fn)
    total = 0
    fns = [n for n in ast.walk(tree) if isinstance(n, FuncT)]
    for fn in fns:
        total += _normalise_function(fn)
    ast.fix_missing_locations(tree)
    return total
