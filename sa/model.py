"""Program model: parsed modules, classes, functions, decorator stacks, anchors.

Everything is located by role (the dict literal assigned to the command table,
the callback handed to asyncio.start_server, the call that builds the session
container, ...), never by line number.
"""
import ast
import dataclasses
import pathlib

CORE_MODULES = ("server.py", "client.py", "common.py", "pathio.py", "errors.py")
EXTRA_MODULES = ("__main__.py", "__init__.py")
FuncT = (ast.FunctionDef, ast.AsyncFunctionDef)


class AnalysisError(Exception):
    """anchor vanished / instance floor not reached / unresolvable construct -> exit 2"""


class Inconclusive(Exception):
    """the code has a shape none of the accepted idioms covers and no witness exists -> exit 2"""


@dataclasses.dataclass
class Finding:
    prop: str
    rule: str
    module: str
    line: int
    function: str
    construct: str  # normalised text of the offending construct (key for known findings)
    message: str

    def key(self):
        return (self.rule, self.function, self.construct)

    def __str__(self):
        return f"{self.module}:{self.line} {self.function} [{self.rule}] {self.message} :: {self.construct}"


def src(n):
    if isinstance(n, ast.AST):
        return " ".join(ast.unparse(n).split())
    return str(n)


def dotted(n):
    if isinstance(n, ast.Name):
        return n.id
    if isinstance(n, ast.Attribute):
        b = dotted(n.value)
        return None if b is None else b + "." + n.attr
    return None


def last_attr(n):
    """`a.b.c` -> 'c', `c` -> 'c'"""
    if isinstance(n, ast.Attribute):
        return n.attr
    if isinstance(n, ast.Name):
        return n.id
    return None


BUILTIN_H = {
    "BaseException": [], "Exception": ["BaseException"], "CancelledError": ["BaseException"],
    "GeneratorExit": ["BaseException"], "KeyboardInterrupt": ["BaseException"], "SystemExit": ["BaseException"],
    "OSError": ["Exception"], "ValueError": ["Exception"], "KeyError": ["LookupError"], "IndexError": ["LookupError"],
    "LookupError": ["Exception"], "TimeoutError": ["OSError"], "QueueEmpty": ["Exception"], "QueueFull": ["Exception"],
    "ConnectionResetError": ["ConnectionError"], "ConnectionError": ["OSError"], "BrokenPipeError": ["ConnectionError"],
    "ConnectionAbortedError": ["ConnectionError"], "ConnectionRefusedError": ["ConnectionError"],
    "UnicodeDecodeError": ["UnicodeError"], "UnicodeEncodeError": ["UnicodeError"], "UnicodeError": ["ValueError"],
    "NotImplementedError": ["RuntimeError"], "RuntimeError": ["Exception"], "StopAsyncIteration": ["Exception"],
    "StopIteration": ["Exception"], "TypeError": ["Exception"], "AttributeError": ["Exception"], "NameError": ["Exception"],
    "FileNotFoundError": ["OSError"], "FileExistsError": ["OSError"], "NotADirectoryError": ["OSError"],
    "IsADirectoryError": ["OSError"], "PermissionError": ["OSError"], "OverflowError": ["ArithmeticError"],
    "ZeroDivisionError": ["ArithmeticError"], "ArithmeticError": ["Exception"], "AssertionError": ["Exception"],
    "RecursionError": ["RuntimeError"], "MemoryError": ["Exception"], "LimitOverrunError": ["Exception"],
    "IncompleteReadError": ["EOFError"], "EOFError": ["Exception"], "InvalidStateError": ["Exception"],
}


class Deco:
    def __init__(self, node, program):
        self.node = node
        call = node if isinstance(node, ast.Call) else None
        f = call.func if call else node
        self.name = f.attr if isinstance(f, ast.Attribute) else (f.id if isinstance(f, ast.Name) else src(f))
        self.args = [program.resolve_const(a) for a in call.args] if call else []
        self.arg_nodes = list(call.args) if call else []
        self.kwargs = {k.arg: program.resolve_const(k.value) for k in call.keywords} if call else {}

    def __repr__(self):
        return f"@{self.name}{tuple(self.args) if self.args else ''}{self.kwargs or ''}"


class Program:
    def __init__(self, sources, normalise_aliases=True):
        """sources: dict module filename -> source text; pure local aliases are propagated (sa/normalise.py) unless disabled"""
        self.sources = sources
        self.trees = {}
        for name in CORE_MODULES + EXTRA_MODULES:
            if name not in sources:
                if name in CORE_MODULES:
                    raise AnalysisError(f"module {name} missing")
                continue
            try:
                self.trees[name] = ast.parse(sources[name], filename=name)
            except SyntaxError as e:
                raise AnalysisError(f"syntax error in {name}: {e}")
        self.inlined = []
        if normalise_aliases:
            from .inline import inline_new_helpers, undo_renames
            from .normalise import normalise
            self.renamed = undo_renames(self.trees)
            from .inline import propagate_new_constants
            self.constants = propagate_new_constants(self.trees)
            self.inlined = inline_new_helpers(self.trees)
            from .inline import localise_single_use_methods
            self.localised = localise_single_use_methods(self.trees)
            for name in self.trees:
                self.n_aliases = getattr(self, "n_aliases", 0) + normalise(self.trees[name])
        self.classes = {}  # name -> (ClassDef, module)
        self.module_funcs = {}  # (module, name) -> FunctionDef
        self.parent = {}
        self.module_of = {}
        self.functions = {}  # qualname -> node (first wins)
        for mod, tree in self.trees.items():
            for node in ast.walk(tree):
                for ch in ast.iter_child_nodes(node):
                    self.parent[ch] = node
                self.module_of[node] = mod
            for n in tree.body:
                if isinstance(n, ast.ClassDef):
                    self.classes.setdefault(n.name, (n, mod))
                if isinstance(n, FuncT):
                    self.module_funcs[(mod, n.name)] = n
        for mod, tree in self.trees.items():
            for node in ast.walk(tree):
                if isinstance(node, FuncT):
                    self.functions.setdefault(self.qualname(node), node)
                if isinstance(node, ast.ClassDef) and node.name not in self.classes:
                    self.classes[node.name] = (node, mod)  # nested classes
        self._h = dict(BUILTIN_H)
        for n in ast.walk(self.trees["errors.py"]):
            if isinstance(n, ast.ClassDef):
                self._h[n.name] = [b.attr if isinstance(b, ast.Attribute) else getattr(b, "id", "?") for b in n.bases]
        self._cache = {}
        self.stats = {"aliases_propagated": getattr(self, "n_aliases", 0), "helpers_inlined": self.inlined, "renames_undone": getattr(self, "renamed", {}), "methods_localised": getattr(self, "localised", []), "constants_propagated": getattr(self, "constants", []), "functions": len(self.functions), "classes": len(self.classes),
                      "modules": sorted(self.trees), "ast_nodes": len(self.parent) + len(self.trees)}

    @classmethod
    def from_dir(cls, root):
        root = pathlib.Path(root)
        out = {}
        for m in CORE_MODULES + EXTRA_MODULES:
            f = root / m
            if f.exists():
                out[m] = f.read_text()
        return cls(out)

    # ---- names
    def module_level_names(self, mod):
        """names bound by plain assignments at module level (candidates for process-wide state)"""
        key = ("mln", mod)
        if key not in self._cache:
            out = set()
            for n in self.trees[mod].body:
                if isinstance(n, ast.Assign):
                    out |= {t.id for t in n.targets if isinstance(t, ast.Name)}
            self._cache[key] = out
        return self._cache[key]

    def qualname(self, fn):
        parts = []
        n = fn
        while n is not None and not isinstance(n, ast.Module):
            if isinstance(n, FuncT + (ast.ClassDef,)):
                parts.append(n.name)
            n = self.parent.get(n)
        return ".".join(reversed(parts))

    def enclosing_function(self, node):
        n = self.parent.get(node)
        while n is not None and not isinstance(n, FuncT):
            n = self.parent.get(n)
        return n

    def enclosing_class(self, node):
        n = self.parent.get(node)
        while n is not None and not isinstance(n, ast.ClassDef):
            n = self.parent.get(n)
        return n

    def enclosing_stmt(self, node):
        n = node
        while n is not None and not isinstance(n, ast.stmt):
            n = self.parent.get(n)
        return n

    def loc(self, node):
        return self.module_of.get(node, "?"), getattr(node, "lineno", 0)

    def fn_of(self, node):
        if isinstance(node, FuncT):
            return self.qualname(node)
        f = self.enclosing_function(node)
        return self.qualname(f) if f is not None else "<module>"

    # ---- hierarchy
    def issub(self, c, d):
        if c == d:
            return True
        if c not in self._h:
            return d in ("Exception", "BaseException")
        return any(self.issub(b, d) for b in self._h[c])

    # ---- classes / methods
    def cls(self, name):
        if name not in self.classes:
            raise AnalysisError(f"class {name} not found")
        return self.classes[name][0]

    def bases(self, clsname):
        return [last_attr(b) for b in self.cls(clsname).bases]

    def mro(self, clsname):
        out, todo = [], [clsname]
        while todo:
            c = todo.pop(0)
            if c in out or c not in self.classes:
                continue
            out.append(c)
            todo += [b for b in self.bases(c) if b]
        return out

    def methods(self, clsname, inherited=False):
        if inherited:
            out = {}
            for c in reversed(self.mro(clsname)):
                out.update(self.methods(c))
            return out
        return {n.name: n for n in self.cls(clsname).body if isinstance(n, FuncT)}

    def method(self, clsname, name):
        m = self.methods(clsname)
        if name not in m:
            raise AnalysisError(f"method {clsname}.{name} not found")
        return m[name]

    def nested(self, fn, name):
        for n in ast.walk(fn):
            if n is not fn and isinstance(n, FuncT) and n.name == name:
                return n
        raise AnalysisError(f"nested function {name} not found in {self.qualname(fn)}")

    def nested_functions(self, fn):
        return [n for n in ast.walk(fn) if n is not fn and isinstance(n, FuncT)]

    def class_attr_const(self, clsname, attr):
        if clsname not in self.classes:
            return None
        for n in self.cls(clsname).body:
            if isinstance(n, ast.Assign) and any(isinstance(t, ast.Name) and t.id == attr for t in n.targets):
                try:
                    return ast.literal_eval(n.value)
                except Exception:
                    return None
        return None

    def module_const(self, module, name):
        for n in self.trees[module].body:
            if isinstance(n, ast.Assign) and any(isinstance(t, ast.Name) and t.id == name for t in n.targets):
                return n.value
        return None

    def resolve_const(self, node):
        """literal, or Class.attr class constant, else the node itself"""
        try:
            return ast.literal_eval(node)
        except Exception:
            pass
        if isinstance(node, ast.Attribute) and isinstance(node.value, ast.Name) and node.value.id in self.classes:
            v = self.class_attr_const(node.value.id, node.attr)
            if v is not None:
                return v
        return node

    def decorators(self, fn):
        return [Deco(d, self) for d in fn.decorator_list]

    # ---- anchors
    def command_table(self):
        if "command_table" in self._cache:
            return self._cache["command_table"]
        init = self.method("Server", "__init__")
        for n in ast.walk(init):
            if (isinstance(n, ast.Assign) and isinstance(n.value, ast.Dict) and len(n.value.keys) >= 5
                    and all(isinstance(k, ast.Constant) and isinstance(k.value, str) for k in n.value.keys)
                    and all(isinstance(v, ast.Attribute) and isinstance(v.value, ast.Name) and v.value.id == "self"
                            for v in n.value.values)):
                table = {k.value: v.attr for k, v in zip(n.value.keys, n.value.values)}
                attr = n.targets[0].attr if isinstance(n.targets[0], ast.Attribute) else None
                self._cache["command_table"] = (table, n)
                self._cache["command_table_attr"] = attr
                return table, n
        raise AnalysisError("anchor=command_table (dict literal of verb -> self.<method>) not found in Server.__init__")

    def command_table_attr(self):
        self.command_table()
        return self._cache["command_table_attr"]

    def dispatcher(self):
        if "dispatcher" in self._cache:
            return self._cache["dispatcher"]
        start = self.method("Server", "start")
        for n in ast.walk(start):
            if isinstance(n, ast.Call) and dotted(n.func) == "asyncio.start_server" and n.args:
                a = n.args[0]
                if isinstance(a, ast.Attribute) and isinstance(a.value, ast.Name) and a.value.id == "self":
                    self._cache["dispatcher"] = self.method("Server", a.attr)
                    return self._cache["dispatcher"]
        raise AnalysisError("anchor=dispatcher (callback of asyncio.start_server in Server.start) not found")

    def session_ctor(self):
        d = self.dispatcher()
        for n in ast.walk(d):
            if isinstance(n, ast.Call) and isinstance(n.func, ast.Name) and n.func.id == "Connection":
                return n
        raise AnalysisError("anchor=session_ctor (Connection(...) in the dispatcher) not found")

    def session_var(self):
        ctor = self.session_ctor()
        a = self.parent[ctor]
        if isinstance(a, ast.Assign) and isinstance(a.targets[0], ast.Name):
            return a.targets[0].id
        raise AnalysisError("anchor=session variable (target of Connection(...)) not found")

    def dispatcher_try(self):
        d = self.dispatcher()
        tries = [n for n in d.body if isinstance(n, ast.Try) and n.finalbody]
        if len(tries) != 1:
            raise AnalysisError("anchor=dispatcher cleanup: expected exactly one top-level try/finally in the dispatcher")
        return d, tries[0]

    def handler_params(self, fn):
        a = [x.arg for x in fn.args.args]
        if len(a) < 3:
            raise AnalysisError(f"handler {fn.name} has fewer than 3 positional parameters")
        return a[1], a[2]  # connection, rest

    def handlers(self):
        """sorted [(verb, method name, node)] of the command table; missing methods raise"""
        table, _ = self.command_table()
        ms = self.methods("Server")
        out = []
        for verb, name in sorted(table.items()):
            if name not in ms:
                raise AnalysisError(f"command table maps {verb!r} to missing method {name}")
            out.append((verb, name, ms[name]))
        return out

    def workers(self):
        """[(handler, worker)] nested coroutines whose task is added to <connection>.extra_workers"""
        if "workers" in self._cache:
            return self._cache["workers"]
        out = []
        for name, fn in self.methods("Server").items():
            for n in ast.walk(fn):
                if (isinstance(n, ast.Call) and isinstance(n.func, ast.Attribute) and n.func.attr == "add"
                        and last_attr(n.func.value) == "extra_workers" and n.args):
                    w = self._worker_from_task(fn, n.args[0])
                    if w is not None and all(w is not x[1] for x in out):
                        out.append((fn, w))
        self._cache["workers"] = out
        return out

    def _worker_from_task(self, fn, task_expr):
        defs = {}
        for n in ast.walk(fn):
            if isinstance(n, ast.Assign) and len(n.targets) == 1 and isinstance(n.targets[0], ast.Name):
                defs[n.targets[0].id] = n.value
        e = task_expr
        for _ in range(6):
            if isinstance(e, ast.Name) and e.id in defs:
                e = defs[e.id]
                continue
            if isinstance(e, ast.Call) and (dotted(e.func) or "").split(".")[-1] in ("create_task", "ensure_future") and e.args:
                e = e.args[0]
                continue
            if isinstance(e, ast.Call) and isinstance(e.func, ast.Name):
                try:
                    return self.nested(fn, e.func.id)
                except AnalysisError:
                    return None
            break
        return None

    def wrapper_of(self, deco_name):
        """the inner wrapper function of a decorator class (__call__) or decorator function"""
        if deco_name in self.classes:
            call = self.method(deco_name, "__call__")
            return self.inner_wrapper(call)
        for (mod, name), fn in self.module_funcs.items():
            if name == deco_name:
                return self.inner_wrapper(fn)
        raise AnalysisError(f"decorator {deco_name} not found")

    def inner_wrapper(self, fn):
        """the nested function that `fn` returns (by role: `return <name>` of a nested def)"""
        nested = {n.name: n for n in fn.body if isinstance(n, FuncT)}
        for s in fn.body:
            if isinstance(s, ast.Return) and isinstance(s.value, ast.Name) and s.value.id in nested:
                return nested[s.value.id]
            if isinstance(s, ast.Return) and isinstance(s.value, ast.Call):   # return functools.wraps(f)(wrapper)
                for a in s.value.args:
                    if isinstance(a, ast.Name) and a.id in nested:
                        return nested[a.id]
        if len(nested) == 1:
            return next(iter(nested.values()))
        raise AnalysisError(f"wrapper function of decorator {self.qualname(fn)} not found")

    def decorator_factory_parts(self, fn):
        """for `def deco(arg): def decorator(f): def wrapper(...)` -> (decorator, wrapper); for a plain decorator -> (fn, wrapper)"""
        inner = self.inner_wrapper(fn)
        if any(isinstance(n, FuncT) for n in inner.body):
            try:
                return inner, self.inner_wrapper(inner)
            except AnalysisError:
                pass
        return fn, inner

    def wrapped_param(self, deco_name):
        """name of the parameter holding the wrapped function"""
        if deco_name in self.classes:
            call = self.method(deco_name, "__call__")
        else:
            call = next(fn for (m, n), fn in self.module_funcs.items() if n == deco_name)
        return [a.arg for a in call.args.args][-1]

    def backends(self):
        out = [name for name, (c, m) in self.classes.items()
               if m == "pathio.py" and any(last_attr(b) == "AbstractPathIO" for b in c.bases)]
        return sorted(out)

    def backend_ops(self):
        return [n.name for n in self.cls("AbstractPathIO").body
                if isinstance(n, ast.AsyncFunctionDef) or (isinstance(n, ast.FunctionDef) and any(
                    last_attr(d) == "abstractmethod" for d in n.decorator_list))]


def walk_no_nested(node):
    """walk statements/expressions of a function body without entering nested defs/lambdas/classes"""
    stack = list(ast.iter_child_nodes(node))
    while stack:
        n = stack.pop()
        yield n
        if isinstance(n, FuncT + (ast.ClassDef, ast.Lambda)):
            continue
        stack.extend(ast.iter_child_nodes(n))


def walk_self(n):
    """n and its descendants, not entering nested defs (and nothing if n is a def)"""
    if isinstance(n, FuncT + (ast.ClassDef,)):
        return
    yield n
    yield from walk_no_nested(n)
