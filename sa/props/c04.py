"""C04 Read/write permissions follow the nearest-ancestor rule on the resolved path"""
import ast
from ..model import *
from ..util import *
from ..facts import *
from ..paths import Cfg, evaluated
from .c03 import handler_total_effects

EXPLANATION = (
    "Exhaustive over the path-taking verbs of the command table: the permission kind required by the property's table "
    "(read: CWD CDUP LIST MLSD MLST RETR; modify: MKD RMD DELE RNFR RNTO STOR APPE) is cross-checked with effect "
    "inference on the handler (reaches mkdir/rmdir/unlink/rename/open(mode!='rb') or stores rename_from => writable; "
    "other backend reads / cwd change => readable) and must be enforced by a PathPermissions decorator (directly or "
    "through the guarded handler it delegates to), inside the login guard. The PathPermissions wrapper is analysed "
    "path by path: it looks the entry up with the VIRTUAL component of get_paths(connection, rest), refuses with one "
    "550 exactly when the requested attribute of the entry is falsy, delegates otherwise; arity contradiction rule "
    "(the wrapper returns after the first permission); nearest-ancestor selection form in User.get_permissions."
)
NOT_DECIDED = [
    "evaluation of permission tables on concrete paths",
    "'a refused request leaves the tree unchanged' beyond: the wrapper returns before the body, and the earlier wrappers only read",
    "pathlib's relative_to semantics (is_parent) are trusted as documented",
]

READ_VERBS = {"cwd", "cdup", "list", "mlsd", "mlst", "retr"}
WRITE_VERBS = {"mkd", "rmd", "dele", "rnfr", "rnto", "stor", "appe"}
MUTATORS = {"mkdir", "rmdir", "unlink", "rename"}


def perm_constants(p):
    out = {}
    for n in p.cls("PathPermissions").body:
        if isinstance(n, ast.Assign) and isinstance(n.value, ast.Constant) and isinstance(n.targets[0], ast.Name):
            out[n.targets[0].id] = n.value.value
    return out


def rule_kind(ctx):
    p = ctx.p
    ctx.rule("C04.KIND", "each path-taking verb enforces PathPermissions(<kind>) where kind agrees between the statement's table and effect inference")
    table, _ = p.command_table()
    methods = p.methods("Server")
    login = field_names(p)["login_required"]
    consts = set(perm_constants(p).values())

    def perms_of(fn, depth=0):
        """[(permission set, decorator)] enforced for handler fn, following delegation to a handler"""
        out = set()
        for d in p.decorators(fn):
            if d.name == "PathPermissions":
                out |= {a for a in d.args if isinstance(a, str)}
        if not out and depth < 2:
            for c in calls_in(fn, lambda c: is_self_call(c, set(table.values())), nested=False):
                out |= perms_of(methods[c.func.attr], depth + 1)
        return out

    def inferred(fn, depth=0):
        kinds = set()
        for n in ast.walk(fn):
            if isinstance(n, ast.Call) and isinstance(n.func, ast.Attribute) and last_attr(n.func.value) == "path_io":
                if n.func.attr in MUTATORS:
                    kinds.add("writable")
                elif n.func.attr == "open":
                    mode = kwarg(n, "mode", 1)
                    vals = const_values(p, mode, p.enclosing_function(n)) if mode is not None else ["rb"]
                    if all(v == "rb" for v in vals):
                        kinds.add("readable")
                    else:
                        kinds.add("writable")
                else:
                    kinds.add("readable")
            if isinstance(n, ast.Assign) and any(isinstance(t, ast.Attribute) and t.attr == "rename_from" for t in n.targets):
                kinds.add("writable")
            if isinstance(n, ast.Assign) and any(isinstance(t, ast.Attribute) and t.attr == "current_directory" for t in n.targets):
                kinds.add("readable")
            if depth < 2 and is_self_call(n, set(table.values())) and methods[n.func.attr] is not fn:
                kinds |= inferred(methods[n.func.attr], depth + 1)
        return {"writable"} if "writable" in kinds else kinds
    n_inst = 0
    for verb, name, fn in p.handlers():
        spec = "readable" if verb in READ_VERBS else "writable" if verb in WRITE_VERBS else None
        inf = inferred(fn)
        have = perms_of(fn)
        eff = {e.split("@")[0] for e in handler_total_effects(p, fn)}
        delegates = [methods[c.func.attr] for c in calls_in(fn, lambda c: is_self_call(c, set(table.values())), nested=False)]
        path_taking = "resolver" in eff or any("resolver" in {e.split("@")[0] for e in handler_total_effects(p, d)} for d in delegates)
        if spec is None and not (path_taking and inf):
            continue
        n_inst += 1
        need = spec or ("writable" if "writable" in inf else "readable")
        if spec and inf:
            ctx.ob("C04.KIND", fn, f"verb {verb!r}: statement table ({spec}) and effect inference ({sorted(inf)}) agree", spec in inf,
                   f"verb {verb!r}: statement table says {spec}, effect inference says {sorted(inf)}", construct=f"{name}:spec-vs-inferred", function=p.qualname(fn))
        ctx.ob("C04.KIND", fn, f"verb {verb!r} enforces PathPermissions({need}) (has {sorted(have) or 'none'})", need in have,
               f"verb {verb!r} needs PathPermissions({need}) but enforces {sorted(have) or 'none'}", construct=f"{name}:needs {need}", function=p.qualname(fn))
        if spec is None:
            ctx.note(f"verb {verb!r} is path-taking by effect inference but not in the statement's table; required kind {need} inferred")
        # order: inside the login guard
        seen_login = False
        for d in p.decorators(fn):
            if is_guard(d, login):
                seen_login = True
            if d.name == "PathPermissions":
                if not seen_login:
                    ctx.note(f"{name}: PathPermissions is not inside a login guard (decided by C03.GUARD, not an alarm of C04)")
        # unknown permission names
        for d in p.decorators(fn):
            if d.name == "PathPermissions":
                for a in d.args:
                    ctx.ob("C04.KIND", d.node, f"{name}: permission {a!r} is one of the defined kinds {sorted(consts)}", isinstance(a, str) and a in consts,
                           f"{name}: PathPermissions argument {src(a) if isinstance(a, ast.AST) else a!r} is not a defined permission kind", construct=f"{name}:unknown perm", function=p.qualname(fn))
    if n_inst < 13:
        ctx.floor_errors.append(f"rule=C04.KIND: {n_inst} permission-checked verbs (floor 13)")


def rule_wrapper(ctx):
    p = ctx.p
    ctx.rule("C04.ARG", "the permission is looked up with the resolved VIRTUAL path of (connection, rest), on the session user")
    ctx.rule("C04.DENY", "the wrapper refuses with exactly one 550 iff the requested permission attribute is falsy, and delegates otherwise")
    ctx.rule("C04.ARITY", "the wrapper returns after the first permission: every decoration site passes exactly one")
    w = p.wrapper_of("PathPermissions")
    conn, rest = [a.arg for a in w.args.args][1:3]
    gp = [c for c in walk_no_nested(w) if isinstance(c, ast.Call) and isinstance(c.func, ast.Attribute) and c.func.attr == "get_permissions"]
    if not gp:
        raise AnalysisError("anchor=get_permissions call not found in the PathPermissions wrapper")
    from .c02 import resolver_indices
    real_i, virt_i = resolver_indices(p)
    for c in gp:
        a = c.args[0] if c.args else None
        ok = False
        lab = "?"
        if isinstance(a, ast.Name):
            for k, v, x in local_defs(w, a.id):
                if k == "unpack" and isinstance(v, ast.Call) and (dotted(v.func) or "").endswith(".get_paths"):
                    args_ok = [src(z) for z in v.args] == [conn, rest]
                    lab = f"get_paths({', '.join(src(z) for z in v.args)})[{x}]"
                    ok = args_ok and x == virt_i and len(local_defs(w, a.id)) == 1
        elif a is not None:
            lab = src(a)
        ctx.ob("C04.ARG", c, f"permission lookup key is {lab}", ok,
               f"permission looked up with `{src(a) if a is not None else None}` ({lab}), not with the resolved virtual path of the request",
               construct=f"lookup:{src(a) if a is not None else None}:{lab}")
        recv = c.func.value
        ctx.ob("C04.ARG", c, "the entry is looked up on the session's user", dsrc(p, recv, w) == f"{conn}.user",
               f"permission looked up on `{src(recv)}`, not on the session's user", construct=f"lookup recv:{src(recv)}")
    # arity
    fparam = p.wrapped_param("PathPermissions")
    in_loop = any(isinstance(l, (ast.For, ast.While)) and any(isinstance(c, ast.Call) and isinstance(c.func, ast.Name) and c.func.id == fparam for c in ast.walk(l))
                  for l in walk_no_nested(w))
    sites = 0
    for fn in list(p.methods("Server").values()):
        for d in p.decorators(fn):
            if d.name == "PathPermissions":
                sites += 1
                ok = (len(d.args) == 1) if in_loop else (len(d.args) >= 1)
                ctx.ob("C04.ARITY", d.node, f"{fn.name}: PathPermissions receives exactly one permission", ok,
                       f"{fn.name}: PathPermissions with {len(d.args)} permissions but the wrapper returns after checking the first (or checks nothing)",
                       construct=f"{fn.name}:{len(d.args)} permissions", function=p.qualname(fn))
    if sites < 10:
        ctx.floor_errors.append(f"rule=C04.ARITY: {sites} decoration sites (floor 10)")
    # deny / delegate per path
    wfn, wconn, paths = check_wrapper(ctx, "PathPermissions", "C04.DENY", zero_iter_ok=in_loop)
    perm_var = None
    for c in gp:
        st = p.enclosing_stmt(c)
        if isinstance(st, ast.Assign) and isinstance(st.targets[0], ast.Name):
            perm_var = st.targets[0].id
    loop_vars = {l.target.id: l for l in walk_no_nested(w) if isinstance(l, ast.For) and isinstance(l.target, ast.Name)}

    def perm_test(t):
        """-> polarity-normalised: returns ('attr', negated) if t is (not)? getattr(<perm_var>, <loop var>) or <perm_var>.<const>"""
        neg = False
        t = deep_expand(p, t, w, stop={perm_var} | set(loop_vars))
        while isinstance(t, ast.UnaryOp) and isinstance(t.op, ast.Not):
            t, neg = t.operand, not neg
        if isinstance(t, ast.Call) and isinstance(t.func, ast.Name) and t.func.id == "getattr" and len(t.args) in (2, 3):
            if isinstance(t.args[0], ast.Name) and t.args[0].id == perm_var and isinstance(t.args[1], ast.Name) and t.args[1].id in loop_vars:
                lv = loop_vars[t.args[1].id]
                if src(lv.iter) == "self.permissions":
                    if len(t.args) == 3 and not (isinstance(t.args[2], ast.Constant) and not t.args[2].value):
                        return None
                    return ("attr", neg)
        return None
    n_deny = n_deleg = 0
    for replies, delegated, out, ev in paths:
        if out[0] in ("cut", "raise"):
            continue
        tests = []
        for e in ev:
            if e[0] == "branch":
                pt = perm_test(e[1])
                if pt is None:
                    tests.append((None, e[1], e[2]))
                else:
                    truthy_attr = (e[2] != pt[1])  # value of the attribute on this path
                    tests.append((truthy_attr, e[1], e[2]))
        if replies:
            n_deny += 1
            known = [t for t in tests if t[0] is not None]
            ok = bool(known) and known[-1][0] is False and all(t[0] is not None for t in tests)
            bad = next((src(t[1]) for t in tests if t[0] is None), None)
            ctx.ob("C04.DENY", replies[0], "the 550 is sent on the branch where the requested permission attribute is falsy", ok,
                   f"deny branch is not taken exactly when the permission attribute is falsy (test `{bad or (src(tests[-1][1]) if tests else None)}`): "
                   "e.g. an `is None` test lets a False permission through", construct=f"deny:{bad or (src(tests[-1][1]) if tests else 'no test')}")
            codes = [r.args[0].value if r.args and isinstance(r.args[0], ast.Constant) else None for r in replies]
            ctx.ob("C04.DENY", replies[0], f"refusal code is 550 ({codes})", codes == ["550"], f"permission refusal replies {codes}, not 550", construct=f"deny code:{codes}")
        if delegated:
            n_deleg += 1
            known = [t for t in tests if t[0] is not None]
            ok = bool(known) and all(t[0] is True for t in known) and all(t[0] is not None for t in tests)
            ctx.ob("C04.DENY", w, "the handler body is called only on a path where the requested permission attribute was found truthy", ok,
                   "the wrapper calls the handler without having found the permission truthy (check skipped, inverted, or body called before the check)",
                   construct=f"delegate:{[(src(t[1]), t[2]) for t in tests]}"[:200])
    if not n_deny or not n_deleg:
        ctx.fail("C04.DENY", w, f"wrapper has {n_deny} refusing and {n_deleg} delegating paths (needs both)", construct=f"paths:{n_deny}/{n_deleg}")
    # body not called before the lookup: every delegating call is after get_permissions on the path (by construction of tests above)


def rule_atomic(ctx):
    p = ctx.p
    ctx.rule("C04.ATOMIC", "nothing can run between the permission decision and the handler's own resolution of the same argument: commands of one session run as concurrent "
                           "tasks (a pipelined CWD changes what a relative argument means), so no awaiting decorator sits between PathPermissions "
                           "and the handler (C04.SAME decides the handler's own body)")
    n = 0
    for verb, name, fn in p.handlers():
        ds = p.decorators(fn)
        names = [d.name for d in ds]
        if "PathPermissions" not in names:
            continue
        n += 1
        inner = ds[names.index("PathPermissions") + 1:]
        awaiting = []
        for d in inner:
            try:
                w = p.wrapper_of(d.name)
            except AnalysisError:
                w = None
            if w is None:
                awaiting.append(d.name)      # unknown decorator: cannot show it does not suspend
                continue
            wrapped = None
            for a in walk_no_nested(w):
                if isinstance(a, ast.Await):
                    v = a.value
                    is_f = isinstance(v, ast.Call) and isinstance(v.func, ast.Name) and v.func.id in ("f", wrapped)
                    if not is_f and may_suspend_await(p, a, w):
                        awaiting.append(d.name)
                        break
        ctx.ob("C04.ATOMIC", fn, f"{name}: no awaiting decorator between the permission check and the handler", not awaiting,
               f"{name}: {sorted(set(awaiting))} run(s) between PathPermissions and the handler and can suspend: a pipelined CWD executed meanwhile makes the handler "
               "resolve the same relative argument to another path than the one whose permission was checked", construct=f"{name}:awaiting decorator inside PathPermissions")
    ctx.floor("C04.ATOMIC", 10, "permission-guarded handlers")


def rule_near(ctx):
    p = ctx.p
    ctx.rule("C04.NEAR", "User.get_permissions selects the nearest ancestor entry (min over relative length / max over own depth among is_parent entries), default permissive")
    # Permission defaults are permissive, is_parent is relative_to success
    pinit = p.method("Permission", "__init__")
    kd = {a.arg: d for a, d in zip(pinit.args.kwonlyargs, pinit.args.kw_defaults)}
    ok = all(isinstance(kd.get(k), ast.Constant) and kd[k].value is True for k in ("readable", "writable"))
    ctx.ob("C04.NEAR", pinit, "Permission() defaults to readable=True, writable=True", ok, "Permission() no longer defaults to allowed", construct="Permission defaults")
    for attr in ("readable", "writable"):
        st = [s for s, t in attr_stores(pinit, attr) if isinstance(s, ast.Assign)]
        ok = bool(st) and all(isinstance(s.value, ast.Name) and s.value.id == attr for s in st)
        ctx.ob("C04.NEAR", pinit, f"Permission.{attr} stores the `{attr}` argument", ok, f"Permission.{attr} is not the `{attr}` argument (crossed or constant)", construct=f"Permission.{attr} store")
    ip = p.method("Permission", "is_parent")
    body_ok = any(isinstance(t, ast.Try) and any(isinstance(x, ast.Call) and isinstance(x.func, ast.Attribute) and x.func.attr == "relative_to"
                                                  and src(x.func.value) == [a.arg for a in ip.args.args][1] and [src(z) for z in x.args] == ["self.path"] for s in t.body for x in ast.walk(s))
                  and (any(isinstance(r, ast.Return) and isinstance(r.value, ast.Constant) and r.value.value is True for s in t.body + t.orelse for r in ast.walk(s))
                       or (t in ip.body and any(isinstance(r, ast.Return) and isinstance(r.value, ast.Constant) and r.value.value is True for r in ip.body[ip.body.index(t) + 1:])))
                  and any(isinstance(r, ast.Return) and isinstance(r.value, ast.Constant) and r.value.value is False for h in t.handlers for s in h.body for r in ast.walk(s))
                  for t in walk_no_nested(ip)) or any(isinstance(x, ast.Call) and isinstance(x.func, ast.Attribute) and x.func.attr == "is_relative_to" for x in ast.walk(ip))
    other_ = [a.arg for a in ip.args.args][1] if len(ip.args.args) > 1 else "other"
    rets_ip = [r.value for r in walk_no_nested(ip) if isinstance(r, ast.Return) and r.value is not None]
    if not body_ok and len(rets_ip) == 1:
        e_ = deep_expand(p, rets_ip[0], ip)
        # component-wise equivalents: `self.path == other or self.path in other.parents`, `other.parts[:len(self.path.parts)] == self.path.parts`
        if isinstance(e_, ast.BoolOp) and isinstance(e_.op, ast.Or) and len(e_.values) == 2:
            texts = {src(v) for v in e_.values}
            body_ok = texts in ({f"self.path == {other_}", f"self.path in {other_}.parents"}, {f"{other_} == self.path", f"self.path in {other_}.parents"})
        if isinstance(e_, ast.Compare) and len(e_.ops) == 1 and isinstance(e_.ops[0], ast.Eq):
            texts = {src(e_.left), src(e_.comparators[0])}
            body_ok = body_ok or texts == {f"{other_}.parts[:len(self.path.parts)]", "self.path.parts"}
    ctx.ob("C04.NEAR", ip, "is_parent(other) is success of other.relative_to(self.path)", body_ok, "is_parent is no longer `other.relative_to(self.path)` success", construct="is_parent form")
    gpm = p.method("User", "get_permissions")
    sel = [c for c in walk_no_nested(gpm) if isinstance(c, ast.Call) and isinstance(c.func, ast.Name) and c.func.id in ("min", "max", "sorted")]
    if len(sel) != 1:
        raise Inconclusive("C04.NEAR: selection form of get_permissions not recognised (expected one min/max call)")
    c = sel[0]
    key = kwarg(c, "key")
    lam = key if isinstance(key, ast.Lambda) else None
    if lam is None and isinstance(key, ast.Name):
        d_ = unique_def(gpm, key.id)
        if isinstance(d_, ast.Lambda):
            lam = d_
        else:
            nf = [f for f in p.nested_functions(gpm) if f.name == key.id]
            if nf:
                rets_ = [r for r in walk_no_nested(nf[0]) if isinstance(r, ast.Return) and r.value is not None]
                if len(rets_) == 1:
                    lam = ast.Lambda(args=nf[0].args, body=rets_[0].value)
    if lam is None:
        raise Inconclusive("C04.NEAR: key of the selection is neither a lambda nor a single-return local function")
    # a key that reads an attribute of the entry is the expression the entry's constructor stores there (`p.depth` with `self.depth = len(self.path.parts)`)
    pinit_ = p.method("Permission", "__init__")
    body_ = lam.body
    inner_ = body_.operand if isinstance(body_, ast.UnaryOp) and isinstance(body_.op, ast.USub) else body_
    if isinstance(inner_, ast.Attribute) and isinstance(inner_.value, ast.Name) and lam.args.args and inner_.value.id == lam.args.args[0].arg:
        st_ = [s_ for s_, t_ in attr_stores(pinit_, inner_.attr) if isinstance(s_, ast.Assign)]
        if len(st_) == 1:
            repl_ = deep_expand(p, st_[0].value, pinit_)
            body_ = ast.UnaryOp(op=ast.USub(), operand=repl_) if inner_ is not body_ else repl_
            lam = ast.Lambda(args=lam.args, body=body_)
    ks = src(lam.body)
    has_len = any(isinstance(x, ast.Call) and isinstance(x.func, ast.Name) and x.func.id == "len" for x in ast.walk(lam.body))
    negated = isinstance(lam.body, ast.UnaryOp) and isinstance(lam.body.op, ast.USub)
    rel_depth = has_len and any(isinstance(x, ast.Call) and isinstance(x.func, ast.Attribute) and x.func.attr == "relative_to" for x in ast.walk(lam.body))
    own_depth = has_len and not rel_depth and any(isinstance(x, ast.Attribute) and x.attr == "parts" for x in ast.walk(lam.body))
    if not (rel_depth or own_depth):
        raise Inconclusive("C04.NEAR: key form not recognised: " + ks)
    fn = c.func.id
    if negated:
        fn = {"min": "max", "max": "min"}.get(fn, fn)
    good = (fn == "min" and rel_depth) or (fn == "max" and own_depth)
    ctx.ob("C04.NEAR", c, f"selection `{c.func.id}(key={ks})` picks the nearest ancestor", good,
           "selects the farthest ancestor entry instead of the nearest", construct=f"near:{c.func.id}:{ks}")
    # candidates are filtered by is_parent(path)
    cand = expand(p, c.args[0], gpm) if c.args else None
    filt = cand is not None and any(isinstance(x, ast.Call) and isinstance(x.func, ast.Attribute) and x.func.attr == "is_parent" for x in ast.walk(cand))
    ctx.ob("C04.NEAR", c, "candidates are the entries for which is_parent(path) holds", filt,
           "the selection is not restricted to ancestor entries (is_parent)", construct="near:no is_parent filter")
    over_all = cand is not None and any(isinstance(x, ast.Attribute) and x.attr == "permissions" for x in ast.walk(cand))
    ctx.ob("C04.NEAR", c, "candidates are drawn from all of self.permissions", over_all, "the selection does not range over self.permissions", construct="near:not over permissions")
    dflt = expand(p, kwarg(c, "default"), gpm) if kwarg(c, "default") is not None else None
    ok = isinstance(dflt, ast.Call) and last_attr(dflt.func) == "Permission" and not dflt.args and not dflt.keywords
    if dflt is None and c.args and isinstance(c.args[0], ast.Name):
        # explicit form: `if not <candidates>: return Permission()` before the selection
        for n_ in walk_no_nested(gpm):
            if isinstance(n_, ast.If) and isinstance(n_.test, ast.UnaryOp) and isinstance(n_.test.op, ast.Not) and src(n_.test.operand) == c.args[0].id and n_.body \
                    and isinstance(n_.body[-1], ast.Return) and isinstance(n_.body[-1].value, ast.Call):
                dflt = deep_expand(p, n_.body[-1].value, gpm)
                ok = last_attr(dflt.func) == "Permission" and not dflt.args and not dflt.keywords
    ctx.ob("C04.NEAR", c, "the default (no entry applies) is the permissive Permission()", ok,
           f"default of the selection is `{src(dflt) if dflt is not None else None}`, not the permissive Permission()", construct="near:default")


def rule_same(ctx):
    p = ctx.p
    ctx.rule("C04.SAME", "a permission-guarded handler resolves its path in the same atomic section as the permission lookup: in its own body before the "
                         "first suspension point, never inside a deferred worker (the working directory may change at any suspension point)")
    n = 0
    for verb, name, fn in p.handlers():
        if not any(d.name == "PathPermissions" for d in p.decorators(fn)):
            continue
        n += 1
        nested_calls = [c for w in p.nested_functions(fn) for c in ast.walk(w) if isinstance(c, ast.Call) and (dotted(c.func) or "").endswith(".get_paths")]
        ctx.ob("C04.SAME", nested_calls[0] if nested_calls else fn, f"{name}: the deferred worker does not resolve the path again", not nested_calls,
               f"{name}: the path is resolved inside the deferred worker, after the permission was checked for the path as resolved at command time: "
               "a CWD in between makes the transfer operate on a location that was never authorised", construct=f"{name}:resolver in worker")
        late = None
        for ev, out in enum_paths(p, fn):
            suspended = False
            for e in ev:
                node = e[1].iter if e[0] in ("iter", "aiter") else e[1] if e[0] in ("stmt", "branch", "enter") else None
                if node is None or isinstance(node, FuncT):
                    continue
                if suspended and any(isinstance(c, ast.Call) and (dotted(c.func) or "").endswith(".get_paths") for c in walk_self(node)):
                    late = node
                if e[0] == "aiter" or may_suspend_node(p, node, fn):
                    suspended = True
        ctx.ob("C04.SAME", late if late is not None else fn, f"{name}: the handler resolves its path before its first suspension point", late is None,
               f"{name}: the handler resolves the path after a suspension point; the working directory may have changed since the permission check",
               construct=f"{name}:resolver after suspension")
    # what a guarded handler stores into the session's path state is the very path its guards resolved (the same wire argument), not a path derived from it
    for verb, name, fn in p.handlers():
        if not any(d.name in ("PathPermissions", "PathConditions") for d in p.decorators(fn)):
            continue
        conn, rest = p.handler_params(fn)

        def guarded_component(v, depth=3):
            """v is a component of get_paths(<session>, <the handler's own wire argument>)"""
            if depth < 0:
                return False
            if isinstance(v, ast.Subscript) and isinstance(v.value, ast.Call):
                c = v.value
                return (dotted(c.func) or "").endswith(".get_paths") and len(c.args) == 2 and isinstance(c.args[1], ast.Name) and c.args[1].id == rest
            if isinstance(v, ast.Name):
                ds = local_defs(fn, v.id)
                if not ds:
                    return False
                for kind, node, extra in ds:
                    if kind == "unpack" and isinstance(node, ast.Call) and (dotted(node.func) or "").endswith(".get_paths") and len(node.args) == 2 \
                            and isinstance(node.args[1], ast.Name) and node.args[1].id == rest:
                        continue
                    if kind == "assign" and isinstance(node, ast.expr) and guarded_component(node, depth - 1):
                        continue
                    return False
                return True
            return False
        for st in walk_no_nested(fn):
            if isinstance(st, ast.Assign):
                for t in st.targets:
                    if isinstance(t, ast.Attribute) and isinstance(t.value, ast.Name) and t.value.id == conn and t.attr in ("current_directory", "rename_from"):
                        ok = guarded_component(st.value)
                        ctx.ob("C04.SAME", st, f"{name}: session.{t.attr} receives the path the guards checked", ok,
                               f"{name}: session.{t.attr} is set to `{src(st.value)[:50]}`, which is not the path the handler's guards resolved and checked "
                               f"(existence / kind / permission were decided for the wire argument `{rest}`): the command acts on a location that was never authorised",
                               construct=f"{name}:acts on {src(st.value)[:40]}")
    # the wrapper itself: no suspension point between its resolution and the call of the wrapped handler other than the lookup
    w = p.wrapper_of("PathPermissions")
    susp = [a for a in walk_no_nested(w) if isinstance(a, ast.Await) and may_suspend_await(p, a, w)
            and not (isinstance(a.value, ast.Call) and isinstance(a.value.func, ast.Name) and a.value.func.id == p.wrapped_param("PathPermissions"))]
    ctx.ob("C04.SAME", susp[0] if susp else w, "the permission wrapper does not suspend between resolving the path and calling the handler", not susp,
           "the permission wrapper may suspend between its path resolution and the handler call", construct="wrapper:suspends")
    if n < 10:
        ctx.floor_errors.append(f"rule=C04.SAME: {n} guarded handlers (floor 10)")


def rule_alias(ctx):
    from .c02 import rule_res
    ctx.rule("C04.ALIAS", "the virtual path handed to the permission lookup is the folded absolute form: every spelling of a location ('..' detours, '//', relative forms) gives "
                          "the same path and therefore the same entry (shared with C02.RES)")
    ctx.borrow(rule_res, {"C02.RES": "C04.ALIAS"})


def rule_table_container(ctx):
    p = ctx.p
    ctx.rule("C04.TABLE", "the permission table a User keeps is the whole configured list as a re-iterable sequence, and a Permission is an ordinary object "
                          "(no truthiness / equality of its own that a filter or a lookup could trip over)")
    ui = p.method("User", "__init__")
    stores = [s_ for s_, t in attr_stores(ui, "permissions", nested=False) if isinstance(s_, ast.Assign)]
    if not stores:
        raise AnalysisError("anchor=User.permissions store not found")
    for st in stores:
        v = deep_expand(p, st.value, ui)
        outer = v
        one_shot = isinstance(outer, ast.GeneratorExp) or (isinstance(outer, ast.Call) and isinstance(outer.func, ast.Name) and outer.func.id in ("reversed", "iter", "map", "filter", "zip", "enumerate"))
        if isinstance(outer, ast.BoolOp):
            one_shot = any(isinstance(x, ast.GeneratorExp) or (isinstance(x, ast.Call) and isinstance(x.func, ast.Name) and x.func.id in ("reversed", "iter", "map", "filter", "zip", "enumerate"))
                           for x in outer.values)
        ctx.ob("C04.TABLE", st, "User.permissions is a list/tuple (every lookup iterates it again)", not one_shot,
               f"User.permissions is the one-shot iterator `{src(v)[:50]}`: the first lookup consumes the table, every later request falls back to the permissive default", construct="table:iterator")
        filtered = [c for c in ast.walk(v) if (isinstance(c, ast.Call) and isinstance(c.func, ast.Name) and c.func.id == "filter") or (isinstance(c, (ast.ListComp, ast.GeneratorExp)) and any(g.ifs for g in c.generators))]
        ctx.ob("C04.TABLE", st, "no configured entry is filtered out of the table", not filtered,
               f"User.permissions drops entries (`{src(filtered[0])[:50] if filtered else ''}`): a path whose nearest entry was dropped is authorised by a farther ancestor or the default",
               construct="table:filtered")
    pc = p.cls("Permission")
    special = [n.name for n in pc.body if isinstance(n, FuncT) and n.name in ("__bool__", "__len__", "__eq__", "__hash__", "__lt__", "__contains__")]
    ctx.ob("C04.TABLE", pc, "Permission defines no truthiness, equality or ordering of its own", not special,
           f"Permission defines {special}: an entry that denies everything can be falsy (and vanish in a filter) or compare equal to another", construct=f"table:Permission {special}")


RULES = [rule_kind, rule_wrapper, rule_near, rule_same, rule_atomic, rule_alias, rule_table_container]
