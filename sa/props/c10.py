"""C10 Connection limits are exact and slots are always returned"""
import ast
from ..model import *
from ..util import *
from ..facts import *
from ..paths import Cfg, evaluated

EXPLANATION = (
    "Typestate of the server slot and the per-user slot. Acquire sites: greeting (ownership flag + acquire() on the "
    "not-locked branch, in one atomic section) and the user manager's get_user (acquire iff state != ERROR) paired "
    "with the session storing the user for exactly the same enum members (finite-table agreement over "
    "{OK, PASSWORD_REQUIRED, ERROR}). Release sites: the dispatcher `finally` (top-level, guarded exactly by the "
    "ownership flag resp. by presence of the session user, not preceded by a suspension point) and the re-login "
    "prefix of USER (notify_logout then `del user` with no suspension point in between; no other handler forgets "
    "the user). Who-may-call: the server counter is touched only by greeting and the dispatcher cleanup, the per-user "
    "counters only inside the user manager, notify_logout only at the two release sites. The counter class keeps "
    "locked() <=> value == 0, decrements in acquire, increments in release."
)
NOT_DECIDED = [
    "the counting invariant over concurrent histories (follows from pairing + atomic sections only under the single-threaded event-loop assumption)",
    "custom user managers whose hooks raise or suspend",
    "exactness of the 421/530 reply text",
]


def slot_attr(p):
    init = p.method("Server", "__init__")
    for n in walk_no_nested(init):
        if isinstance(n, ast.Assign) and isinstance(n.value, ast.Call) and last_attr(n.value.func) == "AvailableConnections" and isinstance(n.targets[0], ast.Attribute):
            return n.targets[0].attr
    raise AnalysisError("anchor=server slot counter (self.<attr> = AvailableConnections(...)) not found")


def is_slot_call(c, slot, attrs=("acquire", "release")):
    return isinstance(c, ast.Call) and isinstance(c.func, ast.Attribute) and c.func.attr in attrs and src(c.func.value) == f"self.{slot}"


def user_field(p):
    return field_names(p)["user_required"]


def rule_who(ctx):
    p = ctx.p
    ctx.rule("C10.WHO", "server counter touched only by greeting and the dispatcher cleanup; per-user counters only in the user manager; notify_logout only at the two release sites")
    slot = slot_attr(p)
    d = p.dispatcher()
    table, _ = p.command_table()
    ms = p.methods("Server")
    for name, m in ms.items():
        for c in ast.walk(m):
            if is_slot_call(c, slot):
                ctx.ob("C10.WHO", c, f"server slot `{src(c)}` in {name}", name in ("greeting", d.name),
                       f"server slot counter changed in {name} (only greeting acquires and the dispatcher cleanup releases)", construct=f"{name}:{src(c)}")
            if isinstance(c, ast.Attribute) and c.attr == "value" and isinstance(c.ctx, (ast.Store,)) and last_attr(c.value) == slot:
                ctx.fail("C10.WHO", c, f"server slot counter value written directly in {name}", construct=f"{name}:{slot}.value store")
            if isinstance(c, ast.Call) and is_method_call(c, "notify_logout"):
                ctx.ob("C10.WHO", c, f"notify_logout called in {name}", name in (table.get("user"), d.name),
                       f"notify_logout called in {name}: a user slot is released outside USER re-login / session end", construct=f"{name}:notify_logout")
            if isinstance(c, ast.Call) and isinstance(c.func, ast.Attribute) and c.func.attr in ("acquire", "release") and "user_manager" in src(c.func.value):
                ctx.fail("C10.WHO", c, "per-user counter touched outside the user manager", construct=f"{name}:{src(c)[:60]}")
    for fn in p.methods("MemoryUserManager").values():
        for c in ast.walk(fn):
            if isinstance(c, ast.Call) and isinstance(c.func, ast.Attribute) and c.func.attr in ("acquire", "release"):
                allowed = {"get_user": "acquire", "notify_logout": "release"}
                ctx.ob("C10.WHO", c, f"user manager: `{c.func.attr}` in {fn.name}", allowed.get(fn.name) == c.func.attr,
                       f"user manager: per-user counter `{c.func.attr}` in {fn.name} (get_user acquires, notify_logout releases, nothing else)",
                       construct=f"MemoryUserManager.{fn.name}:{c.func.attr}")
    ctx.floor("C10.WHO", 6)


def rule_finally(ctx):
    p = ctx.p
    ctx.rule("C10.FINALLY", "both releases are top-level steps of the dispatcher `finally`, guarded exactly by ownership, not preceded by a suspension point")
    slot = slot_attr(p)
    userf = user_field(p)
    d, tr = p.dispatcher_try()
    conn = p.session_var()
    fin = tr.finalbody
    # flag name: the field set next to acquire() in greeting
    g = p.method("Server", "greeting")
    gconn = p.handler_params(g)[0]
    flags = [t.attr for n in walk_no_nested(g) if isinstance(n, ast.Assign) and isinstance(n.value, ast.Constant) and n.value.value is True
             for t in n.targets if isinstance(t, ast.Attribute) and isinstance(t.value, ast.Name) and t.value.id == gconn]
    flag = flags[0] if flags else None
    rel = None
    for i, s in enumerate(fin):
        if isinstance(s, ast.If) and any(is_slot_call(c, slot, ("release",)) for x in s.body for c in walk_self(x)):
            rel = (i, s)
    ok = rel is not None and flag is not None and src(rel[1].test) == f"{conn}.{flag}" and not rel[1].orelse
    why = "server slot release is not a top-level step of the dispatcher cleanup guarded by the ownership flag"
    if rel is not None and not ok:
        why = f"slot release guarded by `{src(rel[1].test)}`, not exactly by the ownership flag"
    ctx.ob("C10.FINALLY", rel[1] if rel else tr, "server slot: `if <conn>.<flag>: release()` at the top level of the finally", ok, why,
           construct="finally:slot release" + (":" + src(rel[1].test) if rel else " not top-level"), function=p.qualname(d))
    nl = None
    for i, s in enumerate(fin):
        if isinstance(s, ast.If) and any(isinstance(c, ast.Call) and is_method_call(c, "notify_logout") for x in s.body for c in walk_self(x)):
            nl = (i, s)
    ok = nl is not None and is_done(nl[1].test, conn, userf)
    ctx.ob("C10.FINALLY", nl[1] if nl else tr, "user slot: `if <conn>.future.user.done(): notify_logout(<conn>.user)` at the top level of the finally", ok,
           "user slot release (notify_logout) is not a top-level step of the dispatcher cleanup guarded exactly by presence of the session user",
           construct="finally:notify" + (":" + src(nl[1].test) if nl else " not top-level"), function=p.qualname(d))
    if nl is not None:
        calls = [c for x in nl[1].body for c in walk_self(x) if isinstance(c, ast.Call) and is_method_call(c, "notify_logout")]
        arg_ok = all(len(c.args) == 1 and src(c.args[0]) == f"{conn}.{userf}" for c in calls)
        ctx.ob("C10.FINALLY", nl[1], "the released user is the session's user", arg_ok, "notify_logout is not called with the session's user", construct="finally:notify arg")
    # nothing that may suspend / raise before the two releases
    last = max([x[0] for x in (rel, nl) if x is not None], default=-1)
    bad = None
    for s in fin[:last + 1]:
        if may_suspend_node(p, s, d):
            bad = s
            break
    ctx.ob("C10.FINALLY", bad if bad is not None else tr, "no suspension point precedes the slot releases in the cleanup", bad is None,
           "the cleanup may suspend before the slots are released: a cancellation (server shutdown) or an exception at that await leaks the slots",
           construct="finally:await before slot release", function=p.qualname(d))
    # the notify task is awaited (collected into the awaited list) or awaited after everything else
    if nl is not None:
        st = [x for x in nl[1].body]
        created = any(isinstance(c, ast.Call) and (dotted(c.func) or "").endswith("create_task") for x in st for c in walk_self(x))
        direct = any(isinstance(a, ast.Await) and isinstance(a.value, ast.Call) and is_method_call(a.value, "notify_logout") for x in st for a in walk_self(x))
        if direct:
            after = fin[nl[0] + 1:]
            left = [s for s in after if any(isinstance(c, ast.Call) and (is_slot_call(c, slot) or is_method_call(c, "pop", "connections")) for c in ast.walk(s))]
            ctx.ob("C10.FINALLY", nl[1], "an awaited notify_logout is the last release step", not left,
                   "notify_logout is awaited inline before other releases: if the hook raises, suspends or is cancelled the remaining releases are skipped",
                   construct="finally:inline notify before releases", function=p.qualname(d))
        else:
            ctx.ob("C10.FINALLY", nl[1], "notify_logout runs as a task collected for the final wait", created, "notify_logout is neither awaited nor scheduled", construct="finally:notify not scheduled")
    # the try covers every statement after the session can have acquired (task creation of greeting)
    idx_try = d.body.index(tr)
    first_task = next((i for i, s in enumerate(d.body) if any(isinstance(c, ast.Call) and (dotted(c.func) or "").endswith("create_task") for c in walk_self(s))), None)
    bad = None
    if first_task is not None and first_task < idx_try:
        for s in d.body[first_task + 1: idx_try]:
            if any(isinstance(x, ast.Await) for x in walk_self(s)):
                bad = s
    ctx.ob("C10.FINALLY", bad if bad is not None else tr, "no suspension point between the creation of the greeting task and the try/finally", bad is None,
           "a suspension point between task creation and the try/finally can lose the slot", construct="gap before try", function=p.qualname(d))


def is_done(t, conn, field):
    return (isinstance(t, ast.Call) and isinstance(t.func, ast.Attribute) and t.func.attr == "done"
            and isinstance(t.func.value, ast.Attribute) and t.func.value.attr == field and src(t.func.value.value) == f"{conn}.future")


def rule_pair(ctx):
    p = ctx.p
    ctx.rule("C10.PAIR", "flag and counter change in one atomic section on both sides; re-login releases then forgets the user; no other site forgets the user")
    ctx.rule("C10.REFUSE", "refusal paths do not acquire; locked() is the test used before acquire()")
    slot = slot_attr(p)
    userf = user_field(p)
    ms = p.methods("Server")
    table, _ = p.command_table()
    g = ms["greeting"]
    gconn = p.handler_params(g)[0]
    paths = enum_paths(p, g)
    ctx.paths_enumerated += len(paths)
    for ev, out in paths:
        acquired = flagged = False
        suspended_between = False
        locked = None
        for e in ev:
            if e[0] == "branch":
                t, pol = e[1], e[2]
                if isinstance(t, ast.UnaryOp) and isinstance(t.op, ast.Not):
                    t, pol = t.operand, not pol
                for t_, pol_ in flatten_test(p, t, pol, g):   # named conditions (`full = ....locked()`; `if full:`) are expanded
                    if isinstance(t_, ast.Call) and is_method_call(t_, "locked") and src(t_.func.value) == f"self.{slot}":
                        locked = pol_
            for n in ([e[1]] if e[0] in ("stmt", "branch") else []):
                if isinstance(n, FuncT):
                    continue
                if any(is_slot_call(c, slot, ("acquire",)) for c in walk_self(n)):
                    acquired = True
                if isinstance(n, ast.Assign) and any(isinstance(t, ast.Attribute) and isinstance(t.value, ast.Name) and t.value.id == gconn for t in n.targets) \
                        and isinstance(n.value, ast.Constant) and n.value.value is True:
                    flagged = True
                if (acquired != flagged) and may_suspend_node(p, n, g):
                    suspended_between = True
        if out[0] in ("cut",):
            continue
        key = (acquired, flagged, locked, suspended_between, out[0])
        ctx.ob("C10.PAIR", g, f"greeting path (locked={locked}): acquired={acquired}, ownership flag set={flagged}, same atomic section", acquired == flagged and not suspended_between,
               "greeting: the slot is acquired without the ownership flag (or the flag without the slot, or a suspension point lies between them): "
               "the cleanup releases a slot it does not own / never releases it", construct=f"greeting:acquire={acquired},flag={flagged},suspend={suspended_between}")
        if acquired:
            ctx.ob("C10.REFUSE", g, "greeting: acquire only on the not-locked branch", locked is False,
                   "greeting: acquire() is not dominated by `not locked()`: a connection beyond the limit is admitted or the counter underflows", construct=f"greeting:acquire under locked={locked}")
        if locked is True:
            pf = PathFacts(p, g, gconn, ev, out)
            codes = [c for c, _ in pf.replies]
            ctx.ob("C10.REFUSE", g, f"greeting: refusal path replies 421 and ends the session ({codes}, ret={pf.ret})", codes == ["421"] and pf.ret is False and not acquired,
                   f"greeting: the over-limit path replies {codes} / returns {pf.ret!r} / acquires={acquired}", construct=f"greeting:refusal:{codes}:{pf.ret}")
    # USER: notify then del user, atomically, guarded by presence
    u = ms[table["user"]]
    uconn, urest = p.handler_params(u)
    paths = enum_paths(p, u)
    ctx.paths_enumerated += len(paths)
    verdict = {"guard": True, "del": True, "susp": True, "found": False}
    for ev, out in paths:
        notified = False
        for e in ev:
            n = e[1] if e[0] in ("stmt", "branch") else None
            if n is None or isinstance(n, FuncT):
                continue
            if any(isinstance(c, ast.Call) and is_method_call(c, "notify_logout") for c in walk_self(n)):
                notified = True
                verdict["found"] = True
                # guard: some earlier branch tested presence of the user truthy
                login_f = field_names(p)["login_required"]
                pres = any(b[0] == "branch" and b[2] and (is_done(expand(p, b[1], u), uconn, userf)) for b in ev[:ev.index(e)])
                if not pres:
                    verdict["guard"] = False
                call = next(c for c in walk_self(n) if isinstance(c, ast.Call) and is_method_call(c, "notify_logout"))
                arg = call.args[0] if len(call.args) == 1 else None
                if isinstance(arg, ast.Name):   # a local holding the session user on this path: its last assignment before the call
                    for b in reversed(ev[:ev.index(e)]):
                        if b[0] == "stmt" and isinstance(b[1], ast.Assign) and any(isinstance(t, ast.Name) and t.id == arg.id for t in b[1].targets):
                            arg = b[1].value
                            break
                if not (arg is not None and src(arg) == f"{uconn}.{userf}"):
                    verdict["guard"] = False
                for a in [x for x in walk_self(n) if isinstance(x, ast.Await)]:
                    if may_suspend_await(p, a, u):
                        verdict["susp"] = False
                continue
            if notified:
                if isinstance(n, ast.Delete) and any(isinstance(t, ast.Attribute) and t.attr == userf and isinstance(t.value, ast.Name) and t.value.id == uconn for t in n.targets):
                    notified = False
                    continue
                if isinstance(n, ast.Assign) and any(isinstance(t, ast.Attribute) and t.attr == userf and isinstance(t.value, ast.Name) and t.value.id == uconn for t in n.targets):
                    notified = False   # overwritten by the new user: the released one is forgotten just the same
                    continue
                if may_suspend_node(p, n, u):
                    verdict["susp"] = False
        if notified and out[0] not in ("cut", "raise"):
            verdict["del"] = False
    if not verdict["found"]:
        dels = [n for n in walk_no_nested(u) if isinstance(n, ast.Delete) and any(isinstance(t, ast.Attribute) and t.attr == userf for t in n.targets)]
        ctx.ob("C10.PAIR", u, "USER releases the previous user's slot before forgetting the user", not dels,
               "USER forgets the previous user without releasing that user's slot", construct="user:del user without notify")
    else:
        ctx.ob("C10.PAIR", u, "re-login release is guarded by presence of a session user and releases that user", verdict["guard"],
               "re-login release not guarded by presence of a user (or releases a different user)", construct="user:notify guard")
        ctx.ob("C10.PAIR", u, "after the re-login release the session forgets the user on every path", verdict["del"],
               "previous user's slot is released on re-login but the session keeps the user: it will be released a second time at session end",
               construct="user:notify without del user")
        ctx.ob("C10.PAIR", u, "no suspension point between the re-login release and forgetting the user", verdict["susp"],
               "release may suspend before the session forgets the user (a disconnect there releases twice)", construct="user:suspend between notify and del")
    # no other server function forgets or overwrites the session user
    for name, m in ms.items():
        for stmt, tgt in attr_stores(m, userf):
            if isinstance(tgt, ast.Attribute) and isinstance(tgt.value, ast.Attribute) and tgt.value.attr == "future":
                pass
            if name != table["user"]:
                ctx.fail("C10.PAIR", stmt, f"{name} {'forgets' if isinstance(stmt, ast.Delete) else 'sets'} the session user: its slot is never returned / returned twice",
                         construct=f"{name}:{'del' if isinstance(stmt, ast.Delete) else 'store'} {userf}")
    # the flag is never cleared/set elsewhere
    g_flags = {t.attr for n in walk_no_nested(g) if isinstance(n, ast.Assign) for t in n.targets if isinstance(t, ast.Attribute) and isinstance(t.value, ast.Name) and t.value.id == gconn}
    for f_ in g_flags:
        for name, m in ms.items():
            if name == "greeting":
                continue
            for stmt, tgt in attr_stores(m, f_):
                ctx.fail("C10.PAIR", stmt, f"{name} changes the slot ownership flag `{f_}`", construct=f"{name}:store {f_}")
    # session constructor starts with the flag False
    ctor = p.session_ctor()
    for f_ in g_flags:
        kv = session_kwargs(p)
        ok = f_ in kv and isinstance(kv[f_], ast.Constant) and kv[f_].value is False
        ctx.ob("C10.PAIR", ctor, f"the session starts with `{f_}`=False", ok, f"the session does not start with the ownership flag `{f_}` False", construct=f"ctor:{f_}")


def rule_manager(ctx):
    p = ctx.p
    ctx.rule("C10.MGR", "user manager: acquire and release operate on the same counter expression; refusal when locked; counter class invariants")
    ctx.rule("C10.ENUM", "finite-enum agreement: get_user acquires for exactly the states for which USER stores the session user")
    gu = p.method("MemoryUserManager", "get_user")
    nl = p.method("MemoryUserManager", "notify_logout")
    userf = user_field(p)
    acq = [c for c in walk_no_nested(gu) if isinstance(c, ast.Call) and isinstance(c.func, ast.Attribute) and c.func.attr == "acquire"]
    rel = [c for c in walk_no_nested(nl) if isinstance(c, ast.Call) and isinstance(c.func, ast.Attribute) and c.func.attr == "release"]
    acq_t = {src(c.func.value) for c in acq}
    rel_t = {src(c.func.value) for c in rel}
    ctx.ob("C10.MGR", nl, f"acquire on {sorted(acq_t)} is paired with release on {sorted(rel_t)}", bool(rel_t) and acq_t == rel_t,
           f"user manager acquires on {sorted(acq_t)} but releases on {sorted(rel_t) or 'nothing'}", construct="manager:acquire/release pairing")
    uncond = all(not all_guards(p, c, nl) for c in rel) and len(rel) == 1
    ctx.ob("C10.MGR", nl, "notify_logout releases exactly once, unconditionally", uncond, "notify_logout does not release exactly once unconditionally", construct="manager:release conditional")
    # locked() is tested on the same counter and leads to ERROR
    locked_tests = [n for n in walk_no_nested(gu) if isinstance(n, ast.Call) and is_method_call(n, "locked")]
    ok = any(src(n.func.value) in acq_t for n in locked_tests)
    ctx.ob("C10.REFUSE", gu, "get_user tests locked() on the per-user counter it acquires", ok, "get_user never tests locked() on the counter it acquires", construct="manager:locked test")
    # ENUM table
    table, _ = p.command_table()
    u = p.method("Server", table["user"])
    uconn, _ = p.handler_params(u)
    members = ["OK", "PASSWORD_REQUIRED", "ERROR"]
    enum_def = p.cls("AbstractUserManager")
    for n in enum_def.body:
        if isinstance(n, ast.Assign) and isinstance(n.value, ast.Call) and (dotted(n.value.func) or "").endswith("Enum") and len(n.value.args) >= 2 and isinstance(n.value.args[1], ast.Constant):
            members = n.value.args[1].value.replace(",", " ").split()

    def ev_cmp(t, member, var):
        if isinstance(t, ast.Compare) and len(t.ops) == 1 and isinstance(t.left, ast.Name) and t.left.id == var:
            m = src(t.comparators[0]).split(".")[-1]
            if isinstance(t.ops[0], (ast.Eq, ast.Is)):
                return m == member
            if isinstance(t.ops[0], (ast.NotEq, ast.IsNot)):
                return m != member
            if isinstance(t.ops[0], (ast.In, ast.NotIn)) and isinstance(t.comparators[0], (ast.Tuple, ast.List, ast.Set)):
                ms_ = {src(e).split(".")[-1] for e in t.comparators[0].elts}
                return (member in ms_) if isinstance(t.ops[0], ast.In) else (member not in ms_)
        return None

    def holds(conds, member, var):
        for t, pol in conds:
            v = ev_cmp(t, member, var)
            if v is None:
                continue
            if v != pol:
                return False
        return True

    def elif_chain(p_, node, fn):
        """conditions incl. negations of earlier elif arms (conditions_of handles nesting of orelse already)"""
        return flat_conditions(p_, node, fn)
    # state variable in get_user: first element of the returned tuple; in USER: first unpacked from get_user
    rets = [r for r in walk_no_nested(gu) if isinstance(r, ast.Return) and isinstance(r.value, ast.Tuple)]
    svar_g = rets[0].value.elts[0].id if rets and isinstance(rets[0].value.elts[0], ast.Name) else "state"
    svar_u = None
    for n in walk_no_nested(u):
        if isinstance(n, ast.Assign) and isinstance(n.value, ast.Await) and isinstance(n.value.value, ast.Call) and is_method_call(n.value.value, "get_user") \
                and isinstance(n.targets[0], ast.Tuple) and isinstance(n.targets[0].elts[0], ast.Name):
            svar_u = n.targets[0].elts[0].id
    if svar_u is None:
        raise AnalysisError("anchor=state variable of `state, user, info = await get_user(...)` not found in USER")
    stores = [s for s, t in attr_stores(u, userf, nested=False) if isinstance(s, ast.Assign)]
    for m in members:
        a = any(holds(elif_chain(p, c, gu), m, svar_g) for c in acq)
        st = any(holds(elif_chain(p, s, u), m, svar_u) for s in stores)
        ctx.ob("C10.ENUM", gu, f"state {m}: user slot acquired={a}, session stores the user={st}", a == st,
               f"for get_user state {m}: user slot acquired={a} but session stores the user={st} (slot leaked or released without having been taken)",
               construct=f"enum:{m}:{a}/{st}")
    # ERROR states in get_user: assignments of ERROR dominated by user None or locked
    # counter class
    ac = p.cls("AvailableConnections")
    am = p.methods("AvailableConnections")
    for name, op in (("acquire", ast.Sub), ("release", ast.Add)):
        fn = am.get(name)
        ok = fn is not None and any(isinstance(n, ast.AugAssign) and isinstance(n.op, op) and last_attr(n.target) == "value"
                                    and isinstance(n.value, ast.Constant) and n.value.value == 1 for n in walk_no_nested(fn))
        ctx.ob("C10.MGR", fn if fn is not None else ac, f"AvailableConnections.{name} changes the value by exactly one in the right direction", ok,
               f"AvailableConnections.{name} does not {'decrement' if name == 'acquire' else 'increment'} the value by one", construct=f"AvailableConnections.{name}")
    lk = am.get("locked")
    ok = lk is not None and any(isinstance(r, ast.Return) and isinstance(r.value, ast.Compare) and last_attr(r.value.left) == "value"
                                and isinstance(r.value.ops[0], ast.Eq) and isinstance(r.value.comparators[0], ast.Constant) and r.value.comparators[0].value == 0
                                for r in walk_no_nested(lk))
    ctx.ob("C10.MGR", lk if lk is not None else ac, "AvailableConnections.locked() <=> value == 0", ok, "locked() is no longer `value == 0`", construct="AvailableConnections.locked")


def rule_timeout_ends(ctx):
    from .c16 import rule_end
    ctx.rule("C10.TIMEOUT", "a session whose peer stalls is ended by the timeout (and so gives its slots back): the dispatcher does not swallow TimeoutError (shared with C16.END)")
    ctx.borrow(rule_end, {"C16.END": "C10.TIMEOUT"})


def rule_borrowed_r4(ctx):
    from .c14 import rule_shield
    from .c19 import rule_noswallow
    p = ctx.p
    ctx.rule("C10.SHIELD", "the guard never cancels the session's presence futures: a cancelled future makes the dispatcher's clean-up raise before the slots are given back (shared with C14.SHIELD)")
    ctx.borrow(rule_shield, {"C14.SHIELD": "C10.SHIELD"})
    w = p.wrapper_of("ConnectionConditions")
    canc = [c for c in walk_no_nested(w) if isinstance(c, ast.Call) and is_method_call(c, "cancel")]
    ctx.ob("C10.SHIELD", canc[0] if canc else w, "the guard cancels nothing", not canc,
           f"the guard calls `{src(canc[0])[:40] if canc else ''}`: cancelling the gather cancels the session futures it was built from; `connection.passive_server` then raises "
           "CancelledError inside the dispatcher's finally and the connection/user slots are never released", construct="guard:cancels")
    ctx.rule("C10.READER", "a session always has a command reader (or ends): parse_command returns a pair on every normal path, so the dispatcher re-arms the read - a session without "
                           "a reader never notices the disconnect and keeps its slots (shared with C19.PAIR)")
    ctx.borrow(rule_noswallow, {"C19.PAIR": "C10.READER"})
    ctx.rule("C10.KEY", "the per-user counters are keyed by the User object's identity: User defines no __eq__/__hash__ of its own (a hash over mutable fields loses the counter "
                        "when a field changes while a session is attached)")
    uc = p.cls("User")
    special = [n.name for n in uc.body if isinstance(n, FuncT) and n.name in ("__eq__", "__hash__")]
    ctx.ob("C10.KEY", uc, "User defines neither __eq__ nor __hash__", not special,
           f"User defines {special}: the counter table of the user manager is keyed by User objects, a key that depends on mutable attributes (password, paths) cannot be found again "
           "after a change - notify_logout raises KeyError and the slot is never returned", construct=f"key:User {special}")


def rule_counter(ctx):
    p = ctx.p
    ctx.rule("C10.COUNTER", "the counter object itself: locked() is `value == 0`; acquire() takes one and refuses to go below zero, release() gives one back and refuses to exceed "
                            "the configured maximum (an unbalanced caller fails loudly instead of silently raising the limit)")
    ms = p.methods("AvailableConnections")
    lk = ms.get("locked")
    rets = [r.value for r in walk_no_nested(lk) if isinstance(r, ast.Return) and r.value is not None] if lk is not None else []
    ok = len(rets) == 1 and isinstance(rets[0], ast.Compare) and isinstance(rets[0].ops[0], ast.Eq) and {src(rets[0].left), src(rets[0].comparators[0])} == {"self.value", "0"}
    ctx.ob("C10.COUNTER", lk if lk is not None else p.cls("AvailableConnections"), "locked() is self.value == 0", ok, "AvailableConnections.locked is not `self.value == 0`", construct="counter:locked")
    for name, op, bound_ok in (("acquire", ast.Sub, lambda t: isinstance(t.ops[0], ast.Lt) and src(t.comparators[0]) == "0"),
                               ("release", ast.Add, lambda t: isinstance(t.ops[0], ast.Gt) and src(t.comparators[0]) == "self.maximum_value")):
        fn = ms.get(name)
        if fn is None:
            ctx.fail("C10.COUNTER", p.cls("AvailableConnections"), f"AvailableConnections.{name} missing", construct=f"counter:{name}:missing")
            continue
        steps = [n for n in walk_no_nested(fn) if isinstance(n, ast.AugAssign) and src(n.target) == "self.value" and isinstance(n.op, op) and isinstance(n.value, ast.Constant) and n.value.value == 1]
        ctx.ob("C10.COUNTER", fn, f"{name}() moves the counter by exactly one", len(steps) == 1, f"AvailableConnections.{name} does not move the counter by exactly one", construct=f"counter:{name}:step")
        raises = [r for r in walk_no_nested(fn) if isinstance(r, ast.Raise)]
        ok = False
        for r in raises:
            for t, pol in all_guards(p, r, fn):
                if pol and isinstance(t, ast.Compare) and len(t.ops) == 1 and src(t.left) == "self.value" and bound_ok(t):
                    ok = True
        ctx.ob("C10.COUNTER", fn, f"{name}() raises when the counter leaves its bounds", ok,
               f"AvailableConnections.{name} no longer refuses to cross its bound: an unbalanced acquire/release silently moves the limit instead of failing", construct=f"counter:{name}:bound")


def rule_borrowed_r6(ctx):
    from .c03 import rule_drop
    from .c12 import rule_join
    ctx.rule("C10.DROP", "a repeated USER gives the old slot back and forgets the old user BEFORE it asks for a new slot: a session re-logging in as the user whose last slot it "
                         "holds is not refused, and a session that ends during the lookup does not release twice (shared with C03.DROP)")
    ctx.borrow(rule_drop, {"C03.DROP": "C10.DROP"})
    ctx.rule("C10.JOIN", "a session that ends always reaches the clean-up that returns its slots: the wait for the reply queue cannot hang on a reply that could not be written "
                         "(shared with C12.JOIN)")
    ctx.borrow(rule_join, {"C12.JOIN": "C10.JOIN"})
    from .c12 import rule_close_cannot_fail
    ctx.rule("C10.NOFAIL", "the clean-up reaches the slot releases: the stream close() that precedes them cannot raise (shared with C12.NOFAIL)")
    ctx.borrow(rule_close_cannot_fail, {"C12.NOFAIL": "C10.NOFAIL"})


RULES = [rule_who, rule_finally, rule_pair, rule_manager, rule_timeout_ends, rule_borrowed_r4, rule_counter, rule_borrowed_r6]
