"""C11 The passive data-port pool neither loses nor duplicates ports"""
import ast
from ..model import *
from ..util import *
from ..paths import Cfg, evaluated
from ..facts import PathFacts

EXPLANATION = (
    "Static typestate analysis of the passive-port token. The pool attribute is located by role (the queue built in "
    "Server.__init__ from data_ports); the taker is the function calling get_nowait() on it. Every acyclic path "
    "(loops unrolled twice) through the taker is enumerated with exception edges: a statement that awaits may raise "
    "CancelledError/OSError/any Exception, get_nowait may raise QueueEmpty, explicit raises are followed through the "
    "resolved exception hierarchy. On every exit the token must be OWNED (normal return with the port recorded in the "
    "session) or back in the POOL, and never given back twice. The cleanup of the dispatcher must give the recorded "
    "port back iff the listener field is set and the pool exists; only __init__, the taker and the dispatcher cleanup "
    "touch the pool; exhaustion is answered 421 + session end in every handler that starts a listener."
)
NOT_DECIDED = [
    "multiset equality pool + bound ports == configured ports over whole histories",
    "what asyncio.start_server does with a half-open listener when it is itself cancelled after binding",
    "concurrent interleavings (atomicity between awaits is assumed from the single-threaded event loop)",
]


def pool_attr(p):
    init = p.method("Server", "__init__")
    for n in ast.walk(init):
        if isinstance(n, ast.Assign) and isinstance(n.value, ast.Call) and (dotted(n.value.func) or "").endswith("Queue") \
                and isinstance(n.targets[0], ast.Attribute) and src(n.targets[0].value) == "self":
            return n.targets[0].attr
    raise AnalysisError("anchor=port pool (self.<attr> = asyncio.<...>Queue() in Server.__init__) not found")


def pool_call(n, pool, attrs):
    return any(isinstance(c, ast.Call) and isinstance(c.func, ast.Attribute) and c.func.attr in attrs
               and last_attr(c.func.value) == pool for c in walk_self(n))


def taker(p, pool):
    fns = [m for m in p.methods("Server").values() if m.name != "__init__" and pool_call_deep(m, pool, ("get_nowait", "get"))]
    if len(fns) != 1:
        raise AnalysisError(f"anchor=port taker: {len(fns)} functions take from the pool (expected 1)")
    return fns[0]


def pool_call_deep(fn, pool, attrs):
    return any(isinstance(c, ast.Call) and isinstance(c.func, ast.Attribute) and c.func.attr in attrs
               and last_attr(c.func.value) == pool for c in ast.walk(fn))


def port_field(p, fn, pool):
    """session field in which the taker records the taken port: the store `<connection>.<f> = <port var>`
    where <port var> is unpacked from get_nowait()"""
    port_vars = set()
    for n in walk_no_nested(fn):
        if isinstance(n, ast.Assign) and pool_call(n.value, pool, ("get_nowait", "get")):
            for t in assign_targets(n):
                if isinstance(t, ast.Name):
                    port_vars.add(t.id)
    conn = [a.arg for a in fn.args.args][1] if len(fn.args.args) > 1 else None
    for n in walk_no_nested(fn):
        if isinstance(n, ast.Assign) and isinstance(n.value, ast.Name) and n.value.id in port_vars:
            for t in n.targets:
                if isinstance(t, ast.Attribute) and isinstance(t.value, ast.Name) and t.value.id == conn:
                    return t.attr, port_vars
    return None, port_vars


def rule_token(ctx):
    p = ctx.p
    ctx.rule("C11.TOKEN", "typestate POOL->TAKEN->OWNED|POOL of the port taken by get_nowait(), over all exits incl. cancellation at every await")
    ctx.rule("C11.HAND", "hand-over = normal return with the port recorded in the session; the dispatcher cleanup gives it back")
    pool = pool_attr(p)
    fn = taker(p, pool)
    field, port_vars = port_field(p, fn, pool)

    def may_raise(node):
        if isinstance(node, (tuple, ast.expr)) or isinstance(node, FuncT):
            return []
        out = []
        if any(isinstance(x, ast.Await) for x in walk_self(node)):
            out += ["CancelledError", "OSError", "Exception"]
        if pool_call(node, pool, ("get_nowait",)):
            out += ["QueueEmpty"]
        return out
    unroll = 3 if ctx.tier == "thorough" else 2
    try:
        paths = Cfg(may_raise, p.issub, unroll=unroll, maxpaths=200000).seq(fn.body)
    except RuntimeError as e:
        raise AnalysisError(f"path explosion in {p.qualname(fn)}: {e}")
    ctx.paths_enumerated += len(paths)
    exits = {}
    for ev, out in paths:
        state = "POOL"
        recorded = False
        took = False
        double = None
        for e in ev:
            if e[0] != "stmt":
                continue
            n = e[1]
            if pool_call(n, pool, ("get_nowait", "get")):
                state, recorded, took = "TAKEN", False, True
            elif pool_call(n, pool, ("put_nowait", "put")):
                if state != "TAKEN" and took:
                    double = n
                state = "POOL"
            elif field and isinstance(n, ast.Assign) and any(isinstance(t, ast.Attribute) and t.attr == field for t in n.targets) \
                    and isinstance(n.value, ast.Name) and n.value.id in port_vars:
                recorded = True
        if out[0] == "cut":
            continue
        excs = [e for e in ev if e[0] == "exc"]
        where = excs[-1][2] if (out[0] == "raise" and excs) else fn
        exit_ = f"raise {out[1]}" if out[0] == "raise" else out[0]
        where_txt = src(where)[:60] if isinstance(where, ast.AST) and where is not fn else "end"
        key = (exit_, where_txt)
        verdict = exits.setdefault(key, {"leak": None, "double": None, "norecord": None, "where": where})
        if double is not None:
            verdict["double"] = double
        if state == "TAKEN":
            if out[0] in ("return", "fall"):
                if not recorded:
                    verdict["norecord"] = True
            else:
                verdict["leak"] = True
    if not exits:
        raise AnalysisError("C11.TOKEN: no exit of the taker was reached")
    for (exit_, where_txt), v in sorted(exits.items()):
        where = v["where"]
        ctx.ob("C11.TOKEN", where if isinstance(where, ast.AST) else fn,
               f"exit `{exit_}` at `{where_txt}`: token is OWNED or back in the POOL", not v["leak"],
               f"port taken from the pool is neither handed to the session nor given back when the function leaves by `{exit_}`",
               construct=f"leak:{exit_}@{where_txt}", function=p.qualname(fn))
        if v["double"] is not None:
            ctx.fail("C11.TOKEN", v["double"], "a port is given back to the pool twice (or without having been taken) on some path",
                     construct="double give-back:" + src(v["double"])[:80], function=p.qualname(fn))
        if exit_ in ("return", "fall"):
            ctx.ob("C11.HAND", fn, f"exit `{exit_}`: the taken port is recorded in the session before the listener is returned",
                   not v["norecord"],
                   "listener returned without recording its port in the session: the cleanup cannot give it back",
                   construct="return without recording the port", function=p.qualname(fn))
    ctx.floor("C11.TOKEN", 5, "exits")
    # the listener is started by awaiting asyncio.start_server directly: a cancellation of the taker must cancel the bind itself
    starts = [x for x in walk_no_nested(fn) if isinstance(x, ast.Call) and (dotted(x.func) or "").endswith("start_server")]
    for x in starts:
        par = p.parent.get(x)
        direct = isinstance(par, ast.Await)
        if not direct and isinstance(par, ast.Assign) and isinstance(par.targets[0], ast.Name):   # coro = start_server(...); await coro
            nm = par.targets[0].id
            direct = any(isinstance(a, ast.Await) and isinstance(a.value, ast.Name) and a.value.id == nm for a in walk_no_nested(fn))
        if not direct:   # a helper coroutine of the same class that awaits it directly
            direct = False
        ctx.ob("C11.TOKEN", x, "the listener start is awaited directly (not shielded / not detached into a task)", direct,
               f"`{src(par)[:70]}`: the bind is shielded or detached from the taker, so when the session ends during start-up the port goes back to the pool while the "
               "listener still comes up - the port is both pooled and bound", construct="start_server not awaited directly", function=p.qualname(fn))
    if field is None:
        ctx.fail("C11.HAND", fn, "the taken port is never recorded in a session field", construct="no hand-over store")
        return
    # cleanup: put back iff listener field done and pool exists
    d, tr = p.dispatcher_try()
    conn = p.session_var()
    puts = [c for s in tr.finalbody for c in ast.walk(s) if isinstance(c, ast.Call) and isinstance(c.func, ast.Attribute)
            and c.func.attr in ("put_nowait",) and last_attr(c.func.value) == pool]
    listener_fields = listener_field_names(p, fn)
    ok = False
    for c in puts:
        conds = flat_conditions(p, c, d)
        has_listener = any(pol and is_done_test(t, conn, listener_fields) for t, pol in conds)
        has_pool = any(is_pool_present(t, pol, pool) for t, pol in conds)
        arg_ok = False
        for a in c.args:
            for x in ast.walk(a):
                cands = [x]
                if isinstance(x, ast.Name):  # nearest preceding definition in the same block, else any definition
                    blk = p.parent.get(p.enclosing_stmt(c))
                    sibs = [s_ for s_ in getattr(blk, "body", []) if isinstance(s_, ast.Assign) and s_.lineno < c.lineno
                            and any(isinstance(t, ast.Name) and t.id == x.id for t in s_.targets)]
                    cands = [sibs[-1].value] if sibs else [v for k, v, _ in local_defs(d, x.id) if k == "assign"]
                if any(isinstance(y, ast.Attribute) and y.attr == field for e in cands for y in ast.walk(e)):
                    arg_ok = True
        extra = [src(t) for t, pol in conds if not (pol and is_done_test(t, conn, listener_fields)) and not is_pool_present(t, pol, pool)
                 and not is_loop_open_test(t)]
        if has_listener and has_pool and arg_ok and not extra:
            ok = True
    ctx.ob("C11.HAND", tr, "dispatcher cleanup returns the recorded port to the pool, guarded only by listener presence and pool existence", ok,
           "dispatcher cleanup does not return the session's passive port to the pool (guarded by listener presence and pool existence only)",
           construct="finally:no put-back", function=p.qualname(d))
    # the session never forgets its listener without giving the recorded port back (the cleanup's give-back is keyed on the listener's presence)
    for x in ast.walk(p.trees["server.py"]):
        if isinstance(x, ast.Delete) and any(isinstance(t, ast.Attribute) and t.attr in listener_fields for t in x.targets):
            owner = p.enclosing_function(x)
            gives = owner is not None and any(isinstance(c_, ast.Call) and isinstance(c_.func, ast.Attribute) and c_.func.attr == "put_nowait" and last_attr(c_.func.value) == pool
                                               for c_ in walk_no_nested(owner))
            ctx.ob("C11.HAND", x, f"{p.fn_of(x)}: forgetting the listener is paired with giving its port back", gives,
                   f"{p.fn_of(x)} drops the session's passive listener (`{src(x)}`) without returning the recorded port to the pool: the cleanup only gives a port back "
                   "while the listener field is present, so the port is lost for good", construct=f"{p.fn_of(x)}:listener dropped without put-back")
    # callers store the listener without a suspension point in between
    for h in [m for m in p.methods("Server").values() if any(is_self_call(c, {fn.name}) for c in ast.walk(m)) and m is not fn]:
        stores = []
        for n in walk_no_nested(h):
            if isinstance(n, ast.Assign) and isinstance(n.value, ast.Await):
                v = n.value.value
                v = expand_in(p, v, h)
                if is_self_call(v, {fn.name}):
                    stores.append(n)
        ok = bool(stores) and all(isinstance(s.targets[0], ast.Attribute) and s.targets[0].attr in listener_fields | {"passive_server"} for s in stores)
        ctx.ob("C11.HAND", h, f"{h.name}: the awaited listener is stored directly into the session (no suspension point between return and store)", ok,
               f"{h.name}: the listener returned by {fn.name} is not stored straight into the session field; a cancellation in between loses listener and port",
               construct=f"{h.name}:listener store")


def expand_in(p, e, fn):
    for _ in range(4):
        if isinstance(e, ast.Name):
            d = unique_def(fn, e.id)
            if d is None:
                break
            e = d
        else:
            break
    return e


def listener_field_names(p, taker_fn):
    out = set()
    for m in p.methods("Server").values():
        for n in walk_no_nested(m):
            if isinstance(n, ast.Assign) and isinstance(n.value, ast.Await) and isinstance(n.targets[0], ast.Attribute):
                v = expand_in(p, n.value.value, m)
                if is_self_call(v, {taker_fn.name}):
                    out.add(n.targets[0].attr)
    return out


def is_done_test(t, conn, fields):
    """<conn>.future.<field>.done()"""
    return (isinstance(t, ast.Call) and isinstance(t.func, ast.Attribute) and t.func.attr == "done"
            and isinstance(t.func.value, ast.Attribute) and t.func.value.attr in fields
            and src(t.func.value.value) == f"{conn}.future")


def is_pool_present(t, pol, pool):
    if isinstance(t, ast.Compare) and len(t.ops) == 1 and last_attr(t.left) == pool and isinstance(t.comparators[0], ast.Constant) and t.comparators[0].value is None:
        return (isinstance(t.ops[0], ast.IsNot) and pol) or (isinstance(t.ops[0], ast.Is) and not pol)
    if last_attr(t) == pool and pol:
        return True
    return False


def is_loop_open_test(t):
    return isinstance(t, ast.Call) and isinstance(t.func, ast.Attribute) and t.func.attr == "is_closed"


def rule_who(ctx):
    p = ctx.p
    ctx.rule("C11.WHO", "only __init__, the taker and the dispatcher touch the port pool")
    pool = pool_attr(p)
    fn = taker(p, pool)
    d = p.dispatcher()
    allowed = {"__init__", fn.name, d.name}
    for mod in ("server.py",):
        for n in ast.walk(p.trees[mod]):
            if isinstance(n, ast.Attribute) and n.attr == pool:
                par = p.parent.get(n)
                owner = p.enclosing_function(n)
                oname = owner.name if owner is not None else "<module>"
                touching = isinstance(par, ast.Attribute) and par.attr in ("put_nowait", "get_nowait", "put", "get", "task_done", "_queue", "_put", "_get") \
                    or (isinstance(n.ctx, (ast.Store, ast.Del)))
                if not touching:
                    continue
                top = owner
                while top is not None and p.enclosing_function(top) is not None:
                    top = p.enclosing_function(top)
                tname = top.name if top is not None else oname
                ctx.ob("C11.WHO", n, f"pool access `{src(par) if isinstance(par, ast.Attribute) else src(n)}` in {tname}", tname in allowed,
                       f"port pool touched in {tname} (only {sorted(allowed)} may)", construct=f"{tname}:{src(par)[:60]}")
    ctx.floor("C11.WHO", 4, "pool accesses")


def rule_421(ctx):
    p = ctx.p
    ctx.rule("C11.421", "every handler that starts a passive listener answers pool exhaustion with 421 and ends the session")
    pool = pool_attr(p)
    fn = taker(p, pool)
    # the exhaustion class: what the taker raises explicitly
    raised = {exc_name(n.exc) for n in walk_no_nested(fn) if isinstance(n, ast.Raise) and n.exc is not None}
    exhaustion = {c for c in raised if c in p._h and "errors.py" in p.trees and c not in BUILTIN_H}
    if not exhaustion:
        raise AnalysisError("C11.421: the taker raises no exhaustion error class of errors.py")
    callers = [m for m in p.methods("Server").values() if m is not fn and any(is_self_call(c, {fn.name}) for c in ast.walk(m))]
    for h in callers:
        conn = p.handler_params(h)[0]
        good = False
        seen_exc = False
        all_ok = True
        for ev, out in enum_paths(p, h):
            hit = [e for e in ev if e[0] == "exc" and isinstance(e[1], str) and any(p.issub(c, e[1]) or p.issub(e[1], c) for c in exhaustion)]
            if not hit or out[0] == "cut":
                continue
            pf = PathFacts(p, h, conn, ev, out)
            if pf.infeasible:
                continue
            seen_exc = True
            # replies emitted after the exception was caught
            idx = ev.index(hit[0])
            after = PathFacts(p, h, conn, ev[idx:], out)
            codes = [c_ for c_, _n in after.replies]
            if not (codes == ["421"] and out[0] == "return" and pf.ret is False):
                all_ok = False
        good = seen_exc and all_ok
        ctx.ob("C11.421", h, f"{h.name}: exhaustion of the port pool ({sorted(exhaustion)}) is answered with exactly one 421 and ends the session", good,
               f"{h.name}: pool exhaustion is not answered with 421 + session end", construct=f"{h.name}:no 421")
    ctx.floor("C11.421", 2, "listener-starting handlers")
    # the class must be convertible by the taker's own give-back handlers (hierarchy), checked by TOKEN through issub


def rule_queue_kind(ctx):
    p = ctx.p
    ctx.rule("C11.QUEUE", "the port pool is a priority queue of (retry priority, port): a port put back after EADDRINUSE with a lower priority comes out AFTER the untried ones "
                          "(a LIFO/FIFO hands the same busy port straight back and the 'already viewed' test turns it into 421 while free ports remain)")
    pool = pool_attr(p)
    init = p.method("Server", "__init__")
    ctors = [n.value for n in walk_no_nested(init) if isinstance(n, ast.Assign) and any(isinstance(t, ast.Attribute) and t.attr == pool for t in n.targets) and isinstance(n.value, ast.Call)]
    if not ctors:
        raise AnalysisError("anchor=construction of the port pool in Server.__init__ not found")
    for c in ctors:
        kind = (dotted(c.func) or "").split(".")[-1]
        ctx.ob("C11.QUEUE", c, f"the pool is an asyncio.{kind}", kind == "PriorityQueue",
               f"the port pool is an asyncio.{kind}, not a PriorityQueue: the (priority, port) pairs no longer order the retries - a busy port that was put back is handed out again "
               "at once, found 'already viewed' and the session is refused with 421 although free ports remain", construct=f"queue:{kind}")


def rule_borrowed_r4(ctx):
    from .c03 import rule_drop
    ctx.rule("C11.DROP", "a session field that holds a listener is dropped only after close() and give-back: USER (re-login) forgets only the login fields, it does not delete the "
                         "passive listener's future (shared with C03.DROP)")
    ctx.borrow(rule_drop, {"C03.DROP": "C11.DROP"})


def rule_borrowed_r6(ctx):
    from .c12 import rule_fields
    ctx.rule("C11.CLEANUP", "the port goes back in the dispatcher's clean-up whatever happens there: the give-back is not preceded by a suspension point of the `finally` that a "
                            "second cancellation (Server.close()) can interrupt (shared with C12.FIELDS)")
    ctx.borrow(rule_fields, {"C12.FIELDS": "C11.CLEANUP"})


RULES = [rule_token, rule_who, rule_421, rule_queue_kind, rule_borrowed_r4, rule_borrowed_r6]
