"""C09 Client tree operations (upload, download, recursive list, remove) are faithful"""
import ast
from ..model import *
from ..util import *
from ..facts import *
from ..paths import Cfg, evaluated

EXPLANATION = (
    "Placement-dependency dataflow: in upload every remote-side target (make_directory, upload_stream, recursive upload) "
    "and in download every local-side target (path_io.mkdir/open, recursive download) must be join-derived from the "
    "(adjusted) destination - destination, destination.parent, destination / <part relative to the source root>; lossy "
    "projections (.name, .parts[i]) and targets independent of destination are violations; the not-write_into adjustment "
    "appends source.name. Recursion passes write_into=True and the block size; the directory walk creates each "
    "sub-directory when visited (empty ones included) and enqueues it; every non-directory goes to the upload branch. "
    "The recursive lister enqueues exactly the entry it returns, only for type dir, joined to the listing it came from, "
    "after the '.'/'..' skip; it finishes each data stream before opening the next; the eager stat fallback consumes the "
    "whole listing. remove recurses into every dir/file child before removing the directory itself. make_directory issues "
    "MKD for every missing ancestor, outermost first, without caching across working-directory changes."
)
NOT_DECIDED = [
    "equality of trees and contents for all shapes (only placement dataflow and traversal order are decided)",
    "behaviour on LIST-fallback servers beyond C07/C08",
    "symlink loops; entries of type other than dir/file",
]


def dest_dep(p, fn, expr, dest="destination", roots=("source",), depth=0):
    """'join' (destination[.parent] / <relative part>), 'lossy:<what>', 'independent', 'mixed'"""
    if depth > 6:
        return "independent"
    names = {x.id for x in ast.walk(expr) if isinstance(x, ast.Name)}
    if dest in names:
        for a in ast.walk(expr):
            if isinstance(a, ast.Attribute) and isinstance(a.value, ast.Name) and a.value.id == dest and a.attr not in ("parent",):
                return "lossy:" + a.attr
            if isinstance(a, ast.Subscript) and dest in {x.id for x in ast.walk(a.value) if isinstance(x, ast.Name)}:
                return "lossy:subscript"
            if isinstance(a, ast.Call) and isinstance(a.func, ast.Attribute) and dest in {x.id for x in ast.walk(a.func.value) if isinstance(x, ast.Name)} \
                    and a.func.attr in ("relative_to", "with_name", "with_suffix", "name", "stem"):
                return "lossy:" + a.func.attr
        return "join"
    res = set()
    for nm in names:
        if nm in ("self", "cls") or nm in roots:
            continue
        ds = [v for k, v, _ in local_defs(fn, nm) if k == "assign"]
        for v in ds:
            res.add(dest_dep(p, fn, v, dest, roots, depth + 1))
    lossy = [r for r in res if r.startswith("lossy")]
    if lossy:
        return lossy[0]
    if res == {"join"}:
        return "join"
    if "join" in res:
        return "mixed"
    return "independent"


def rule_dest(ctx):
    p = ctx.p
    ctx.rule("C09.DEST", "every remote (upload) / local (download) target is join-derived from the adjusted destination")
    cm = p.methods("Client")
    up = cm["upload"]
    n = 0
    for c in walk_no_nested(up):
        if is_self_call(c, {"make_directory", "upload_stream", "upload", "append_stream"}):
            arg = c.args[1] if c.func.attr == "upload" and len(c.args) > 1 else (c.args[0] if c.func.attr != "upload" and c.args else None)
            if arg is None:
                arg = kwarg(c, "destination")
            if arg is None:
                ctx.fail("C09.DEST", c, f"upload: {c.func.attr}() is called without a destination", construct=f"upload:{c.func.attr}:no dest")
                continue
            n += 1
            d = dest_dep(p, up, arg)
            ctx.ob("C09.DEST", c, f"upload: remote target `{src(arg)}` of {c.func.attr}() is {d} w.r.t. destination", d == "join",
                   f"upload: remote target `{src(arg)}` of {c.func.attr}() is {d} with respect to `destination` - files land outside the requested destination "
                   "when it has more than one component or the cwd differs", construct=f"upload:{c.func.attr}({src(arg)}):{d}")
    dn = cm["download"]
    for c in walk_no_nested(dn):
        tgt = None
        if isinstance(c, ast.Call) and isinstance(c.func, ast.Attribute) and src(c.func.value) == "self.path_io" and c.func.attr in ("mkdir", "open") and c.args:
            tgt = c.args[0]
        if is_self_call(c, {"download"}) and len(c.args) > 1:
            tgt = c.args[1]
        if tgt is not None:
            n += 1
            d = dest_dep(p, dn, tgt)
            ctx.ob("C09.DEST", c, f"download: local target `{src(tgt)}` is {d} w.r.t. destination", d == "join",
                   f"download: local target `{src(tgt)}` is {d} with respect to `destination`", construct=f"download:{src(tgt)}:{d}")
    if n < 7:
        ctx.floor_errors.append(f"rule=C09.DEST: {n} target sites (floor 7)")
    # the relative part: relative_to(<the source root>) of the walked entry
    for fn, root in ((up, "source"), (dn, "source")):
        rel = [c for c in walk_no_nested(fn) if isinstance(c, ast.Call) and is_method_call(c, "relative_to")]
        for c in rel:
            ok = [src(a) for a in c.args] == [root]
            ctx.ob("C09.DEST", c, f"{fn.name}: the relative part is taken relative to the source root", ok,
                   f"{fn.name}: the relative part is `{src(c)}`, not relative to `{root}` (one path level too many or too few)", construct=f"{fn.name}:{src(c)}")
    # the not-write_into adjustment: destination = destination / source.name under `if not write_into`
    for fn in (up, dn):
        adj = [n_ for n_ in walk_no_nested(fn) if isinstance(n_, ast.Assign) and isinstance(n_.targets[0], ast.Name) and n_.targets[0].id == "destination"
               and isinstance(n_.value, ast.BinOp) and isinstance(n_.value.op, ast.Div)]
        ok = False
        for a in adj:
            g = all_guards(p, a, fn)
            if src(a.value) == "destination / source.name" and any((not pol) and isinstance(t, ast.Name) and t.id == "write_into" for t, pol in g):
                ok = True
        ctx.ob("C09.DEST", fn, f"{fn.name}: without write_into the destination becomes destination / source.name", ok,
               f"{fn.name}: the documented default placement destination/source-name is not applied exactly when write_into is false", construct=f"{fn.name}:adjust")
        # file branch opens the *source* for reading / the adjusted destination
    # file branches
    ups = [c for c in walk_no_nested(up) if is_self_call(c, {"upload_stream"})]
    opens = [c for c in walk_no_nested(up) if isinstance(c, ast.Call) and is_method_call(c, "open", "path_io")]
    ok = bool(opens) and all(c.args and src(c.args[0]) == "source" and (kwarg(c, "mode", 1) is not None and getattr(kwarg(c, "mode", 1), "value", None) == "rb") for c in opens)
    ctx.ob("C09.DEST", up, "upload (file): the local source is opened 'rb'", ok, "upload does not open the local source file 'rb'", construct="upload:open source")
    dls = [c for c in walk_no_nested(dn) if is_self_call(c, {"download_stream"})]
    ok = bool(dls) and all(c.args and src(c.args[0]) == "source" for c in dls)
    ctx.ob("C09.DEST", dn, "download (file): the remote source is streamed", ok, "download does not stream the remote source", construct="download:stream source")
    opens = [c for c in walk_no_nested(dn) if isinstance(c, ast.Call) and is_method_call(c, "open", "path_io")]
    ok = bool(opens) and all(getattr(kwarg(c, "mode", 1), "value", None) == "wb" for c in opens)
    ctx.ob("C09.DEST", dn, "download (file): the local file is opened 'wb'", ok, "download does not open the local file 'wb' (stale content survives)", construct="download:open mode")


def rule_rec(ctx):
    p = ctx.p
    ctx.rule("C09.REC", "recursion passes write_into=True and block_size; sub-directories are created when visited and enqueued; non-directories are uploaded")
    cm = p.methods("Client")
    up, dn = cm["upload"], cm["download"]
    for fn in (up, dn):
        for c in walk_no_nested(fn):
            if is_self_call(c, {fn.name}):
                wi = kwarg(c, "write_into")
                ctx.ob("C09.REC", c, f"recursive {fn.name} passes write_into=True", isinstance(wi, ast.Constant) and wi.value is True,
                       f"recursive {fn.name} without write_into=True (the entry's own name is appended a second time)", construct=f"{fn.name}:recursion write_into")
                bs = kwarg(c, "block_size")
                ctx.ob("C09.REC", c, f"recursive {fn.name} forwards block_size", isinstance(bs, ast.Name) and bs.id == "block_size",
                       f"recursive {fn.name} does not forward block_size", construct=f"{fn.name}:recursion block_size")
    # upload: walk
    loops = [l for l in walk_no_nested(up) if isinstance(l, ast.AsyncFor) and isinstance(l.iter, ast.Call) and is_method_call(l.iter, "list", "path_io")]
    if not loops:
        raise Inconclusive("C09.REC: upload's directory walk (async for over path_io.list) not found")
    l = loops[0]
    var = l.target.id if isinstance(l.target, ast.Name) else None
    dir_made = dir_enq = file_up = False
    uncond = True
    for ev, out in Cfg(lambda n: [], p.issub).seq(l.body):
        is_dir = None
        for e in ev:
            if e[0] == "branch":
                t = e[1].value if isinstance(e[1], ast.Await) else e[1]
                if isinstance(t, ast.Call) and is_method_call(t, "is_dir") and t.args and src(t.args[0]) == var:
                    is_dir = e[2]
        calls = [c for n in evaluated(ev) for c in walk_self(n) if isinstance(c, ast.Call)]
        made = any(is_self_call(c, {"make_directory"}) for c in calls)
        enq = any(is_method_call(c, "append") and c.args and src(c.args[0]) == var for c in calls)
        upl = any(is_self_call(c, {"upload", "upload_stream"}) for c in calls)
        if is_dir is True:
            dir_made, dir_enq = made, enq
            if not (made and enq):
                uncond = False
        elif is_dir is False:
            file_up = upl and src([c for c in calls if is_self_call(c, {"upload"})][0].args[0]) == var if any(is_self_call(c, {"upload"}) for c in calls) else upl
        if out[0] in ("continue", "break", "return"):
            uncond = False
    ctx.ob("C09.REC", l, "upload: a sub-directory is created on the server when visited (empty ones included)", dir_made,
           "upload: sub-directories are not created when visited (empty directories are lost)", construct="upload:dir branch without make_directory")
    ctx.ob("C09.REC", l, "upload: a sub-directory is enqueued for its own walk", dir_enq, "upload: sub-directories are not enqueued", construct="upload:dir branch without enqueue")
    ctx.ob("C09.REC", l, "upload: every non-directory entry is uploaded", file_up, "upload: non-directory entries are not uploaded", construct="upload:file branch")
    ctx.ob("C09.REC", l, "upload: no entry of the walk is skipped", uncond, "upload: the walk skips entries", construct="upload:walk skips")
    # the walk's queue: seeded with the source, popped until empty, listing the popped directory
    ok = isinstance(l.iter.args[0], ast.Name) and any(isinstance(n, ast.Assign) and isinstance(n.targets[0], ast.Name) and n.targets[0].id == l.iter.args[0].id
                                                      and isinstance(n.value, ast.Call) and n.value.func.attr in ("popleft", "pop") for n in walk_no_nested(up) if isinstance(n, ast.Assign) and isinstance(n.value, ast.Call) and isinstance(n.value.func, ast.Attribute))
    ctx.ob("C09.REC", l, "upload: the walk lists the directory just taken from the queue", ok, "upload: the walk does not list the dequeued directory", construct="upload:walk source")
    # top-level directory is created
    mk = [c for c in walk_no_nested(up) if is_self_call(c, {"make_directory"}) and c.args and src(c.args[0]) == "destination"]
    ctx.ob("C09.REC", up, "upload: the destination directory itself is created (an empty source directory still appears)", bool(mk),
           "upload: the destination directory itself is not created", construct="upload:top mkdir")
    # download: every dir/file child is downloaded
    for loop in [x for x in walk_no_nested(dn) if isinstance(x, (ast.For, ast.AsyncFor)) and any(is_self_call(c, {"list"}) for c in ast.walk(x.iter))]:
        kinds = kinds_reaching(p, dn, loop, lambda c: is_self_call(c, {"download"}))
        ctx.ob("C09.REC", loop, f"download: recursion covers children of kinds {sorted(kinds)}", {"dir", "file"} <= kinds,
               f"download recurses only into children of kinds {sorted(kinds)}", construct=f"download:kinds={sorted(kinds)}")
        eager = isinstance(loop, ast.For) and isinstance(loop.iter, ast.Await)
        ctx.ob("C09.REC", loop, "download: the listing is collected before the recursive transfers start (the lazy lister forbids client interaction)", eager,
               "download iterates the lazy lister while issuing transfers on the same control connection", construct="download:lazy listing")
    mk = [c for c in walk_no_nested(dn) if isinstance(c, ast.Call) and is_method_call(c, "mkdir", "path_io")]
    ok = bool(mk) and all(getattr(kwarg(c, "parents"), "value", None) is True and getattr(kwarg(c, "exist_ok"), "value", None) is True for c in mk)
    ctx.ob("C09.REC", dn, "download: local directories are created with parents=True, exist_ok=True", ok, "download creates local directories without parents/exist_ok", construct="download:mkdir flags")


def rule_list(ctx):
    p = ctx.p
    ctx.rule("C09.LIST", "recursive lister: skip '.'/'..' first; enqueue exactly the returned entry, only for type dir; finish a stream before the next; listings joined to their own path")
    lst_fn = p.method("Client", "list")
    lst = p.nested(lst_fn, "__anext__")
    from .c19 import lister_dot_table
    table = lister_dot_table(p, lst)
    if table is None:
        raise Inconclusive("C09.LIST: the lister's read loop was not found")
    skip_ok = all(not (table[t] & {"return", "enqueue"}) for t in (".", "..")) and all("skip" not in table[t] and "return" in table[t] for t in ("x", ".x"))
    ctx.ob("C09.LIST", lst, f"'.'/'..' are skipped before anything else and ordinary names ('x', '.x') never are ({ {k: sorted(v) for k, v in table.items()} })", skip_ok,
           "recursive lister does not skip exactly the '.' and '..' entries (a '.' entry re-queues the directory forever; a skipped ordinary entry is lost from listings, downloads and removes)",
           construct="list:no dot skip")
    enq = [c for c in walk_no_nested(lst) if isinstance(c, ast.Call) and is_method_call(c, "append", "directories")]
    rets = [r for r in walk_no_nested(lst) if isinstance(r, ast.Return)]
    ok = bool(enq) and bool(rets)
    for c in enq:
        ok = ok and c.args and any(src(c.args[0]) == src(r.value) for r in rets)
        g = all_guards(p, c, lst)
        is_dir = any(pol and isinstance(t, ast.Compare) and isinstance(t.ops[0], ast.Eq) and isinstance(t.comparators[0], ast.Constant) and t.comparators[0].value == "dir"
                     and "type" in src(t.left) for t, pol in g)
        rec = any(pol and isinstance(t, ast.Name) and t.id == "recursive" for t, pol in g)
        ok = ok and is_dir and rec
        # the skip dominates the enqueue (ordering in the loop body)
        ok = ok and skip_ok
    ctx.ob("C09.LIST", lst, "exactly the returned entry is enqueued, only when its type is dir and recursion was requested", ok,
           "recursive lister enqueues something else than the returned directory entry (or enqueues non-directories)", construct="list:enqueue")
    # stream lifecycle: on EOF finish() then next directory
    fin = [c for c in walk_no_nested(lst) if isinstance(c, ast.Call) and is_method_call(c, "finish")]
    ok = bool(fin) and all(isinstance(p.parent.get(c), ast.Await) for c in fin)
    ctx.ob("C09.LIST", lst, "the data stream is finished (completion reply consumed) at the end of each listing", ok,
           "the lister does not finish() its data stream at end of listing: the control channel is left out of sync", construct="list:finish")
    ns = p.nested(lst_fn, "_new_stream")
    okp = any(isinstance(n, ast.Assign) and last_attr(n.targets[0]) == "path" and isinstance(n.value, ast.Name) and n.value.id == ns.args.args[1].arg for n in walk_no_nested(ns))
    ctx.ob("C09.LIST", ns, "each new listing records its own path (entries are joined to it)", okp, "a new listing does not record its own path", construct="list:path record")
    cmds = [c for c in walk_no_nested(ns) if isinstance(c, (ast.BinOp, ast.JoinedStr)) and (literal_prefix(p, c)[0] or "").strip() in ("MLSD", "LIST")]
    ok = bool(cmds) and all(src(literal_prefix(p, c)[1]) == "str(cls.path)" for c in cmds)
    ctx.ob("C09.LIST", ns, "the listing command names the recorded path", ok, "the listing command does not name the recorded path", construct="list:command path")
    # users of the lister inside the client consume it eagerly (await self.list(...)) - a lazily abandoned lister leaves a data stream open and the control channel out of sync
    for fn in p.methods("Client").values():
        for c in walk_no_nested(fn):
            if is_self_call(c, {"list"}) and fn.name != "list":
                par = p.parent.get(c)
                eager = isinstance(par, ast.Await)
                ctx.ob("C09.LIST", c, f"{fn.name}: the listing is consumed eagerly (`await self.list(...)`)", eager,
                       f"{fn.name} iterates the lazy lister (`async for ... in self.list(...)`) and may leave it early or interleave commands: the data stream is abandoned without finish() "
                       "and a stale completion reply desynchronises the control channel", construct=f"{fn.name}:lazy lister")
    ctx.floor("C09.LIST", 6)


def kinds_reaching(p, fn, loop, is_rec):
    """entry kinds ('dir', 'file', 'link') for which a recursive call inside `loop` is reachable: the tests on <info>["type"] that
    enclose or guard the call are evaluated for each kind (tests on anything else count as satisfiable)"""
    texprs = {src(x) for x in ast.walk(loop) if isinstance(x, ast.Subscript) and isinstance(x.slice, ast.Constant) and x.slice.value == "type"}
    calls = [c for b in loop.body for c in walk_self(b) if isinstance(c, ast.Call) and is_rec(c)]
    kinds = set()
    for kind in ("dir", "file", "link"):
        env = {t: kind for t in texprs}
        if any(reachable_under(p, c, loop, env) is not False for c in calls):   # guards inside the loop only
            kinds.add(kind)
    return kinds


def rule_rm(ctx):
    p = ctx.p
    ctx.rule("C09.RM", "remove: recurse into every dir/file child (by its own path) before removing the directory itself")
    rm = p.method("Client", "remove")
    loops = [n for n in walk_no_nested(rm) if isinstance(n, (ast.For, ast.AsyncFor)) and any(is_self_call(c, {"list"}) for c in ast.walk(n.iter))]
    if not loops:
        raise Inconclusive("C09.RM: the child loop of remove() was not found")
    n = loops[0]
    kinds = kinds_reaching(p, rm, n, lambda c: is_self_call(c, {"remove"}))
    ctx.ob("C09.RM", n, f"remove recurses into children of kinds {sorted(kinds)}", {"dir", "file"} <= kinds, f"remove recurses only into children of kinds {sorted(kinds)}", construct=f"remove:kinds={sorted(kinds)}")
    tv = n.target.elts[0].id if isinstance(n.target, ast.Tuple) and isinstance(n.target.elts[0], ast.Name) else None
    rec = [c for c in walk_no_nested(n) if is_self_call(c, {"remove"})]
    ok = bool(rec) and all(c.args and src(c.args[0]) == tv for c in rec)
    ctx.ob("C09.RM", n, "the recursive call removes the child's own (joined) path", ok, "remove does not recurse with the child's own path", construct="remove:child path")
    lp = [c for c in ast.walk(n.iter) if is_self_call(c, {"list"})][0]
    ok = lp.args and src(lp.args[0]) == rm.args.args[1].arg and not kwarg(lp, "recursive")
    ctx.ob("C09.RM", n, "the children listed are those of the directory being removed (non-recursive)", bool(ok), "remove lists something else than the directory being removed", construct="remove:list arg")
    blk = p.parent[n]
    body = blk.body if n in blk.body else blk.orelse
    after = body[body.index(n) + 1:]
    before = body[:body.index(n)]
    post = any(is_self_call(c, {"remove_directory"}) and c.args and src(c.args[0]) == rm.args.args[1].arg for s in after for c in walk_self(s) if isinstance(c, ast.Call))
    pre = any(is_self_call(c, {"remove_directory"}) for s in before for c in walk_self(s) if isinstance(c, ast.Call))
    ctx.ob("C09.RM", n, "the directory itself is removed after its children (post-order)", post and not pre, "directory is not removed after its children", construct="remove:no post-order rmdir")
    # file branch
    ok = any(is_self_call(c, {"remove_file"}) and c.args and src(c.args[0]) == rm.args.args[1].arg for c in walk_no_nested(rm) if isinstance(c, ast.Call))
    ctx.ob("C09.RM", rm, "a file is removed with remove_file(path)", ok, "remove does not delete a plain file with remove_file(path)", construct="remove:file")


def rule_mkdir(ctx):
    p = ctx.p
    ctx.rule("C09.MKD", "make_directory issues MKD for every missing ancestor, outermost first, decided by a fresh existence test each time")
    mk = p.method("Client", "make_directory")
    wl = [w for w in walk_no_nested(mk) if isinstance(w, ast.While)]
    ok = False
    if wl:
        t = wl[0].test
        parts = t.values if isinstance(t, ast.BoolOp) and isinstance(t.op, ast.And) else [t]
        ex = [x for x in parts if isinstance(x, ast.UnaryOp) and isinstance(x.op, ast.Not) and isinstance(x.operand, ast.Await) and is_self_call(x.operand.value, {"exists"})]
        others = [x for x in parts if x not in ex]
        ok = len(ex) == 1 and all(src(x).endswith(".name") for x in others)   # `path.name and not await self.exists(path)`: nothing can short-circuit the existence test
    ctx.ob("C09.MKD", mk, "each ancestor is tested with a fresh, unconditional exists() call", ok,
           "make_directory does not test every ancestor with exists() unconditionally (a flag can skip the probe: MKD on an existing directory is refused with 550 and the upload aborts half-way)",
           construct="make_directory:exists")
    up = p.method("Client", "upload")
    for c in walk_no_nested(up):
        if is_self_call(c, {"make_directory"}):
            ctx.ob("C09.MKD", c, "upload creates directories with make_directory(<target>) and its defaults (probe each level, create parents)", len(c.args) == 1 and not c.keywords,
                   f"upload calls `{src(c)[:60]}`: non-default options change which directories are probed/created", construct=f"upload:{src(c)[:50]}")
    rev = any(isinstance(c, ast.Call) and (is_method_call(c, "reverse") or (isinstance(c.func, ast.Name) and c.func.id == "reversed")) for c in walk_no_nested(mk))
    ctx.ob("C09.MKD", mk, "missing ancestors are created outermost first", rev, "make_directory does not create the outermost missing ancestor first", construct="make_directory:order")
    # no instance-level cache consulted/filled by make_directory (keyed by the path as given it would go stale after a CWD)
    cache = [x for x in walk_no_nested(mk) if isinstance(x, ast.Attribute) and isinstance(x.value, ast.Name) and x.value.id == "self"
             and not isinstance(p.parent.get(x), ast.Call) and x.attr not in ("command", "exists", "encoding")]
    cache = [x for x in cache if not (isinstance(p.parent.get(x), ast.Call) and p.parent.get(x).func is x)]
    ctx.ob("C09.MKD", mk, "make_directory keeps no state on the client object between calls", not cache,
           f"make_directory consults/updates client state `{src(cache[0]) if cache else ''}`: a cache keyed by the path as given goes stale when the working directory changes",
           construct="make_directory:state")
    cmds = [c for c in walk_no_nested(mk) if is_self_call(c, {"command"})]
    ok = bool(cmds) and all(literal_prefix(p, c.args[0], mk)[0] == "MKD " and literal_prefix(p, c.args[0], mk)[1] is not None for c in cmds)
    ctx.ob("C09.MKD", mk, "directories are created with MKD <path>", ok, "make_directory does not send MKD <path>", construct="make_directory:command")


def rule_copy_client(ctx):
    from .c01 import rule_copy
    ctx.rule("C09.COPY", "the copy loops of Client.upload / Client.download move every block, once, unmodified, until the source is exhausted (shared with C01.COPY)")
    ctx.borrow(rule_copy, {"C01.COPY": "C09.COPY"}, only=lambda fn: fn.startswith("Client."))


def rule_next_dir(ctx):
    from .c19 import rule_eof
    ctx.rule("C09.NEXT", "the recursive lister moves on through EVERY queued directory: on an empty read it finishes the stream and takes the next directory, in a loop, until a line "
                         "arrives or the queue is empty (an empty directory must not end the walk; shared with C19.EOF)")
    ctx.borrow(rule_eof, {"C19.EOF": "C09.NEXT"}, only=lambda fn: "Client.list" in fn)


def rule_borrowed_r4(ctx):
    from .c08 import rule_carry
    from .c01 import rule_eof
    ctx.rule("C09.NAMES", "the tree operations walk the names the listing parsers return: a parser that cuts or rebuilds a name sends list/download/remove to paths that do not exist (shared with C08.CARRY)")
    ctx.borrow(rule_carry, {"C08.CARRY": "C09.NAMES"})
    ctx.rule("C09.BLOCKS", "file contents are copied block by block until an EMPTY read: a block shorter than requested is not the end of the file (shared with C01.EOF)")
    ctx.borrow(rule_eof, {"C01.EOF": "C09.BLOCKS"})
    from .c07 import rule_vanish
    ctx.rule("C09.VANISH", "one entry that cannot be stat'ed does not fail the recursive listing of the whole tree (shared with C07.VANISH)")
    ctx.borrow(rule_vanish, {"C07.VANISH": "C09.VANISH"})
    from .c08 import rule_codec
    ctx.rule("C09.CODEC", "listing lines are written and read with the configured encoding on both sides: a recursive operation meets every name of the tree (shared with C08.CODEC)")
    ctx.borrow(rule_codec, {"C08.CODEC": "C09.CODEC"})


def rule_local_dirs(ctx):
    p = ctx.p
    ctx.rule("C09.LOCAL", "download creates the local directories it writes into: the parent of a downloaded file and every downloaded directory itself (empty ones included) are "
                          "made with parents=True, exist_ok=True before anything is written there")
    dn = p.method("Client", "download")
    mk = [c for c in walk_no_nested(dn) if isinstance(c, ast.Call) and is_method_call(c, "mkdir", "path_io")]

    def full(c):
        kw = {k.arg: k.value for k in c.keywords}
        return all(isinstance(kw.get(k_), ast.Constant) and kw[k_].value is True for k_ in ("parents", "exist_ok"))
    opens = [c for c in walk_no_nested(dn) if isinstance(c, ast.Call) and is_method_call(c, "open", "path_io") and c.args]
    for o in opens:
        target = dsrc(p, o.args[0], dn)
        ok = any(full(c) and c.args and dsrc(p, c.args[0], dn) == target + ".parent" and c.lineno <= o.lineno for c in mk)
        ctx.ob("C09.LOCAL", o, f"download: the parent of `{target}` is created before the file is opened", ok,
               "download opens the local file without creating its parent directory (parents=True, exist_ok=True) first: downloading into a directory that does not exist yet fails",
               construct="local:file parent")
    loops = [l for l in walk_no_nested(dn) if isinstance(l, (ast.For, ast.AsyncFor)) and any(is_self_call(c, {"list"}) for c in ast.walk(l.iter))]
    for l in loops:
        blk = p.parent.get(l)
        body = next((getattr(blk, fld) for fld in ("body", "orelse") if l in getattr(blk, fld, [])), [])
        before = body[:body.index(l)] if l in body else []
        dest = [a.arg for a in dn.args.args][2] if len(dn.args.args) > 2 else "destination"
        ok = any(full(c) and c.args and src(c.args[0]) == dest for s_ in before for c in walk_self(s_) if isinstance(c, ast.Call) and is_method_call(c, "mkdir", "path_io"))
        ctx.ob("C09.LOCAL", l, "download: a directory is created locally before its children are fetched (an empty directory still appears)", ok,
               "download does not create the local directory itself before walking the remote one: empty directories are missing from the copy", construct="local:directory itself")
    if not opens or not loops:
        raise Inconclusive("C09.LOCAL: the file / directory branches of Client.download were not recognised")


def rule_probes(ctx):
    p = ctx.p
    ctx.rule("C09.PROBE", "the probes the tree operations are built on answer what they found: stat() returns the parsed facts, exists() turns only a 550 into False "
                          "(any other failure surfaces), make_directory() creates missing parents by default")
    st = p.method("Client", "stat")
    parsed = [n for n in walk_no_nested(st) if isinstance(n, ast.Assign) and isinstance(n.value, ast.Call) and is_self_call(n.value, {"parse_mlsx_line"}) and isinstance(n.targets[0], ast.Tuple)]
    ok = False
    for n in parsed:
        info_name = n.targets[0].elts[1].id if isinstance(n.targets[0].elts[1], ast.Name) else None
        blk = p.parent.get(n)
        body = next((getattr(blk, fld) for fld in ("body", "orelse") if n in getattr(blk, fld, [])), [])
        ok = ok or any(isinstance(x, ast.Return) and isinstance(x.value, ast.Name) and x.value.id == info_name for x in body[body.index(n) + 1:])
    ctx.ob("C09.PROBE", st, "stat() returns the facts parsed from the MLST reply", ok, "stat() parses the MLST reply but does not return the facts: is_file/is_dir/exists work on None",
           construct="probe:stat return")
    ex = p.method("Client", "exists")
    hs = [h for h in walk_no_nested(ex) if isinstance(h, ast.ExceptHandler)]
    ok = bool(hs)
    for h in hs:
        paths = Cfg(lambda n: [], p.issub).seq(h.body)
        for ev, out in paths:
            is550 = False
            for e in ev:
                if e[0] == "branch":
                    t_, pol_ = e[1], e[2]
                    while isinstance(t_, ast.UnaryOp) and isinstance(t_.op, ast.Not):
                        t_, pol_ = t_.operand, not pol_
                    if pol_ and "550" in src(t_):
                        is550 = True
            if out[0] == "return" and not is550:
                ok = False
            if out[0] == "fall":
                ok = False
    ctx.ob("C09.PROBE", ex, "exists(): only a 550 means 'does not exist', every other failure is re-raised", ok,
           "exists() swallows failures other than 550 (it returns instead of re-raising): a server error looks like 'missing' and the tree operation goes on", construct="probe:exists swallows")
    md = p.method("Client", "make_directory")
    kd = {a.arg: d for a, d in zip(md.args.kwonlyargs, md.args.kw_defaults)}
    kd.update({a.arg: d for a, d in zip(md.args.args[len(md.args.args) - len(md.args.defaults):], md.args.defaults)})
    ok = isinstance(kd.get("parents"), ast.Constant) and kd["parents"].value is True
    ctx.ob("C09.PROBE", md, "make_directory(parents=True) by default", ok, "make_directory no longer creates missing parents by default: upload into a fresh destination fails", construct="probe:mkdir default")
    brs = [b for b in walk_no_nested(md) if isinstance(b, ast.Break)]
    for b in brs:
        gs = [(t, pol) for t, pol in all_guards(p, b, md) if isinstance(t, ast.Name) and t.id == "parents"]
        ctx.ob("C09.PROBE", b, "the walk up to the first existing ancestor stops early only when parents is false", bool(gs) and all(not pol for t, pol in gs),
               "make_directory stops collecting missing ancestors although parents is true (or goes on when it is false)", construct="probe:mkdir parents test")


RULES = [rule_dest, rule_rec, rule_list, rule_rm, rule_mkdir, rule_copy_client, rule_next_dir, rule_borrowed_r4, rule_local_dirs, rule_probes]
