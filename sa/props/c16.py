"""C16 Configured timeouts bound how long a stalled peer can hold a session (wiring and label tables)"""
import ast
from ..model import *
from ..util import *
from ..facts import *
from ..paths import Cfg, evaluated

EXPLANATION = (
    "Label and wiring tables. LABEL: StreamIO.read/readline/readexactly are wrapped with the read timeout attribute, "
    "write with the write one; the constructor assigns read_timeout or timeout / write_timeout or timeout without "
    "crossing; the timeout wrapper reads the named attribute of the instance at call time and bounds the call with "
    "wait_for. WIRE: control stream read_timeout<-idle_timeout, write_timeout<-socket_timeout; data streams (both "
    "accept callbacks): timeout<-the session's socket_timeout and no read/write override; the Connection(...) keywords "
    "copy each server attribute to the field of the same name; the client passes socket_timeout to both streams and "
    "connection_timeout to connect. WAIT: the data-connection guard uses wait_future_timeout iff wait=True (a None "
    "timeout stays None = wait forever, not 0), a single wait_for outside any loop, fail code 425. END: a TimeoutError "
    "in any session task reaches the dispatcher's catch-all (no handler swallows it and re-arms the read) and the "
    "cleanup of C12 follows."
)
NOT_DECIDED = [
    "any statement about time ('no earlier than', 'promptly')",
    "asyncio.wait_for semantics; the kernel's behaviour on stalled sockets",
]


def rule_label(ctx):
    p = ctx.p
    ctx.rule("C16.LABEL", "StreamIO methods are bounded by the timeout attribute of their own direction; the wrapper reads the named attribute at call time")
    S = p.methods("StreamIO")
    for name, want in (("readline", "read_timeout"), ("read", "read_timeout"), ("readexactly", "read_timeout"), ("write", "write_timeout")):
        ds = p.decorators(S[name])
        got = ds[0].args[0] if ds and ds[0].name == "with_timeout" and ds[0].args else (None if not ds else "timeout" if ds[0].name == "with_timeout" else None)
        ctx.ob("C16.LABEL", S[name], f"StreamIO.{name} is bounded by `{got}`", got == want and len(ds) == 1,
               f"StreamIO.{name} is bounded by `{got}`, must be `{want}`", construct=f"label:{name}:{got}")
    init = S["__init__"]
    for n in walk_no_nested(init):
        if isinstance(n, ast.Assign) and isinstance(n.targets[0], ast.Attribute) and n.targets[0].attr in ("read_timeout", "write_timeout"):
            attr = n.targets[0].attr
            val = expand(p, n.value, init)      # computed into a local first
            ok = isinstance(val, ast.BoolOp) and isinstance(val.op, ast.Or) and [src(v) for v in val.values] == [attr, "timeout"]
            ctx.ob("C16.LABEL", n, f"self.{attr} = {attr} or timeout", ok, f"{attr} computed as `{src(val)}`", construct=f"init:{attr}<-{src(val)}")
    ctx.floor("C16.LABEL", 6)
    wt_outer = p.module_funcs.get(("common.py", "_with_timeout"))
    if wt_outer is None:
        raise AnalysisError("anchor=common._with_timeout not found")
    wt_deco, wt = p.decorator_factory_parts(wt_outer)
    wrapped = wt_deco.args.args[-1].arg if wt_deco.args.args else "f"
    wf = [c for c in walk_no_nested(wt) if isinstance(c, ast.Call) and (dotted(c.func) or "") in ("asyncio.wait_for", "wait_for")]
    ok = len(wf) == 1 and len(wf[0].args) >= 2
    if ok:
        t = expand(p, wf[0].args[1], wt)
        ok = isinstance(t, ast.Call) and isinstance(t.func, ast.Name) and t.func.id == "getattr" and len(t.args) == 2 and src(t.args[0]) == wt.args.args[0].arg and src(t.args[1]) == (wt_outer.args.args + wt_outer.args.kwonlyargs)[0].arg
        inner = expand(p, wf[0].args[0], wt)
        ok = ok and isinstance(inner, ast.Call) and isinstance(inner.func, ast.Name) and inner.func.id == wrapped
        ok = ok and isinstance(p.parent.get(wf[0]), (ast.Await, ast.Return)) and not any(isinstance(q, (ast.For, ast.While, ast.Try)) for q in _anc(p, wf[0], wt))
    ctx.ob("C16.LABEL", wt, "with_timeout: await wait_for(f(...), getattr(instance, <name>)) - once, not re-armed, not swallowed", ok,
           "with_timeout no longer bounds the call by the named timeout attribute of the instance (or retries / swallows the timeout)", construct="with_timeout:timeout source")


RAW_COROUTINES = {"read", "readline", "readexactly", "readuntil", "drain", "wait_closed", "start_tls"}


def rule_raw(ctx):
    p = ctx.p
    ctx.rule("C16.RAW", "the stream wrappers touch the raw reader / writer only under a timeout: in StreamIO and its subclasses every awaited call on `self.reader` / `self.writer` "
                        "sits in a method decorated with with_timeout - a subclass that drains the writer itself is not bounded by socket_timeout")
    classes = [c for c in p.classes if c == "StreamIO" or "StreamIO" in p.mro(c)]
    n = 0
    for cn in sorted(classes):
        for name, fn in p.methods(cn).items():
            for a in ast.walk(fn):        # nested functions and lambdas included: `lambda: self.reader.read(n)`, `read = self.reader.read`
                if isinstance(a, ast.Attribute) and isinstance(a.ctx, ast.Load) and a.attr in RAW_COROUTINES:
                    fx = p.enclosing_function(a) or fn
                    recv = expand(p, a.value, fx)
                    if src(recv) in ("self.reader", "self.writer"):
                        n += 1
                        bounded = any(d.name == "with_timeout" for d in p.decorators(fn))
                        ctx.ob("C16.RAW", a, f"{cn}.{name}: `{src(a)}` is used under with_timeout", bounded,
                               f"{cn}.{name} uses `{src(a)}` of the raw stream outside any with_timeout method: a peer that stops "
                               "reading / sending holds this call (and the session's resources) without limit", construct=f"raw:{cn}.{name}:{a.attr}")
    ctx.floor("C16.RAW", 4, "uses of raw stream coroutines")
    # the write is only bounded if it waits for the transport: drain() on every path of StreamIO.write
    wr = p.method("StreamIO", "write")
    drains = [a for a in walk_no_nested(wr) if isinstance(a, ast.Await) and isinstance(a.value, ast.Call) and is_method_call(a.value, "drain")]
    ok = bool(drains) and any(not all_guards(p, a, wr) for a in drains)
    ctx.ob("C16.RAW", wr, "StreamIO.write awaits drain() unconditionally", ok,
           "StreamIO.write does not wait for the transport on every path (drain() missing or conditional): such writes never block, so the write timeout can never fire - a peer "
           "that does not read gets everything buffered and the session is kept", construct="raw:StreamIO.write:drain conditional")


def _anc(p, n, stop=None):
    q = p.parent.get(n)
    while q is not None and q is not stop:
        yield q
        q = p.parent.get(q)


def rule_wire(ctx):
    p = ctx.p
    ctx.rule("C16.WIRE", "which configured timeout reaches which stream / session field")
    d = p.dispatcher()
    n_ctl = 0
    for c in walk_no_nested(d):
        if isinstance(c, ast.Call) and last_attr(c.func) == "ThrottleStreamIO":
            n_ctl += 1
            kw = {k.arg: src(k.value) for k in c.keywords}
            ok = kw.get("read_timeout") == "self.idle_timeout" and kw.get("write_timeout") == "self.socket_timeout" and "timeout" not in kw
            ctx.ob("C16.WIRE", c, f"control stream: read<-{kw.get('read_timeout')}, write<-{kw.get('write_timeout')}", ok,
                   f"control stream timeouts are read={kw.get('read_timeout')} write={kw.get('write_timeout')} timeout={kw.get('timeout')}; must be read=idle_timeout, write=socket_timeout",
                   construct=f"wire:control:{kw.get('read_timeout')},{kw.get('write_timeout')}")
    if n_ctl != 1:
        ctx.floor_errors.append(f"rule=C16.WIRE: {n_ctl} control stream constructions (expected 1)")
    ctor = p.session_ctor()
    init_attrs = {t.attr for n in walk_no_nested(p.method("Server", "__init__")) if isinstance(n, ast.Assign) for t in n.targets if isinstance(t, ast.Attribute)}
    skw = session_kwargs(p)   # a `**self.<template>` splat is resolved through the dict assigned in __init__ (where `self.x` was just set from the argument `x`)
    for karg, kval in skw.items():
        if karg in ("socket_timeout", "idle_timeout", "wait_future_timeout", "path_timeout", "block_size") and kval is not None:
            in_init = p.enclosing_function(kval) is p.method("Server", "__init__")
            ctx.ob("C16.WIRE", kval, f"session field {karg} <- {src(kval)}", src(kval) == f"self.{karg}" or (in_init and src(kval) == karg),
                   f"session field {karg} initialised from {src(kval)}", construct=f"wire:session:{karg}<-{src(kval)}")
    for need in ("socket_timeout", "wait_future_timeout"):
        if need not in skw and "**" not in skw:
            ctx.fail("C16.WIRE", ctor, f"session field {need} is not initialised", construct=f"wire:session:{need}:missing")
    init = p.method("Server", "__init__")
    for attr in ("socket_timeout", "idle_timeout", "wait_future_timeout", "path_timeout"):
        st = [n for n in walk_no_nested(init) if isinstance(n, ast.Assign) and any(isinstance(t, ast.Attribute) and t.attr == attr for t in n.targets)]
        ok = len(st) == 1 and src(st[0].value) == attr
        ctx.ob("C16.WIRE", st[0] if st else init, f"Server.{attr} stores the constructor argument `{attr}`", ok, f"Server.{attr} is not the constructor argument of the same name", construct=f"wire:server:{attr}")
    # data streams: both directions bounded by the session's socket_timeout (directly, or through a helper of the control stream whose own
    # timeouts are read<-idle_timeout / write<-socket_timeout)
    ctl = {}
    for c in walk_no_nested(d):
        if isinstance(c, ast.Call) and last_attr(c.func) == "ThrottleStreamIO":
            ctl = {k.arg: src(k.value).split(".")[-1] for k in c.keywords}
    n_data = 0
    for verb, h, st, ctor, how in data_stream_sites(p):
        n_data += 1
        conn = p.handler_params(h)[0]
        if ctor is None:
            raise Inconclusive(f"C16.WIRE: {verb}: the data stream is built by `{src(st.value)[:60]}`, a shape this rule cannot follow")
        kw = {k.arg: k.value for k in ctor.keywords}

        def resolve(v):
            """-> name of the configured timeout this expression carries"""
            if v is None:
                return None
            s_ = src(v)
            if how == "direct":
                # a timeout copied from the control stream is the control stream's own configured one
                m_ = {f"{conn}.command_connection.read_timeout": ctl.get("read_timeout") or ctl.get("timeout"),
                      f"{conn}.command_connection.write_timeout": ctl.get("write_timeout") or ctl.get("timeout")}
                if s_ in m_:
                    return m_[s_]
                return s_.split(".")[-1] if s_.startswith(conn + ".") else s_
            # inside a helper of the control stream: self.read_timeout / self.write_timeout / self.timeout are the control stream's
            m = {"self.read_timeout": ctl.get("read_timeout") or ctl.get("timeout"), "self.write_timeout": ctl.get("write_timeout") or ctl.get("timeout")}
            return m.get(s_, s_)
        rd = resolve(kw.get("read_timeout")) or resolve(kw.get("timeout"))
        wr = resolve(kw.get("write_timeout")) or resolve(kw.get("timeout"))
        ok = rd == "socket_timeout" and wr == "socket_timeout"
        ctx.ob("C16.WIRE", st, f"{verb}: data stream read<-{rd}, write<-{wr}", ok,
               f"{verb}: data stream timeouts are read<-{rd} write<-{wr}; both directions must be bounded by the session's socket_timeout "
               "(with the control stream's read timeout a stalled upload is held for idle_timeout - or forever)",
               construct=f"wire:{verb}:{rd},{wr}")
    if n_data < 2:
        ctx.floor_errors.append(f"rule=C16.WIRE: {n_data} data stream constructions (floor 2)")
    # path_io timeout
    for n in walk_no_nested(d):
        if isinstance(n, ast.Assign) and last_attr(n.targets[0]) == "path_io" and isinstance(n.value, ast.Call):
            kw = {k.arg: src(k.value) for k in n.value.keywords}
            ctx.ob("C16.WIRE", n, f"backend timeout <- {kw.get('timeout')}", kw.get("timeout") == "self.path_timeout", f"backend timeout is {kw.get('timeout')}", construct="wire:path_io timeout")
    # client
    for c in ast.walk(p.trees["client.py"]):
        if isinstance(c, ast.Call) and last_attr(c.func) in ("ThrottleStreamIO", "DataConnectionThrottleStreamIO"):
            kw = {k.arg: src(k.value) for k in c.keywords}
            ctx.ob("C16.WIRE", c, f"client stream in {p.fn_of(c)}: timeout <- {kw.get('timeout')}", kw.get("timeout") == "self.socket_timeout",
                   f"client stream in {p.fn_of(c)} has timeout {kw.get('timeout')}", construct=f"wire:client:{p.fn_of(c)}")
    ctx.floor("C16.WIRE", 12)


def rule_wait(ctx):
    p = ctx.p
    ctx.rule("C16.WAIT", "the guard's timeout is wait_future_timeout iff wait=True (None stays None), else 0; one wait_for, not in a loop; the data-connection wait fails with 425")
    w = p.wrapper_of("ConnectionConditions")
    conn = [a.arg for a in w.args.args][1]
    wf = [c for c in walk_no_nested(w) if isinstance(c, ast.Call) and ((dotted(c.func) or "") in ("asyncio.wait_for", "wait_for") or
                                                                      ((dotted(c.func) or "") in ("asyncio.wait", "wait") and kwarg(c, "timeout") is not None))]
    if len(wf) != 1:
        ctx.fail("C16.WAIT", w, f"the guard has {len(wf)} bounded waits (expected 1)", construct=f"wait:{len(wf)} wait_for")
        return
    targ = kwarg(wf[0], "timeout") if kwarg(wf[0], "timeout") is not None else (wf[0].args[1] if len(wf[0].args) > 1 else None)
    # possible values of the timeout expression, with the condition under which each is chosen
    choices = []   # (value src, wait truth)

    def collect(e, cond):
        if isinstance(e, ast.Name):
            ds = [(v, n) for k, v, n in local_defs(w, e.id) if k == "assign"]
            if not ds:
                choices.append((src(e), cond))
            for v, n in ds:
                c2 = cond
                for t, pol in flat_conditions(p, n, w):
                    if src(t) == "self.wait":
                        c2 = pol
                collect(v, c2)
        elif isinstance(e, ast.IfExp):
            if src(e.test) == "self.wait":
                collect(e.body, True)
                collect(e.orelse, False)
            else:
                choices.append(("?" + src(e), cond))
        elif isinstance(e, ast.BoolOp):
            choices.append(("BOOLOP:" + src(e), cond))
        else:
            choices.append((src(e), cond))
    collect(targ, None)
    want = {(f"{conn}.wait_future_timeout", True), ("0", False)}
    ok = set(choices) == want
    ctx.ob("C16.WAIT", wf[0], f"guard timeout choices {sorted(map(str, choices))}", ok,
           f"guard timeout is selected as {sorted(map(str, choices))}, must be exactly (wait_future_timeout if wait else 0) with no truthiness folding "
           "(`wait and t or 0` turns a configured None = wait forever into 0 = fail at once)", construct=f"wait:timeout selection {sorted(map(str, choices))}")
    tname = src(targ) if targ is not None else None
    gated = [src(t) for t, pol in all_guards(p, wf[0], w) if tname and any(isinstance(x, ast.Name) and x.id == tname for x in ast.walk(t))]
    ctx.ob("C16.WAIT", wf[0], "the wait is not gated by the truthiness of the timeout value (None means wait forever, 0 means fail at once)", not gated,
           f"the guard's wait is executed only if `{gated[0] if gated else ''}`: a configured wait_future_timeout=None (wait forever) is falsy and the transfer is refused with 425 at once",
           construct="wait:gated by timeout truthiness")
    in_loop = any(isinstance(q, (ast.For, ast.While, ast.AsyncFor)) for q in _anc(p, wf[0], w))
    ctx.ob("C16.WAIT", wf[0], "the guard's wait is not inside a loop (not re-armed)", not in_loop, "the guard's wait is inside a loop (re-armed)", construct="wait:in loop")
    # the awaited thing is shielded aggregate; timeout error handler replies and returns (C03.WRAP)
    dc = field_names(p).get("data_connection_made")
    n = 0
    for h, wk in p.workers():
        for d in p.decorators(wk):
            if d.name == "ConnectionConditions" and dc in deco_fields(d):
                n += 1
                ok = d.kwargs.get("wait") is True and d.kwargs.get("fail_code") == "425"
                ctx.ob("C16.WAIT", d.node, f"{wk.name}: data-connection guard has wait=True, fail_code='425'", ok,
                       f"{wk.name}: data-connection guard has wait={d.kwargs.get('wait')} fail_code={d.kwargs.get('fail_code')}", construct=f"wait:{wk.name}:{d.kwargs.get('wait')},{d.kwargs.get('fail_code')}")
        if not any(d.name == "ConnectionConditions" and dc in deco_fields(d) for d in p.decorators(wk)):
            ctx.fail("C16.WAIT", wk, f"{wk.name}: no data-connection wait guards the transfer worker", construct=f"wait:{wk.name}:none")
    # handlers (not workers) never wait: wait=True only on workers
    for verb, name, fn in p.handlers():
        for d in p.decorators(fn):
            if d.name == "ConnectionConditions":
                ctx.ob("C16.WAIT", d.node, f"{name}: command-level guard does not wait", not d.kwargs.get("wait"), f"{name}: command-level guard waits", construct=f"wait:{name}:handler waits")
    ci = p.method("ConnectionConditions", "__init__")
    dflt = {a.arg: d for a, d in zip(ci.args.kwonlyargs, ci.args.kw_defaults)}
    ok = isinstance(dflt.get("wait"), ast.Constant) and dflt["wait"].value is False
    ctx.ob("C16.WAIT", ci, "guards do not wait by default", ok, "ConnectionConditions waits by default", construct="wait:default")


def rule_end(ctx):
    p = ctx.p
    ctx.rule("C16.END", "a timeout raised in a session task ends the session through the dispatcher's catch-all and cleanup; no handler swallows it to re-arm the read")
    d, tr = p.dispatcher_try()
    catch_all = [h for h in tr.handlers if h.type is not None and handler_names(h) == ["Exception"]]
    ctx.ob("C16.END", tr, "the dispatcher's try has a catch-all for Exception and a finally", bool(catch_all) and bool(tr.finalbody),
           "dispatcher has no catch-all + finally: a timeout escapes without cleanup", construct="dispatcher:no catch-all")
    for h in [x for x in ast.walk(d) if isinstance(x, ast.ExceptHandler)]:
        names = handler_names(h) if h.type is not None else ["BaseException"]
        if any(n in ("TimeoutError", "OSError") for n in names):
            reraises = all(out[0] == "raise" for ev, out in Cfg(lambda n: [], p.issub).seq(h.body))
            ctx.ob("C16.END", h, f"dispatcher handler for {names} re-raises on every path", reraises,
                   f"the dispatcher catches {names} and continues on some path: the idle/socket timeout no longer ends the session", construct=f"dispatcher:swallows {names}")
    # the session loop itself does not wrap the wait in its own timeout logic
    for fn in (p.method("Server", "parse_command"), p.method("Server", "response_writer")):
        for h in [x for x in ast.walk(fn) if isinstance(x, ast.ExceptHandler)]:
            names = handler_names(h) if h.type is not None else ["BaseException"]
            if any(p.issub("TimeoutError", n) for n in names):
                ctx.fail("C16.END", h, f"{fn.name} catches {names}: a read timeout would be swallowed there", construct=f"{fn.name}:swallows timeout")
    pc = p.method("Server", "parse_command")
    reads = [c for c in walk_no_nested(pc) if isinstance(c, ast.Call) and is_method_call(c, "readline")]
    ok = len(reads) == 1 and src(reads[0].func.value) == pc.args.args[1].arg
    ctx.ob("C16.END", pc, "the command reader reads through the control stream wrapper (whose read carries the idle timeout)", ok,
           "parse_command does not read through the control stream's readline", construct="parse_command:reader")


def rule_cleanup(ctx):
    """'...and is followed by the full clean-up of C12': the unconditional cleanup of the dispatcher is a clause of C16 as well"""
    from .c12 import rule_fields
    ctx.borrow(rule_fields, {"C12.FIELDS": "C16.CLEANUP"})


def rule_support(ctx):
    p = ctx.p
    ctx.rule("C16.SUPPORT", "what the timeout wiring relies on in its supporting code: StreamIO does not derive the general timeout from a specific one, with_timeout forwards all "
                            "arguments, and Connection serves every session value through its futures (assignment resolves the future waiters hold; no class attribute shadows a field)")
    si = p.method("StreamIO", "__init__")
    re_t = [n for n in walk_no_nested(si) if isinstance(n, (ast.Assign, ast.AugAssign)) and any(isinstance(t, ast.Name) and t.id == "timeout" for t in assign_targets(n))]
    ctx.ob("C16.SUPPORT", re_t[0] if re_t else si, "StreamIO.__init__ uses the `timeout` argument as given", not re_t,
           f"StreamIO.__init__ rewrites the general timeout (`{src(re_t[0])[:50] if re_t else ''}`): a stream built with read_timeout=None (no idle limit) and a write timeout "
           "gets the write timeout as read timeout - an idle control connection is dropped although idle_timeout is unset", construct="support:timeout rewritten")
    wt_outer = p.module_funcs.get(("common.py", "_with_timeout"))
    if wt_outer is not None:
        deco, wr = p.decorator_factory_parts(wt_outer)
        wrapped = deco.args.args[-1].arg if deco.args.args else "f"
        calls = [c for c in walk_no_nested(wr) if isinstance(c, ast.Call) and isinstance(c.func, ast.Name) and c.func.id == wrapped]
        va, kw = (wr.args.vararg.arg if wr.args.vararg else None), (wr.args.kwarg.arg if wr.args.kwarg else None)
        for c in calls:
            ok = any(isinstance(a, ast.Starred) and src(a.value) == va for a in c.args) and any(k.arg is None and src(k.value) == kw for k in c.keywords) if (va and kw) else False
            ctx.ob("C16.SUPPORT", c, "with_timeout calls the wrapped function with *args and **kwargs", ok,
                   f"with_timeout calls `{src(c)[:40]}` without all of the caller's arguments: with a timeout configured the executor backend loses mkdir(parents=, exist_ok=) and open(mode=)",
                   construct="support:with_timeout arguments")
    cc = p.cls("Connection")
    shadows = [src(t) for n in cc.body if isinstance(n, ast.Assign) for t in n.targets if isinstance(t, ast.Name) and t.id != "__slots__"]
    ctx.ob("C16.SUPPORT", cc, "Connection has no class-level attribute besides __slots__ (values are served by __getattr__ from the futures)", not shadows,
           f"Connection defines class attributes {shadows}: __getattr__ is never asked for them, so `connection.{shadows[0] if shadows else ''}` is the class default whatever the "
           "dispatcher stored (data streams lose their socket_timeout)", construct=f"support:Connection shadows {shadows}")
    sa = p.methods("Connection").get("__setattr__")
    if sa is not None:
        sets = [c for c in walk_no_nested(sa) if isinstance(c, ast.Call) and is_method_call(c, "set_result")]
        ok = bool(sets) and all(isinstance(c.func.value, ast.Subscript) and src(c.func.value.value) == "self" for c in sets)
        fresh_uncond = [n for n in sa.body if False]
        # replacing the stored future is allowed only when it is already done (nobody can still be waiting on it)
        repl = [n for n in walk_no_nested(sa) if isinstance(n, ast.Assign) and any(isinstance(t, ast.Subscript) and src(t.value) == "self" for t in n.targets)]
        guarded = all(any(pol and isinstance(t, ast.Call) and is_method_call(t, "done") for t, pol in all_guards(p, n, sa)) for n in repl)
        ctx.ob("C16.SUPPORT", sa, "Connection.__setattr__ resolves the stored future (replaced only if already done)", ok and guarded,
               "Connection.__setattr__ publishes a new future instead of resolving the stored one: a worker already waiting for the data connection holds the old future "
               "and is answered 425 (or waits forever) although the connection was made within wait_future_timeout", construct="support:Connection.__setattr__")


def rule_pathio_timeout(ctx):
    p = ctx.p
    ctx.rule("C16.PATHIO", "every operation of the executor backend is bounded by path_timeout: @with_timeout sits on each AsyncPathIO coroutine (and on its lister's __anext__), "
                           "inside the error converter and outside the executor hand-off")
    ms = p.methods("AsyncPathIO")
    ops = [n.name for n in p.cls("AbstractPathIO").body if isinstance(n, ast.AsyncFunctionDef)]
    n = 0
    targets = [(op, ms[op]) for op in ops if op in ms]
    if "list" in ms:
        try:
            targets.append(("list.__anext__", p.nested(ms["list"], "__anext__")))
        except AnalysisError:
            pass
    for op, fn in targets:
        n += 1
        names = [d.name for d in p.decorators(fn)]
        has = "with_timeout" in names
        order_ok = has and ("_blocking_io" not in names or names.index("with_timeout") < names.index("_blocking_io")) and \
            ("universal_exception" not in names or names.index("universal_exception") < names.index("with_timeout"))
        ctx.ob("C16.PATHIO", fn, f"AsyncPathIO.{op}: decorators {names}", has and order_ok,
               f"AsyncPathIO.{op} is not wrapped by @with_timeout (decorators {names}): a hanging file-system call of that kind is never given up, whatever path_timeout says"
               if not has else f"AsyncPathIO.{op}: @with_timeout is not between the error converter and the executor hand-off ({names}): the TimeoutError escapes unconverted or bounds nothing",
               construct=f"pathio:{op}:{'missing' if not has else 'order'}")
    if n < 12:
        ctx.floor_errors.append(f"rule=C16.PATHIO: {n} executor-backend operations (floor 12)")


RULES = [rule_label, rule_raw, rule_wire, rule_wait, rule_end, rule_cleanup, rule_support, rule_pathio_timeout]
