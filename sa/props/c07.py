"""C07 Listings and stats report the backend's truth (structural necessary conditions)"""
import ast
import re
from ..model import *
from ..util import *
from ..facts import *
from ..paths import Cfg, evaluated

EXPLANATION = (
    "Table/dataflow agreement between the server's formatters and the client's parsers. FACT: MLSx facts Size<-st_size, "
    "Modify<-st_mtime, Create<-st_ctime through the UTC formatter (time.gmtime + '%Y%m%d%H%M%S'); every fact of the table "
    "is emitted unconditionally as name=value; Type is decided by is_file/is_dir of the same path; LIST fields mode<-st_mode, "
    "size<-st_size, date<-st_mtime, name last. KEYS: lower-cased server fact names cover the keys the client reads. FMT: both "
    "LIST date formats have the same computed width, equal to the client's slice constant, and each has a matching strptime "
    "format on the client. HALF: the server's 'recent' window is (now - T, now] with the same T the client uses for year "
    "inference, and the client's branch signs are consistent. ALL: the listing loops emit one line per entry (shared with "
    "C01.COPY) and the client's lister yields each parsed line once joined to the listing's own path."
)
NOT_DECIDED = [
    "everything over the (mtime, now) plane: time zones of the LIST format (local time by design of ls), leap days, DST",
    "sizes and timestamps as numbers; actual strftime/strptime behaviour",
    "the one-day window at the half-year boundary",
]

W = {"b": 3, "e": 2, "d": 2, "H": 2, "M": 2, "S": 2, "Y": 4, "m": 2, "y": 2, "I": 2, "p": 2, "j": 3, "a": 3}


def fmt_width(fmt):
    w = i = 0
    while i < len(fmt):
        if fmt[i] == "%" and i + 1 < len(fmt):
            w += W.get(fmt[i + 1], 99)
            i += 2
        else:
            w += 1
            i += 1
    return w


def st_attrs(e):
    return {a.attr for a in ast.walk(e) if isinstance(a, ast.Attribute) and a.attr.startswith("st_")}


def rule_fact(ctx):
    p = ctx.p
    ctx.rule("C07.FACT", "server fact/field tables are fed from the right backend stat fields, in UTC, and every fact is emitted")
    S = p.methods("Server")
    facts = S.get("_build_mlsx_facts_from_stats")
    if facts is None:
        raise AnalysisError("anchor=Server._build_mlsx_facts_from_stats not found")
    ds = [n for n in walk_no_nested(facts) if isinstance(n, ast.Dict)]
    if not ds:
        raise Inconclusive("C07.FACT: MLSx fact table is not a dict literal")
    d = ds[0]
    want = {"Size": "st_size", "Modify": "st_mtime", "Create": "st_ctime"}
    seen = {}
    for k, v in zip(d.keys, d.values):
        if not isinstance(k, ast.Constant):
            continue
        seen[k.value] = v
        if k.value in want:
            attrs = st_attrs(v)
            ctx.ob("C07.FACT", v, f"MLSx fact {k.value!r} is taken from {sorted(attrs)}", attrs == {want[k.value]},
                   f"MLSx fact {k.value!r} is taken from {sorted(attrs)}, not from {want[k.value]}", construct=f"fact:{k.value}<-{sorted(attrs)}")
            if k.value in ("Modify", "Create"):
                ok = is_self_call(v, {"_format_mlsx_time"}) and len(v.args) == 1
                ctx.ob("C07.FACT", v, f"MLSx fact {k.value!r} goes through the UTC time formatter", ok, f"MLSx fact {k.value!r} is not formatted by _format_mlsx_time", construct=f"fact:{k.value}:formatter")
            else:
                ok = isinstance(v, ast.Attribute)
                ctx.ob("C07.FACT", v, f"MLSx fact {k.value!r} is the raw stat field", ok, f"MLSx fact {k.value!r} is transformed: {src(v)}", construct=f"fact:{k.value}:raw")
    for k in want:
        if k not in seen:
            ctx.fail("C07.FACT", d, f"MLSx fact {k!r} is missing from the fact table", construct=f"fact:{k}:missing")
    ft = S.get("_format_mlsx_time")
    if ft is not None:
        calls = [c for c in walk_no_nested(ft) if isinstance(c, ast.Call)]
        strf = [c for c in calls if (dotted(c.func) or "").endswith("strftime")]
        ok = len(strf) == 1 and isinstance(strf[0].args[0], ast.Constant) and strf[0].args[0].value == "%Y%m%d%H%M%S" \
            and isinstance(strf[0].args[1], ast.Call) and (dotted(strf[0].args[1].func) or "") == "time.gmtime" \
            and [src(a) for a in strf[0].args[1].args] == [ft.args.args[-1].arg]
        ctx.ob("C07.FACT", ft, "the MLSx time formatter is strftime('%Y%m%d%H%M%S', time.gmtime(seconds)) (UTC, second precision)", ok,
               "the MLSx time formatter is not UTC second-precision strftime('%Y%m%d%H%M%S', time.gmtime(t)) - e.g. local time shifts every timestamp by the server's UTC offset",
               construct="fact:_format_mlsx_time")
    # build_mlsx_string: emits every fact unconditionally as name=value; Type from is_file / is_dir of the same path
    bm = S.get("build_mlsx_string")
    if bm is None:
        raise AnalysisError("anchor=Server.build_mlsx_string not found")
    pathp = [a.arg for a in bm.args.args][-1]
    loops = [l for l in walk_no_nested(bm) if isinstance(l, ast.For) and isinstance(l.iter, ast.Call) and is_method_call(l.iter, "items")]
    comps = [c for c in walk_no_nested(bm) if isinstance(c, (ast.GeneratorExp, ast.ListComp)) and any(isinstance(g.iter, ast.Call) and is_method_call(g.iter, "items") for g in c.generators)]
    ok = False
    why = "no loop over the fact table"
    if loops:
        l = loops[0]
        cond = any(isinstance(x, (ast.If, ast.Continue, ast.Break, ast.IfExp)) for x in walk_no_nested(l))
        fs = [x for x in walk_no_nested(l) if isinstance(x, ast.JoinedStr)]
        form = bool(fs) and _is_name_eq_value(fs[0], l.target)
        ok = not cond and form
        why = "a fact is skipped conditionally" if cond else "the fact is not written as name=value;"
    elif comps:
        c = comps[0]
        cond = any(g.ifs for g in c.generators) or any(isinstance(x, ast.IfExp) for x in ast.walk(c.elt))
        form = isinstance(c.elt, ast.JoinedStr) and _is_name_eq_value(c.elt, c.generators[0].target)
        ok = not cond and form
        why = "a fact is skipped conditionally (e.g. a falsy Size=0)" if cond else "the fact is not written as name=value;"
    ctx.ob("C07.FACT", bm, "every fact of the table is emitted unconditionally as `name=value;`", ok,
           f"build_mlsx_string: {why}", construct="mlsx:facts emitted")
    types = {}
    for n in walk_no_nested(bm):
        if isinstance(n, ast.Assign) and isinstance(n.targets[0], ast.Subscript) and isinstance(n.targets[0].slice, ast.Constant) and n.targets[0].slice.value == "Type" and isinstance(n.value, ast.Constant):
            g = [(t, pol) for t, pol in flat_conditions(p, n, bm)]
            pos = [t for t, pol in g if pol]
            op = None
            for t in pos:
                t2 = t.value if isinstance(t, ast.Await) else t
                if isinstance(t2, ast.Call) and isinstance(t2.func, ast.Attribute) and t2.func.attr in ("is_file", "is_dir") and [src(a) for a in t2.args] == [pathp]:
                    op = t2.func.attr
            types[n.value.value] = op
    if not types:   # the decision may live in a helper whose result is stored as the Type fact
        for n in walk_no_nested(bm):
            if isinstance(n, ast.Assign) and isinstance(n.targets[0], ast.Subscript) and isinstance(n.targets[0].slice, ast.Constant) and n.targets[0].slice.value == "Type":
                v = n.value.value if isinstance(n.value, ast.Await) else n.value
                if isinstance(v, ast.Call) and isinstance(v.func, ast.Attribute) and v.func.attr in S and [src(a) for a in v.args][-1:] == [pathp]:
                    h = S[v.func.attr]
                    hp = [a.arg for a in h.args.args][-1]
                    for r in walk_no_nested(h):
                        if isinstance(r, ast.Return) and isinstance(r.value, ast.Constant):
                            op = None
                            for t, pol in all_guards(p, r, h):
                                t2 = t.value if isinstance(t, ast.Await) else t
                                if pol and isinstance(t2, ast.Call) and isinstance(t2.func, ast.Attribute) and t2.func.attr in ("is_file", "is_dir") and [src(a) for a in t2.args] == [hp]:
                                    op = t2.func.attr
                            types[r.value.value] = op
    ok = types.get("file") == "is_file" and types.get("dir") == "is_dir"
    ctx.ob("C07.FACT", bm, f"Type=file iff is_file(path), Type=dir iff is_dir(path) ({types})", ok,
           f"MLSx Type fact is not decided by is_file/is_dir of the listed path: {types}", construct=f"mlsx:type {types}")
    stat_call = [c for c in walk_no_nested(bm) if isinstance(c, ast.Call) and is_method_call(c, "stat", "path_io")]
    ok = bool(stat_call) and all([src(a) for a in c.args] == [pathp] for c in stat_call)
    ctx.ob("C07.FACT", bm, "the facts come from stat(<the listed path>)", ok, "the facts are not taken from stat of the listed path", construct="mlsx:stat arg")
    # name: last, after exactly one space (accepted forms: s += " " + path.name; return <x> + " " + path.name; f"...{';'} {path.name}")
    from .c06 import flat_concat
    name_ok = False
    for n in walk_no_nested(bm):
        e = None
        if isinstance(n, ast.AugAssign) and isinstance(n.op, ast.Add):
            e = n.value
        elif isinstance(n, ast.Return) and n.value is not None:
            e = n.value
        elif isinstance(n, ast.Assign):
            e = n.value
        if e is None:
            continue
        parts = flat_concat(e)
        if len(parts) >= 2 and src(parts[-1]) == f"{pathp}.name" and isinstance(parts[-2], ast.Constant) and isinstance(parts[-2].value, str) \
                and parts[-2].value.endswith(" ") and not parts[-2].value.endswith("  "):
            name_ok = True
    ctx.ob("C07.FACT", bm, "the entry name is appended last after exactly one space", name_ok, "the MLSx line does not end with ' ' + path.name", construct="mlsx:name")
    # LIST fields
    bl = S.get("build_list_string")
    if bl is None:
        raise AnalysisError("anchor=Server.build_list_string not found")
    el = list_fields(p, bl)
    if el is None:
        raise Inconclusive("C07.FACT: LIST fields (the sequence joined by ' ') not found")
    lp = [a.arg for a in bl.args.args][-1]
    ctx.ob("C07.FACT", el[0], "LIST mode field is stat.filemode(st_mode)", st_attrs(el[0]) == {"st_mode"} and "filemode" in src(el[0]), "LIST mode field not from st_mode", construct="list:mode")
    ctx.ob("C07.FACT", el[4], f"LIST size field is str(st_size) (from {sorted(st_attrs(el[4]))})", st_attrs(el[4]) == {"st_size"} and src(el[4]).startswith("str("),
           f"LIST size field is taken from {sorted(st_attrs(el[4]))}, not from st_size", construct=f"list:size<-{sorted(st_attrs(el[4]))}")
    ctx.ob("C07.FACT", el[-1], "LIST name is path.name, last field", src(el[-1]) == f"{lp}.name", "LIST name is not the last field / not path.name", construct="list:name")
    date = el[5]
    ok = isinstance(date, ast.Call) and is_self_call(date, {"build_list_mtime"}) and st_attrs(date) == {"st_mtime"} and len(date.args) == 1
    ctx.ob("C07.FACT", el[5], "LIST date is build_list_mtime(st_mtime) with the default `now`", ok, "LIST date not from st_mtime (or `now` overridden)", construct="list:date")
    join = [c for c in walk_no_nested(bl) if isinstance(c, ast.Call) and is_method_call(c, "join")]
    ok = bool(join) and isinstance(join[0].func.value, ast.Constant) and join[0].func.value.value == " "
    ctx.ob("C07.FACT", bl, "LIST fields are joined by single spaces", ok, "LIST fields are not joined by single spaces", construct="list:join")
    stat_call = [c for c in walk_no_nested(bl) if isinstance(c, ast.Call) and is_method_call(c, "stat", "path_io")]
    ok = bool(stat_call) and all([src(a) for a in c.args] == [lp] for c in stat_call)
    ctx.ob("C07.FACT", bl, "LIST fields come from stat(<the listed path>)", ok, "LIST fields are not taken from stat of the listed path", construct="list:stat arg")
    ctx.floor("C07.FACT", 14)


def _is_name_eq_value(js, target):
    """f"{name}={value};" over the loop's (name, value) target"""
    if not (isinstance(target, ast.Tuple) and len(target.elts) == 2):
        return False
    n, v = [e.id for e in target.elts]
    vals = js.values
    return (len(vals) == 4 and isinstance(vals[0], ast.FormattedValue) and src(vals[0].value) == n and isinstance(vals[1], ast.Constant) and vals[1].value == "="
            and isinstance(vals[2], ast.FormattedValue) and src(vals[2].value) == v and isinstance(vals[3], ast.Constant) and vals[3].value == ";")


def list_fields(p, bl):
    """the field expressions of the LIST line: the tuple/list handed to ' '.join(...), single-definition locals expanded"""
    for c in walk_no_nested(bl):
        if isinstance(c, ast.Call) and is_method_call(c, "join") and isinstance(c.func.value, ast.Constant) and c.args:
            seq = expand(p, c.args[0], bl)
            if isinstance(seq, (ast.Tuple, ast.List)) and len(seq.elts) >= 6:
                return [deep_expand(p, x, bl) for x in seq.elts]
    return None


def rule_keys(ctx):
    p = ctx.p
    ctx.rule("C07.KEYS", "lower-cased server fact names cover the keys the client reads; MLSx and LIST parsers produce type/size/modify")
    S = p.methods("Server")
    facts = S["_build_mlsx_facts_from_stats"]
    names = {k.value.lower() for d in walk_no_nested(facts) if isinstance(d, ast.Dict) for k in d.keys if isinstance(k, ast.Constant)}
    names |= {n.targets[0].slice.value.lower() for n in walk_no_nested(S["build_mlsx_string"]) if isinstance(n, ast.Assign) and isinstance(n.targets[0], ast.Subscript)
              and isinstance(n.targets[0].slice, ast.Constant)}
    need = {"type", "size", "modify"}
    ctx.ob("C07.KEYS", facts, f"server fact names {sorted(names)} cover {sorted(need)}", need <= names, f"server facts {sorted(names)} lack {sorted(need - names)}", construct=f"keys:server {sorted(need - names)}")
    pm = p.method("BaseClient", "parse_mlsx_line")
    lowered = any(isinstance(n, ast.Assign) and isinstance(n.targets[0], ast.Subscript) and isinstance(n.targets[0].slice, ast.Call) and is_method_call(n.targets[0].slice, "lower") for n in walk_no_nested(pm))
    ctx.ob("C07.KEYS", pm, "the MLSx parser lower-cases fact names", lowered, "the MLSx parser does not lower-case fact names (the client reads info['type'])", construct="keys:mlsx lower")
    # fact split: facts ';'-separated, key=value at first '='
    ok = any(isinstance(c, ast.Call) and is_method_call(c, "split") and c.args and isinstance(c.args[0], ast.Constant) and c.args[0].value == ";" for c in walk_no_nested(pm)) and \
        any(isinstance(c, ast.Call) and is_method_call(c, "partition") and c.args and isinstance(c.args[0], ast.Constant) and c.args[0].value == "=" for c in walk_no_nested(pm))
    ctx.ob("C07.KEYS", pm, "facts are split at ';' and key/value at the first '='", ok, "the MLSx parser does not split facts at ';' and '='", construct="keys:mlsx split")
    pu = p.method("BaseClient", "parse_list_line_unix")
    keys = {n.targets[0].slice.value for n in walk_no_nested(pu) if isinstance(n, ast.Assign) and isinstance(n.targets[0], ast.Subscript) and isinstance(n.targets[0].slice, ast.Constant)}
    keys |= {k.value for n in walk_no_nested(pu) if isinstance(n, ast.Assign) and isinstance(n.value, ast.Dict) for k in n.value.keys if isinstance(k, ast.Constant)}
    ctx.ob("C07.KEYS", pu, f"the LIST parser produces {sorted(need)} (has {sorted(keys)})", need <= keys, f"the LIST parser lacks keys {sorted(need - keys)}", construct=f"keys:list {sorted(need - keys)}")
    for parser_name in ("parse_list_line_unix", "parse_list_line_windows"):
        pf_ = p.methods("BaseClient").get(parser_name)
        if pf_ is None:
            continue
        ks = [n.targets[0].slice for n in walk_no_nested(pf_) if isinstance(n, ast.Assign) and isinstance(n.targets[0], ast.Subscript) and isinstance(n.targets[0].slice, ast.Constant)
              and isinstance(n.targets[0].slice.value, str)]
        odd = [k for k in ks if k.value.lower() in need and k.value != k.value.lower()]
        ctx.ob("C07.KEYS", odd[0] if odd else pf_, f"{parser_name}: the keys it stores are spelled as the client reads them (lower case)", not odd,
               f"{parser_name} stores the key {odd[0].value!r}: the client reads info[{odd[0].value.lower()!r}]" if odd else "", construct=f"keys:{parser_name}:case")
    pw = p.methods("BaseClient").get("parse_list_line_windows")
    if pw is not None:
        kw_ = {n.targets[0].slice.value for n in walk_no_nested(pw) if isinstance(n, ast.Assign) and isinstance(n.targets[0], ast.Subscript) and isinstance(n.targets[0].slice, ast.Constant)}
        ctx.ob("C07.KEYS", pw, f"the Windows LIST parser produces {sorted(need)} (has {sorted(kw_)})", need <= kw_, f"the Windows LIST parser lacks keys {sorted(need - kw_)}", construct=f"keys:windows {sorted(need - kw_)}")
    # type mapping of the unix parser
    tm = {}
    for n in walk_no_nested(pu):
        if isinstance(n, ast.Assign) and isinstance(n.targets[0], ast.Subscript) and isinstance(n.targets[0].slice, ast.Constant) and n.targets[0].slice.value == "type" and isinstance(n.value, ast.Constant):
            for t, pol in flat_conditions(p, n, pu):
                if pol and isinstance(t, ast.Compare) and isinstance(t.comparators[0], ast.Constant) and src(t.left).endswith("[0]"):
                    tm[t.comparators[0].value] = n.value.value
    def _table(x):
        if isinstance(x, ast.Name):
            x = unique_def(pu, x.id)
        return x if isinstance(x, ast.Dict) else None
    cands = [n.value for n in walk_no_nested(pu) if isinstance(n, ast.Assign) and isinstance(n.targets[0], ast.Subscript) and isinstance(n.targets[0].slice, ast.Constant) and n.targets[0].slice.value == "type"]
    cands += [v_ for n in walk_no_nested(pu) if isinstance(n, ast.Assign) and isinstance(n.value, ast.Dict) for k_, v_ in zip(n.value.keys, n.value.values) if isinstance(k_, ast.Constant) and k_.value == "type"]
    for v in cands:   # dict-lookup form: {"-": "file", "d": "dir", ...}.get(s[0], "unknown")
        if True:
            if isinstance(v, ast.Call) and isinstance(v.func, ast.Attribute) and v.func.attr == "get" and _table(v.func.value) is not None and v.args and dsrc(p, v.args[0], pu).endswith("[0]"):
                for k_, v_ in zip(_table(v.func.value).keys, _table(v.func.value).values):
                    if isinstance(k_, ast.Constant) and isinstance(v_, ast.Constant):
                        tm[k_.value] = v_.value
            v = deep_expand(p, v, pu)
            if isinstance(v, ast.Call) and isinstance(v.func, ast.Attribute) and v.func.attr == "get" and isinstance(v.func.value, ast.Dict) and v.args and src(v.args[0]).endswith("[0]"):
                for k_, v_ in zip(v.func.value.keys, v.func.value.values):
                    if isinstance(k_, ast.Constant) and isinstance(v_, ast.Constant):
                        tm[k_.value] = v_.value
            if isinstance(v, ast.Subscript) and isinstance(v.value, ast.Dict) and src(v.slice).endswith("[0]"):
                for k_, v_ in zip(v.value.keys, v.value.values):
                    if isinstance(k_, ast.Constant) and isinstance(v_, ast.Constant):
                        tm[k_.value] = v_.value
    ok = tm.get("-") == "file" and tm.get("d") == "dir"
    ctx.ob("C07.KEYS", pu, f"LIST type mapping '-'->file, 'd'->dir ({tm})", ok, f"LIST type mapping is {tm}", construct=f"keys:list type {tm}")
    # size field is the 5th column (after mode, links, owner, group) — order of assignments
    order = [n.targets[0].slice.value for n in sorted([n for n in walk_no_nested(pu) if isinstance(n, ast.Assign) and isinstance(n.targets[0], ast.Subscript) and isinstance(n.targets[0].slice, ast.Constant)],
                                                      key=lambda n: n.lineno)]
    cols = [k for k in order if k in ("unix.mode", "unix.links", "unix.owner", "unix.group", "size", "modify")]
    ctx.ob("C07.KEYS", pu, f"LIST columns are parsed in the server's order ({cols})", cols == ["unix.mode", "unix.links", "unix.owner", "unix.group", "size", "modify"],
           f"LIST columns parsed in order {cols}; the server writes mode, links, owner, group, size, date, name", construct=f"keys:list order {cols}")


def rule_fmt(ctx):
    p = ctx.p
    ctx.rule("C07.FMT", "both server LIST date formats have the same width == the client's slice; each has a matching client strptime format")
    S = p.methods("Server")
    bm = S["build_list_mtime"]
    sf = [c for c in walk_no_nested(bm) if isinstance(c, ast.Call) and (dotted(c.func) or "").endswith("strftime")]

    def fmt_consts(e):
        e = expand(p, e, bm)
        if isinstance(e, ast.Constant) and isinstance(e.value, str):
            return [e.value]
        if isinstance(e, ast.IfExp):
            return fmt_consts(e.body) + fmt_consts(e.orelse)
        vals = const_values(p, e, bm)      # a format chosen into a local by if/else
        if vals and all(isinstance(v, str) for v in vals):
            return list(vals)
        return []
    sfmts = [f_ for c in sf if c.args for f_ in fmt_consts(c.args[0])]
    if len(sfmts) < 2:
        raise Inconclusive("C07.FMT: server LIST date formats not found as literals")
    widths = {fmt_width(f) for f in sfmts}
    unix = p.method("BaseClient", "parse_list_line_unix")
    cut = None
    for c in walk_no_nested(unix):
        if isinstance(c, ast.Call) and is_self_call(c, {"parse_ls_date"}):
            for s_ in ast.walk(c):
                if isinstance(s_, ast.Subscript) and isinstance(s_.slice, ast.Slice) and isinstance(s_.slice.upper, ast.Constant):
                    cut = s_.slice.upper.value
    ctx.ob("C07.FMT", bm, f"server date formats {sfmts} have one width {sorted(widths)} == client slice {cut}", len(widths) == 1 and cut in widths,
           f"server date formats {sfmts} have widths {sorted(widths)}; the client cuts the date column at {cut}", construct=f"fmt:{sorted(widths)} vs {cut}")
    # the time argument of both strftime calls is the localtime of st_mtime (ls prints local time; the client parses it as naive local)
    for c in sf:
        t = expand(p, c.args[1], bm) if len(c.args) > 1 else None
        ok = isinstance(t, ast.Call) and (dotted(t.func) or "") == "time.localtime" and [src(a) for a in t.args] == [bm.args.args[0].arg]
        ctx.ob("C07.FMT", c, "LIST date is formatted from time.localtime(st_mtime)", ok, f"LIST date formatted from `{src(c.args[1]) if len(c.args) > 1 else None}`", construct="fmt:time source")
    locale_ok = all(any(isinstance(q, ast.With) and any("setlocale" in src(i.context_expr) and "'C'" in src(i.context_expr) for i in q.items) for q in _anc(p, c)) for c in sf)
    ctx.ob("C07.FMT", bm, "month names are produced under the C locale", locale_ok, "LIST month names are not produced under the C locale", construct="fmt:locale")
    pd = p.method("BaseClient", "parse_ls_date")
    cfmts = [c.args[1].value for c in walk_no_nested(pd) if isinstance(c, ast.Call) and (dotted(c.func) or "").endswith("strptime") and len(c.args) > 1 and isinstance(c.args[1], ast.Constant)]
    norm = lambda f: f.replace("%e", "%d")
    for f_ in sfmts:
        ok = any(norm(f_) == norm(c) or norm(f_) == norm(c).replace("%Y ", "", 1) for c in cfmts)
        ctx.ob("C07.FMT", bm, f"server date format {f_!r} has a matching client strptime format among {cfmts}", ok,
               f"server date format {f_!r} has no matching client strptime format among {cfmts}", construct=f"fmt:{f_}")
    fd = p.method("BaseClient", "format_date_time")
    ok = any(isinstance(c, ast.Call) and is_method_call(c, "strftime") and c.args and isinstance(c.args[0], ast.Constant) and c.args[0].value == "%Y%m%d%H%M00" for c in walk_no_nested(fd))
    ctx.ob("C07.FMT", fd, "the client renders parsed LIST dates as %Y%m%d%H%M00 (minute precision, MLSx layout)", ok, "format_date_time no longer renders %Y%m%d%H%M00", construct="fmt:format_date_time")


def _anc(p, n):
    q = p.parent.get(n)
    while q is not None:
        yield q
        q = p.parent.get(q)


def rule_vanish(ctx):
    p = ctx.p
    ctx.rule("C07.VANISH", "an entry that cannot be stat'ed does not cost the whole listing: in the server's listing loops every `path_io.stat(<entry>)` - in the loop or in the "
                           "line builder it calls - runs only where `path_io.exists(<entry>)` held (a dangling symlink, an entry removed by another session between the scan "
                           "and the stat: reported without facts or skipped, not a 451 for the directory)")
    S = p.methods("Server")

    def guarded(node, fn, var):
        for t, pol in all_guards(p, node, fn):
            while isinstance(t, ast.UnaryOp) and isinstance(t.op, ast.Not):
                t, pol = t.operand, not pol
            t = deep_expand(p, t, fn)
            while isinstance(t, ast.UnaryOp) and isinstance(t.op, ast.Not):
                t, pol = t.operand, not pol
            if isinstance(t, ast.Await):
                t = t.value
            if pol and isinstance(t, ast.Call) and is_method_call(t, "exists") and last_attr(t.func.value) == "path_io" and t.args and src(t.args[0]) == var:
                return True
        return False

    def stats_on(fn, var):
        return [c for c in walk_no_nested(fn) if isinstance(c, ast.Call) and is_method_call(c, "stat") and last_attr(c.func.value) == "path_io" and c.args and src(c.args[0]) == var]
    n = 0
    for name, m in S.items():
        for fx in [m] + p.nested_functions(m):
            for lp in walk_no_nested(fx):
                if not isinstance(lp, (ast.For, ast.AsyncFor)) or not isinstance(lp.target, ast.Name):
                    continue
                if not any(isinstance(c, ast.Call) and is_method_call(c, "list") and last_attr(c.func.value) == "path_io" for c in ast.walk(deep_expand(p, lp.iter, fx))):
                    continue
                var = lp.target.id
                for c in [x for s_ in lp.body for x in ast.walk(s_) if isinstance(x, ast.Call)]:
                    if c in stats_on(fx, var):
                        n += 1
                        ctx.ob("C07.VANISH", c, f"{p.qualname(fx)}: `{src(c)[:40]}` on a listed entry runs under exists()", guarded(c, fx, var),
                               f"{p.qualname(fx)}: a listed entry is stat'ed without an exists() probe: one dangling link or vanished entry fails the whole listing",
                               construct=f"vanish:{p.qualname(fx)}:stat unguarded")
                    elif is_self_call(c, set(S)) and any(src(a) == var for a in c.args):
                        h = S[c.func.attr]
                        hp = [a.arg for a in h.args.args]
                        k = [src(a) for a in c.args].index(var) + 1
                        if k >= len(hp):
                            continue
                        site_ok = guarded(c, fx, var)
                        for st_ in stats_on(h, hp[k]):
                            n += 1
                            ctx.ob("C07.VANISH", st_, f"{h.name}: stat of the entry passed from {p.qualname(fx)} runs under exists() (in the builder or at the call)",
                                   site_ok or guarded(st_, h, hp[k]),
                                   f"{h.name} stats the listed entry without an exists() probe, and its call in {p.qualname(fx)} is not guarded by one either: a dangling "
                                   "symlink or an entry deleted meanwhile turns the whole listing into a 451", construct=f"vanish:{h.name}:stat unguarded")
    ctx.floor("C07.VANISH", 2, "stat calls on listed entries")


def rule_half(ctx):
    p = ctx.p
    ctx.rule("C07.HALF", "server 'recent' window is (now - T, now] with the client's T; client year-inference signs are consistent")
    S = p.methods("Server")
    bm = S["build_list_mtime"]
    mt = bm.args.args[0].arg
    # the statement that selects the date form: an If / IfExp with the time-of-day format on one side and the year format on the other
    def fmts(stmts):
        return [x.value for s_ in stmts for x in ast.walk(s_) if isinstance(x, ast.Constant) and isinstance(x.value, str) and "%" in x.value]
    br = None
    for cand in walk_no_nested(bm):
        if isinstance(cand, (ast.If, ast.IfExp)):
            bt, bf = (cand.body, cand.orelse) if isinstance(cand, ast.If) else ([cand.body], [cand.orelse])
            ft, ff = fmts(bt), fmts(bf)
            if (ft or ff) and (any("%H" in x for x in ft) != any("%H" in x for x in ff)):
                br = cand
                break
    if br is None:
        raise Inconclusive("C07.HALF: the statement that selects the LIST date format by the window test was not found")
    b_true, b_false = (br.body, br.orelse) if isinstance(br, ast.If) else ([br.body], [br.orelse])
    test = deep_expand(p, br.test, bm, stop={mt, "now"})
    negs = 0
    while isinstance(test, ast.UnaryOp) and isinstance(test.op, ast.Not):
        test, negs = test.operand, negs + 1
    if not any("%H" in x for x in fmts(b_true)):
        negs += 1           # the year form is the positive branch: the window is the negation of the test
    # window = conjunction of `d < 0` / `d <= 0` constraints, d linear in (mtime, now, T)
    def lin(e, sign=1, acc=None):
        acc = {} if acc is None else acc
        if isinstance(e, ast.BinOp) and isinstance(e.op, (ast.Add, ast.Sub)):
            lin(e.left, sign, acc)
            lin(e.right, sign if isinstance(e.op, ast.Add) else -sign, acc)
        elif isinstance(e, ast.UnaryOp) and isinstance(e.op, ast.USub):
            lin(e.operand, -sign, acc)
        elif isinstance(e, ast.Constant) and e.value == 0:
            pass
        else:
            k = src(e)
            acc[k] = acc.get(k, 0) + sign
        return acc

    def atoms(t, negate):
        """list of (d, strict): the window implies d < 0 (strict) or d <= 0; None when the shape is not a conjunction of comparisons"""
        if isinstance(t, ast.UnaryOp) and isinstance(t.op, ast.Not):
            return atoms(t.operand, not negate)
        if isinstance(t, ast.BoolOp):
            if isinstance(t.op, ast.And) == negate:
                return "disjunction"
            out = []
            for v in t.values:
                a_ = atoms(v, negate)
                if a_ is None or a_ == "disjunction":
                    return a_
                out += a_
            return out
        if isinstance(t, ast.Compare):
            terms = [t.left] + list(t.comparators)
            if negate and len(t.ops) > 1:
                return "disjunction"
            out = []
            for a_, op, b_ in zip(terms, t.ops, terms[1:]):
                if not isinstance(op, (ast.Lt, ast.LtE, ast.Gt, ast.GtE)):
                    return None
                less, strict = isinstance(op, (ast.Lt, ast.LtE)), isinstance(op, (ast.Lt, ast.Gt))
                if negate:
                    less, strict = not less, not strict
                d = lin(a_) if less else lin(b_)
                for k, v in (lin(b_) if less else lin(a_)).items():
                    d[k] = d.get(k, 0) - v
                out.append(({k: v for k, v in d.items() if v}, strict))
            return out
        return None
    cons = atoms(test, bool(negs % 2))
    if cons == "disjunction":
        ctx.fail("C07.HALF", br.test, f"the time-of-day (year-less) form is selected by a disjunction (`{src(br.test)[:70]}`, year-less branch taken when it is "
                 f"{'false' if negs % 2 else 'true'}): that is not the window (now - T, now] - timestamps outside it are written without their year", construct="half:not a window")
        cons = []
    if cons is None:
        raise Inconclusive("C07.HALF: window test is not a conjunction of comparisons: " + src(test))
    c = br.test
    thr_s = None
    upper_ok = False
    for d, strict in cons:
        if d.get("now") == 1 and d.get(mt) == -1 and len(d) == 3 and strict:
            k = next(k for k in d if k not in ("now", mt))
            if d[k] == -1:
                thr_s = k
        if d == {mt: 1, "now": -1} and not strict:
            upper_ok = True
    ctx.ob("C07.HALF", c, f"the year-less form is used only for mtime > now - T (T = {thr_s})", thr_s is not None,
           f"no lower bound `now - T < mtime` in `{src(test)}`", construct="half:lower bound")
    ctx.ob("C07.HALF", c, "the year-less form is used only for mtime <= now (future timestamps carry their year)", upper_ok,
           f"`{src(test)}` has no upper bound `mtime <= now`: a timestamp in the future is written without a year and read back in the wrong year", construct="half:upper bound")
    if negs % 2:
        b_true, b_false = b_false, b_true
    fm_true, fm_false = fmts(b_true), fmts(b_false)
    ok = bool(fm_true) and bool(fm_false) and "%H" in fm_true[0] and "%Y" in fm_false[0]
    ctx.ob("C07.HALF", br, "inside the window the time-of-day form is used, outside the year form", ok, f"window branches use {fm_true} / {fm_false}", construct="half:branches")
    pd = p.method("BaseClient", "parse_ls_date")
    thr_c = []
    for n in walk_no_nested(pd):
        tst, flipped = (n.test, False) if isinstance(n, ast.If) else (None, False)
        while isinstance(tst, ast.UnaryOp) and isinstance(tst.op, ast.Not):
            tst, flipped = tst.operand, not flipped
        if isinstance(n, ast.If) and isinstance(tst, ast.Compare) and isinstance(tst.left, ast.Name) and tst.left.id == "diff":
            if flipped:
                ctx.fail("C07.HALF", n, f"the year correction runs when `{src(tst)}` does NOT hold", construct=f"half:negated {src(tst)[:40]}")
                continue
            op = tst.ops[0]
            rhs = tst.comparators[0]
            neg = isinstance(rhs, ast.UnaryOp) and isinstance(rhs.op, ast.USub)
            t = src(rhs.operand if neg else rhs)
            delta = None
            for a in ast.walk(ast.Module(body=n.body, type_ignores=[])):
                if isinstance(a, ast.keyword) and a.arg == "year" and isinstance(a.value, ast.BinOp) and isinstance(a.value.right, ast.Constant):
                    delta = a.value.right.value * (1 if isinstance(a.value.op, ast.Add) else -1)
            thr_c.append((t, ">" if isinstance(op, (ast.Gt, ast.GtE)) else "<", neg, delta, n))
    if thr_s is None or not thr_c:
        raise Inconclusive("C07.HALF: thresholds not recognised")
    non_leap = [x for x in thr_c if "TWO_YEARS" not in x[0]]
    ctx.ob("C07.HALF", pd, "the client corrects the year in both directions (more than T in the past / in the future)", len(non_leap) >= 2,
           f"only {len(non_leap)} of the two year corrections (diff > T, diff < -T) were found in parse_ls_date", construct="half:corrections missing")
    for t, op, neg, delta, n in non_leap:
        ctx.ob("C07.HALF", n, f"client year inference uses the server's threshold ({t} vs {thr_s})", t == thr_s,
               f"server switches to the year form at `{thr_s}` but the client infers the year with `{t}`", construct=f"half:{thr_s} vs {t}")
        want = +1 if (op == ">" and not neg) else -1 if (op == "<" and neg) else None
        # diff = now - d: diff > T  => d is more than T in the past => the date belongs to... the server writes year-less only for (now-T, now]; a parsed date more than T
        # in the past must be in the NEXT year? no: strptime gave the current year; d in the future by more than T means previous year.
        # diff > T (d far in the past with this year) => actual date is next year; diff < -T (d far in the future) => previous year
        ctx.ob("C07.HALF", n, f"branch `diff {op} {'-' if neg else ''}T` moves the year by {delta} (must be {want})", want is not None and delta == want,
               f"year inference: branch `diff {op} {'-' if neg else ''}T` moves the year by {delta}, must be {want}", construct=f"half:sign {op}{'-' if neg else ''}T->{delta}")
    # both date forms are accepted whatever the day: every year-less strptime sits in a try whose ValueError handler parses the year form
    # (the server switches to "%b %d  %Y" for anything outside the window, 29 February included)
    def fmt_of(c):
        return next((a.value for a in c.args[1:2] if isinstance(a, ast.Constant) and isinstance(a.value, str)), None)
    sp = [c for c in walk_no_nested(pd) if isinstance(c, ast.Call) and (dotted(c.func) or "").endswith("strptime")]
    year_less = [c for c in sp if fmt_of(c) is not None and "%H" in fmt_of(c)]
    for c in year_less:
        rescued = False
        child, par = c, p.parent.get(c)
        while par is not None and par is not pd:
            if isinstance(par, ast.Try) and any(child is s_ or any(child is x for x in ast.walk(s_)) for s_ in par.body):
                for h in par.handlers:
                    if h.type is None or any(p.issub("ValueError", hn) for hn in hnames(p, h)):
                        if any(isinstance(x, ast.Call) and (dotted(x.func) or "").endswith("strptime") and fmt_of(x) is not None and "%Y" in fmt_of(x) and "%H" not in fmt_of(x) for s_ in h.body for x in ast.walk(s_)):
                            rescued = True
            child, par = par, p.parent.get(par)
        ctx.ob("C07.HALF", c, f"year-less parse `{fmt_of(c)}` falls back to the year form on ValueError", rescued,
               f"the year-less parse `{fmt_of(c)}` is not covered by the year-form fallback: a date the server wrote in the year form (outside the half-year window) "
               "on this branch makes the whole LIST line unparsable", construct=f"half:no year-form fallback for {fmt_of(c)}")
    # the shared constant itself
    for mod in ("common.py",):
        v = p.module_const(mod, "HALF_OF_YEAR_IN_SECONDS")
        if v is not None:
            try:
                val = eval(compile(ast.Expression(v), "<const>", "eval"), {"__builtins__": {}})
            except Exception:
                val = None
            ctx.ob("C07.HALF", v, f"HALF_OF_YEAR_IN_SECONDS is about half a year ({val})", isinstance(val, (int, float)) and 182 * 86400 <= val <= 184 * 86400,
                   f"HALF_OF_YEAR_IN_SECONDS = {val} ({val / 86400 if isinstance(val, (int, float)) else '?'} days) is not half of a 365/366-day year (182..184 days): timestamps "
                   "inside the last half year lose their time of day, or the client's year inference window and the calendar drift apart", construct="half:constant")
    ctx.floor("C07.HALF", 5)


def rule_all(ctx):
    p = ctx.p
    ctx.rule("C07.ALL", "server listing loops emit one line per entry; the client's lister yields each parsed line once, joined to the listing's own path; stat() reads the facts line")
    from .c01 import rule_listing_loops
    rule_listing_loops(ctx, "C07.ALL")
    lst = p.nested(p.method("Client", "list"), "__anext__")
    rets = [r for r in walk_no_nested(lst) if isinstance(r, ast.Return)]
    ok = False
    for r in rets:
        v = expand(p, r.value, lst)
        if isinstance(v, ast.Tuple) and len(v.elts) == 2 and isinstance(v.elts[0], ast.BinOp) and isinstance(v.elts[0].op, ast.Div) and last_attr(v.elts[0].left) == "path":
            nm = v.elts[0].right
            # name comes from parse_line(line) of the line just read
            if isinstance(nm, ast.Name) and any(k == "unpack" and isinstance(val, ast.Call) and last_attr(val.func) == "parse_line" for k, val, x in local_defs(lst, nm.id)):
                ok = True
    ctx.ob("C07.ALL", lst, "the lister returns (listing path / parsed name, parsed info) for the line just read", ok,
           "the lister does not return the parsed entry joined to the listing's own path", construct="list:return")
    # no ordinary entry is skipped (evaluated for the sample names 'x' and '.x'); '.'/'..' are (C19.DOT)
    from .c19 import lister_dot_table
    table = lister_dot_table(p, lst)
    if table is None:
        raise Inconclusive("C07.ALL: the lister's read loop was not found")
    for text in ("x", ".x"):
        outs = table[text]
        ctx.ob("C07.ALL", lst, f"entry {text!r}: reachable outcomes {sorted(outs)}: returned, never skipped", "skip" not in outs and "return" in outs,
               f"the client's lister drops the listing entry {text!r} (outcomes {sorted(outs)}): only '.' and '..' may be skipped", construct=f"list:skip:{text}")
    st = p.method("Client", "stat")
    ok = any(isinstance(c, ast.Call) and is_self_call(c, {"parse_mlsx_line"}) and c.args and isinstance(c.args[0], ast.Call) and is_method_call(c.args[0], "lstrip")
             and isinstance(c.args[0].func.value, ast.Subscript) and isinstance(c.args[0].func.value.slice, ast.Constant) and c.args[0].func.value.slice.value == 1 for c in walk_no_nested(st))
    ctx.ob("C07.ALL", st, "stat() parses the single body line (index 1) of the MLST reply", ok, "stat() does not parse info[1] of the MLST reply", construct="stat:line index")
    table, _ = p.command_table()
    ml = p.method("Server", table["mlst"])
    ok = any(is_reply(c) and len(c.args) >= 3 and isinstance(expand(p, c.args[1], ml), (ast.List, ast.Tuple)) and len(expand(p, c.args[1], ml).elts) == 3
             and isinstance(expand(p, c.args[2], ml), ast.Constant) and expand(p, c.args[2], ml).value is True for c in walk_no_nested(ml))
    ctx.ob("C07.ALL", ml, "MLST replies [head, facts-line, tail] in list mode (facts at index 1)", ok, "MLST reply is not a 3-line list-mode reply with the facts in the middle", construct="mlst:reply shape")


def _dot_set(n):
    try:
        v = set(ast.literal_eval(n))
    except Exception:
        return False
    return {".", ".."} <= v


def rule_live(ctx):
    from .c18 import rule_pure, rule_state
    from .c17 import rule_fresh
    ctx.rule("C07.LIVE", "what a listing or stat reports is read from the backend's tree at that moment: the in-memory backend's queries neither remember nor change anything "
                         "(shared with C18.PURE / C18.STATE), and the fact dictionary of an entry is built fresh for that entry (no mutable default shared between entries)")
    ctx.borrow(rule_pure, {"C18.PURE": "C07.LIVE"})
    ctx.borrow(rule_state, {"C18.STATE": "C07.LIVE"}, only=lambda fn: fn.startswith("MemoryPathIO."))
    ctx.borrow(rule_fresh, {"C17.FRESH": "C07.LIVE"}, only=lambda fn: "mlsx" in fn or "build_list" in fn or "stat" in fn)


def rule_memstat(ctx):
    p = ctx.p
    ctx.rule("C07.MEMSTAT", "the in-memory backend's stat() puts each value into the like-named field of its Stats tuple (size = number of stored bytes, independent of any cursor; "
                            "ctime/mtime from the node's ctime/mtime)")
    mc = p.cls("MemoryPathIO")
    fields = None
    for n in mc.body:
        if isinstance(n, ast.Assign) and any(isinstance(t, ast.Name) and t.id == "Stats" for t in n.targets) and isinstance(n.value, ast.Call) and last_attr(n.value.func) == "namedtuple" \
                and len(n.value.args) >= 2:
            f_ = n.value.args[1]
            if isinstance(f_, (ast.Tuple, ast.List)) and all(isinstance(e, ast.Constant) for e in f_.elts):
                fields = [e.value for e in f_.elts]
            elif isinstance(f_, ast.Constant) and isinstance(f_.value, str):
                fields = f_.value.replace(",", " ").split()
    st = p.methods("MemoryPathIO").get("stat")
    if fields is None or st is None:
        raise AnalysisError("anchor=MemoryPathIO.Stats field list / MemoryPathIO.stat not found")
    calls = [c for c in walk_no_nested(st) if isinstance(c, ast.Call) and last_attr(c.func) == "Stats"]
    if len(calls) != 1:
        raise Inconclusive(f"C07.MEMSTAT: {len(calls)} Stats(...) constructions in MemoryPathIO.stat")
    c = calls[0]
    given = {}
    for i, a in enumerate(c.args):
        if i < len(fields):
            given[fields[i]] = a
    for k in c.keywords:
        if k.arg:
            given[k.arg] = k.value
    node_cls = p.classes.get("Node")
    props = {n.name: n for n in (node_cls[0].body if node_cls else []) if isinstance(n, FuncT) and any(last_attr(d) in ("property", "cached_property") for d in n.decorator_list)}

    def texts(e, depth=3):
        """source texts of what an argument expression can be (locals and Node properties followed)"""
        out = [src(e)]
        if depth <= 0:
            return out
        if isinstance(e, ast.Name):
            for k_, d_, x_ in local_defs(st, e.id):
                if k_ == "assign" and isinstance(d_, ast.expr):
                    out += texts(d_, depth - 1)
                elif k_ == "unpack" and isinstance(x_, int):
                    for alt in (value_alternatives(p, d_, st) or []):
                        if isinstance(alt, (ast.Tuple, ast.List)) and len(alt.elts) > x_:
                            out += texts(alt.elts[x_], depth - 1)
        if isinstance(e, ast.Attribute) and e.attr in props:
            for r in walk_no_nested(props[e.attr]):
                if isinstance(r, ast.Return) and r.value is not None:
                    out += texts(r.value, depth - 1)
        if isinstance(e, ast.IfExp):
            out += texts(e.body, depth - 1) + texts(e.orelse, depth - 1)
        return out
    want = {"st_ctime": ("ctime",), "st_mtime": ("mtime",), "st_size": ("getbuffer", "getvalue", "nbytes"), "st_mode": ("S_IF",)}
    for f_, needles in want.items():
        if f_ not in given:
            ctx.fail("C07.MEMSTAT", c, f"Stats field {f_} is not filled", construct=f"memstat:{f_}:missing")
            continue
        ts = texts(given[f_])
        ok = any(nd in t for t in ts for nd in needles)
        other = [g for g in ("ctime", "mtime") if g not in needles and any(g in t for t in ts)]
        cursor = any(x in t for t in ts for x in (".tell()", ".seek("))
        ctx.ob("C07.MEMSTAT", given[f_], f"Stats.{f_} <- {src(given[f_])[:40]}", ok and not other and not cursor,
               f"MemoryPathIO.stat fills {f_} from `{src(given[f_])[:40]}`" + (f" (that is the node's {other[0]})" if other else " (a cursor position, not the stored size)" if cursor else "")
               + ": MLSD/MLST/LIST on the in-memory backend report a wrong " + {"st_size": "size", "st_mode": "type"}.get(f_, "time"), construct=f"memstat:{f_}")


def rule_listing_target(ctx):
    from .c04 import rule_same
    ctx.rule("C07.LATE", "a listing is of the directory the command named when it was given: LIST/MLSD resolve their argument in the handler, not in the worker that runs once "
                         "the data connection exists (a CWD in between would list another directory; shared with C04.SAME)")
    ctx.borrow(rule_same, {"C04.SAME": "C07.LATE"}, only=lambda fn: any(k in fn for k in ("Server.list", "Server.mlsd", "Server.mlst")))


RULES = [rule_listing_target, rule_fact, rule_keys, rule_fmt, rule_half, rule_vanish, rule_all, rule_live, rule_memstat]
