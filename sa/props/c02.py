"""C02 Every client-supplied path stays inside the user's base directory"""
import ast
from ..model import *
from ..util import *
from ..facts import *

EXPLANATION = (
    "Abstract interpretation of Server.get_paths over a lexical-path domain {WIRE, ABS_ANY, ABS_CLEAN, REL_CLEAN, "
    "REL_ANY, COMPONENT, COMPONENT!='..', PARTS_*, BASE, CONFINED, UNCONFINED, TOP} with branch refinement on "
    "`part == '..'` and `is_absolute()`: the real component must be CONFINED on every path and re-checked by an "
    "is_relative_to(base) guard with fallback, the virtual component ABS_CLEAN, the anchor-dropping slice only applied "
    "to a proven-absolute value. Then a provenance analysis over server.py: every path-typed argument of every backend "
    "call (incl. getattr(connection.path_io, name)) must be REAL (component 0 of get_paths(connection, rest), its "
    ".parent, entries listed under it, rename_from whose stores are REAL, helper parameters that meet to REAL); every "
    "store to the working directory is VIRTUAL or the user's home; only get_paths builds paths from base_path."
)
NOT_DECIDED = [
    "that pathlib implements its lexical operations as modelled",
    "symlinks inside the base directory (the property is lexical)",
    "unnormalised home_path configuration values",
]

(WIRE, ABS_ANY, ABS_CLEAN, REL_CLEAN, REL_ANY, COMP, COMP_NDD, PARTS_ABS, PARTS_TAIL, PARTS_ANY, BASE, CONFINED, UNCONF,
 S_REL_CLEAN, S_REL_ANY, ROOTSTR, BOOL, TOP, ANCHORSTR) = (
    "WIRE", "ABS_ANY", "ABS_CLEAN", "REL_CLEAN", "REL_ANY", "COMP", "COMP_NDD", "PARTS_ABS", "PARTS_TAIL", "PARTS_ANY", "BASE",
    "CONFINED", "UNCONF", "S_REL_CLEAN", "S_REL_ANY", "ROOTSTR", "BOOL", "TOP", "ANCHORSTR")
WORSE = {ABS_CLEAN: ABS_ANY, REL_CLEAN: REL_ANY, COMP_NDD: COMP, CONFINED: UNCONF, S_REL_CLEAN: S_REL_ANY, BASE: UNCONF}


def join(a, b):
    if a == b:
        return a
    for good, bad in WORSE.items():
        if {a, b} == {good, bad}:
            return bad
    if {a, b} == {BASE, CONFINED}:
        return CONFINED
    if {a, b} <= {BASE, CONFINED, UNCONF}:
        return UNCONF
    if {a, b} <= {PARTS_ABS, PARTS_TAIL, PARTS_ANY}:
        return PARTS_ANY
    if {a, b} == {"ABS_DS", ABS_CLEAN}:
        return "ABS_DS"
    if {a, b} == {"ABS_DS", ABS_ANY}:
        return ABS_ANY
    if {a, b} <= {ABS_ANY, ABS_CLEAN, WIRE, REL_ANY, REL_CLEAN}:
        return WIRE if ({a, b} & {WIRE, REL_ANY, REL_CLEAN}) else ABS_ANY
    return TOP


def interpret_resolver(p):
    """-> (returns [(values, guarded flags, stmt)], notes [(kind, node, msg)])"""
    if "c02_res" in p._cache:
        return p._cache["c02_res"]
    f = p.method("Server", "get_paths")
    params = [a.arg for a in f.args.args]
    if len(params) < 2:
        raise AnalysisError("anchor=get_paths signature changed (needs connection, path)")
    CONN, PATH = params[-2], params[-1]
    returns, notes = [], []
    call_stack = []

    def ev(e, env):
        if isinstance(e, ast.Name):
            return env.get(e.id, TOP)
        if isinstance(e, ast.Constant):
            return ROOTSTR if e.value == "/" else TOP
        if isinstance(e, ast.Attribute):
            s = src(e)
            if s == f"{CONN}.current_directory":
                return ABS_ANY
            if s == f"{CONN}.user.base_path":
                return BASE
            v = ev(e.value, env)
            if e.attr == "parent":
                return {ABS_CLEAN: ABS_CLEAN, ABS_ANY: ABS_ANY, CONFINED: UNCONF, BASE: UNCONF}.get(v, TOP)
            if e.attr == "parts":
                return PARTS_ABS if v in (ABS_ANY, ABS_CLEAN) else PARTS_ANY if v in (WIRE, REL_ANY, REL_CLEAN) else TOP
            if e.attr in ("anchor", "root", "drive") and v in (WIRE, ABS_ANY, ABS_CLEAN, REL_ANY, REL_CLEAN):
                return ANCHORSTR   # '', '/' or '//' (POSIX keeps exactly two leading slashes): not the root '/'
            return TOP
        if isinstance(e, ast.Subscript):
            v = ev(e.value, env)
            sl = e.slice
            if isinstance(sl, ast.Slice) and isinstance(sl.lower, ast.Constant) and sl.lower.value == 1 and sl.upper is None and sl.step is None:
                if v == PARTS_ABS:
                    return PARTS_TAIL
                if v == PARTS_ANY:
                    notes.append(("violation", e, "the anchor-dropping slice [1:] is applied to the parts of a path that is not proven absolute "
                                  "(a relative argument loses its first component / is not joined with the working directory)"))
                    return PARTS_TAIL
            if not isinstance(sl, ast.Slice) and v in (PARTS_TAIL, PARTS_ABS, PARTS_ANY):
                return COMP if v == PARTS_TAIL else TOP   # one component of the anchor-less tail (an index into the full parts may be the anchor)
            return TOP
        if isinstance(e, ast.BinOp) and isinstance(e.op, ast.Div):
            return div(ev(e.left, env), ev(e.right, env))
        if isinstance(e, ast.IfExp):
            return join(ev(e.body, refine(e.test, env, True)), ev(e.orelse, refine(e.test, env, False)))
        if isinstance(e, ast.Call):
            fn = e.func
            d = dotted(fn) or ""
            helper = None
            if isinstance(fn, ast.Attribute) and isinstance(fn.value, ast.Name) and fn.value.id in ("self", "cls", "Server") and fn.attr in p.methods("Server") and fn.attr != f.name:
                helper = p.methods("Server")[fn.attr]
            if helper is not None and len(call_stack) < 3:
                params_h = [a.arg for a in helper.args.args]
                is_static = any(last_attr(dd) == "staticmethod" for dd in helper.decorator_list)
                if not is_static and params_h and params_h[0] in ("self", "cls"):
                    params_h = params_h[1:]
                henv = {pn: ev(a, env) for pn, a in zip(params_h, e.args)}
                for k in e.keywords:
                    if k.arg in params_h:
                        henv[k.arg] = ev(k.value, env)
                local = []
                call_stack.append(helper)
                try:
                    run(helper.body, henv, local)
                finally:
                    call_stack.pop()
                vals = [v[0][0] for v in local if len(v[0]) == 1]
                if vals and len(vals) == len(local):
                    r = vals[0]
                    for v in vals[1:]:
                        r = join(r, v)
                    return r
                return TOP
            if d.endswith("PurePosixPath") and e.args:
                a = e.args[0]
                if isinstance(a, ast.Constant) and a.value == "/":
                    return ABS_CLEAN
                if isinstance(a, ast.Name) and a.id == PATH:
                    return WIRE
                v = ev(a, env)
                if v in (WIRE, ABS_ANY, ABS_CLEAN, REL_ANY, REL_CLEAN):
                    return v
                if v == "S_NORM_DS":
                    return "ABS_DS"  # '..' folded but possibly '//'-anchored: no entry rooted at '/' is its ancestor, relative_to('/') raises
                if v == ANCHORSTR:
                    return ABS_ANY
                return TOP
            if isinstance(fn, ast.Name) and fn.id == "str" and e.args and isinstance(e.args[0], ast.Name) and e.args[0].id == PATH and env.get(PATH, TOP) == TOP:
                return "S_WIRE"
            if isinstance(fn, ast.Name) and fn.id == "str" and e.args and ev(e.args[0], env) == "ABS_DS":
                return "S_NORM_DS"
            if isinstance(fn, ast.Name) and fn.id == "str" and e.args:
                return {REL_CLEAN: S_REL_CLEAN, REL_ANY: S_REL_ANY, ABS_ANY: "S_ABS", ABS_CLEAN: "S_ABS", WIRE: "S_WIRE"}.get(ev(e.args[0], env), TOP)
            if isinstance(fn, ast.Attribute) and fn.attr == "as_posix" and not e.args:
                return {REL_CLEAN: S_REL_CLEAN, REL_ANY: S_REL_ANY, ABS_ANY: "S_ABS", ABS_CLEAN: "S_ABS", WIRE: "S_WIRE"}.get(ev(fn.value, env), TOP)
            if d in ("posixpath.join", "os.path.join") and len(e.args) >= 2:
                vs = [ev(a, env) for a in e.args]
                if vs[0] == "S_ABS" and all(v in ("S_WIRE", "S_ABS", S_REL_CLEAN, S_REL_ANY) for v in vs[1:]):
                    return "S_ABS"    # absolute whatever the later parts are; may start with '//' and contain '..'
                return TOP
            if d.endswith("normpath") and e.args:
                v = ev(e.args[0], env)
                if v in ("S_ABS", ABS_ANY, ABS_CLEAN):
                    return "S_NORM_DS"   # '..' folded, but POSIX normpath keeps exactly two leading slashes
                return TOP
            if isinstance(fn, ast.Attribute):
                v = ev(fn.value, env)
                if fn.attr == "relative_to" and e.args and (ev(e.args[0], env) == ROOTSTR or ev(e.args[0], env) == ABS_CLEAN and src(e.args[0]).endswith("('/')")):
                    return {ABS_CLEAN: REL_CLEAN, ABS_ANY: REL_ANY}.get(v, TOP)
                if fn.attr in ("is_absolute", "is_relative_to"):
                    return BOOL
                if fn.attr in ("lstrip", "strip") and v in ("S_ABS", "S_NORM_DS") and len(e.args) == 1 and isinstance(e.args[0], ast.Constant) and e.args[0].value == "/":
                    return S_REL_ANY if v == "S_ABS" else S_REL_CLEAN
                if fn.attr == "replace" and v in (S_REL_CLEAN, S_REL_ANY) and len(e.args) >= 2 and isinstance(e.args[1], ast.Constant) and isinstance(e.args[1].value, str):
                    # rewriting characters of the already-normalised relative string: harmless unless it can create separators or dots
                    return S_REL_ANY if (set(e.args[1].value) & set("/.\\")) else v
                if fn.attr == "joinpath" and e.args:
                    r = v
                    for a in e.args:
                        r = div(r, ev(a, env))
                    return r
            return TOP
        return TOP

    def div(l, r):
        if l == ABS_CLEAN and r == COMP_NDD:
            return ABS_CLEAN
        if l in (ABS_CLEAN, ABS_ANY) and r in (COMP, COMP_NDD, WIRE, REL_ANY, REL_CLEAN):
            return ABS_ANY if r != REL_CLEAN or l == ABS_ANY else ABS_CLEAN
        if l == BASE and r in (S_REL_CLEAN, REL_CLEAN):
            return CONFINED
        if l == BASE and r == TOP:
            return TOP
        if l == BASE:
            return UNCONF
        return TOP

    def refine(test, env, truth):
        env = dict(env)
        if isinstance(test, ast.Compare) and len(test.ops) == 1 and isinstance(test.ops[0], (ast.Eq, ast.NotEq)):
            l, r = test.left, test.comparators[0]
            if isinstance(l, ast.Constant) and isinstance(r, ast.Name):
                l, r = r, l
            if isinstance(r, ast.Constant) and r.value == ".." and isinstance(l, ast.Name) and env.get(l.id) == COMP:
                neq = (isinstance(test.ops[0], ast.Eq) and not truth) or (isinstance(test.ops[0], ast.NotEq) and truth)
                if neq:
                    env[l.id] = COMP_NDD
        t, pol = test, truth
        if isinstance(t, ast.UnaryOp) and isinstance(t.op, ast.Not):
            t, pol = t.operand, not pol
        if isinstance(t, ast.Call) and isinstance(t.func, ast.Attribute) and t.func.attr == "is_absolute" and isinstance(t.func.value, ast.Name):
            n = t.func.value.id
            if pol and env.get(n) == WIRE:
                env[n] = ABS_ANY
        return env

    def join_env(e1, e2):
        if e1 is None:
            return e2
        if e2 is None:
            return e1
        out = {}
        for k in set(e1) | set(e2):
            if k.startswith("#"):
                if k in e1 and k in e2:
                    out[k] = BOOL
                continue
            out[k] = join(e1[k], e2[k]) if k in e1 and k in e2 else TOP
        return out

    def fail(s):
        notes.append(("inconclusive", s, f"statement outside the path domain's vocabulary: {src(s)[:60]}"))
        return None

    def run(stmts, env, sink=None):
        sink = returns if sink is None else sink
        for s in stmts:
            if env is None:
                return None
            if isinstance(s, ast.Expr):
                continue
            if isinstance(s, ast.Assign):
                v = ev(s.value, env)
                env = dict(env)
                for t in s.targets:
                    if isinstance(t, ast.Name):
                        env[t.id] = v
                        env.pop("#g:" + t.id, None)
                    else:
                        return fail(s)
            elif isinstance(s, ast.AugAssign) and isinstance(s.op, ast.Div) and isinstance(s.target, ast.Name):
                env = dict(env)
                env[s.target.id] = div(env.get(s.target.id, TOP), ev(s.value, env))
                env.pop("#g:" + s.target.id, None)
            elif isinstance(s, ast.If):
                e1 = run(s.body, refine(s.test, env, True), sink)
                e2 = run(s.orelse, refine(s.test, env, False), sink)
                env = join_env(e1, e2)
                t, neg = s.test, False
                if isinstance(t, ast.UnaryOp) and isinstance(t.op, ast.Not):
                    t, neg = t.operand, True
                if env is not None and isinstance(t, ast.Call) and isinstance(t.func, ast.Attribute) and t.func.attr == "is_relative_to" \
                        and isinstance(t.func.value, ast.Name) and t.args and ev(t.args[0], env) == BASE:
                    n = t.func.value.id
                    e_fail = e1 if neg else e2
                    if e_fail is not None and e_fail.get(n) == BASE:
                        env["#g:" + n] = BOOL
            elif isinstance(s, ast.AugAssign) and isinstance(s.target, ast.Name) and isinstance(s.op, (ast.Add, ast.Sub)):
                env = dict(env)
                env[s.target.id] = TOP     # counters
                env.pop("#g:" + s.target.id, None)
            elif isinstance(s, ast.While) and not s.orelse:
                head = env
                for _ in range(12):
                    new = join_env(head, run(s.body, dict(head), sink))
                    if new == head:
                        break
                    head = new
                env = head
            elif isinstance(s, ast.For) and isinstance(s.target, ast.Name):
                it = ev(s.iter, env)
                elem = COMP if it in (PARTS_TAIL, PARTS_ABS, PARTS_ANY) else TOP
                head = env
                for _ in range(12):
                    b = dict(head)
                    b[s.target.id] = elem
                    new = join_env(head, run(s.body, b, sink))
                    if new == head:
                        break
                    head = new
                env = head
            elif isinstance(s, ast.Return):
                elts = s.value.elts if isinstance(s.value, ast.Tuple) else [s.value]
                sink.append(([ev(x, env) for x in elts], [isinstance(x, ast.Name) and ("#g:" + x.id) in env for x in elts], s))
                return None
            elif isinstance(s, (ast.Pass,)):
                continue
            else:
                return fail(s)
        return env
    run(f.body, {PATH: TOP})
    p._cache["c02_res"] = (returns, notes, f)
    return p._cache["c02_res"]


def resolver_indices(p):
    """(index of the real component, index of the virtual component) of get_paths' result, derived from the
    abstract interpretation (falls back to (0, 1) only if the interpretation gives no base-derived component)"""
    returns, notes, f = interpret_resolver(p)
    for vals, g, s in returns:
        if len(vals) == 2:
            real = [i for i, v in enumerate(vals) if v in (CONFINED, BASE, UNCONF)]
            if len(real) == 1:
                return real[0], 1 - real[0]
    return 0, 1


def rule_res(ctx):
    p = ctx.p
    ctx.rule("C02.RES", "abstract interpretation of get_paths: real component CONFINED + is_relative_to guard, virtual component ABS_CLEAN")
    returns, notes, f = interpret_resolver(p)
    if not returns:
        raise Inconclusive("C02.RES: no return reached by the abstract interpreter: " + "; ".join(m for k, n, m in notes))
    any_fail = False
    for vals, g, s in returns:
        if len(vals) != 2:
            raise Inconclusive("C02.RES: get_paths does not return a pair")
        real = [i for i, v in enumerate(vals) if v in (CONFINED, BASE, UNCONF)]
        virt = [i for i in range(2) if i not in real]
        for i in real:
            ok = vals[i] != UNCONF
            any_fail |= not ok
            ctx.ob("C02.RES", s, f"returned real path (component {i}) is {vals[i]}", ok,
                   f"returned real path (component {i}) can lie outside the user's base directory: it is built from a part that may contain '..' or be absolute",
                   construct=f"get_paths:return[{i}]=UNCONF")
            if ok:
                any_fail |= not g[i]
                ctx.ob("C02.RES", s, f"real path (component {i}) is re-checked with is_relative_to(base) and falls back to the base", g[i],
                       "real path is not re-checked with is_relative_to(base_path) with a fallback to the base "
                       "(needed on path flavours where a component can re-anchor the join)", construct="get_paths:no is_relative_to guard")
        tops = [i for i in virt if vals[i] == TOP]
        for i in virt:
            if vals[i] == TOP:
                continue
            ok = vals[i] == ABS_CLEAN
            any_fail |= not ok
            ctx.ob("C02.RES", s, f"returned virtual path (component {i}) is {vals[i]}", ok,
                   f"returned virtual path (component {i}) is not the folded absolute form rooted at '/' (may still contain '..', be relative, or be '//'-anchored): {vals[i]}",
                   construct=f"get_paths:return[{i}]={vals[i]}")
        if tops and not any_fail and not any(k == "violation" for k, n, m in notes):
            raise Inconclusive("C02.RES: a returned component has no abstract value (operation outside the vocabulary): " + src(s))
        if tops:
            continue
        if not real:
            any_fail = True
            ctx.fail("C02.RES", s, "no returned component is derived from the user's base path", construct="get_paths:no base-derived component")
    for kind, node, msg in notes:
        if kind == "violation":
            ctx.fail("C02.RES", node, msg, construct="get_paths:[1:] on non-absolute")
        elif not any_fail:
            raise Inconclusive("C02.RES: " + msg)
    ctx.floor("C02.RES", 2)


# ---------------------------------------------------------------- provenance
BACKEND_PATH_OPS = {"exists": 1, "is_dir": 1, "is_file": 1, "mkdir": 1, "rmdir": 1, "unlink": 1, "list": 1, "stat": 1, "open": 1, "_open": 1, "rename": 2}


class PathProv:
    """flow-insensitive provenance of path-valued expressions in server.py"""

    def __init__(self, p):
        self.p = p
        self.methods = p.methods("Server")
        self.real_idx, self.virt_idx = resolver_indices(p)
        self.handler_names = set(p.command_table()[0].values())

    def label(self, expr, fn, depth=0):
        p = self.p
        if depth > 10:
            return "TOP"
        if isinstance(expr, ast.Name):
            f, ds = closure_lookup(p, fn, expr.id)
            if not ds:
                return "OTHER:" + expr.id
            labels = {self.def_label(k, n, x, f, expr.id, depth + 1) for k, n, x in ds}
            return labels.pop() if len(labels) == 1 else "MIXED:" + ",".join(sorted(labels))
        if isinstance(expr, ast.Attribute):
            expr = deep_expand(p, expr, fn) if isinstance(expr.value, ast.Name) and unique_def(fn, expr.value.id) is not None and expr.attr in ("home_path", "current_directory", "rename_from") else expr
            if expr.attr == "parent":
                base = self.label(expr.value, fn, depth + 1)
                return base if base in ("REAL", "VIRTUAL", "CWD") else "OTHER:" + src(expr)
            if expr.attr == "rename_from":
                labels = set()
                for stmt, tgt in attr_stores(p.trees["server.py"], "rename_from"):
                    if isinstance(stmt, ast.Assign):
                        labels.add(self.label(stmt.value, p.enclosing_function(stmt), depth + 1))
                return labels.pop() if len(labels) == 1 else "MIXED:" + ",".join(sorted(labels))
            if expr.attr == "home_path" and last_attr(expr.value) == "user":
                return "HOME"
            if expr.attr == "current_directory":
                return "CWD"
            return "OTHER:" + src(expr)
        if isinstance(expr, ast.Await):
            return self.label(expr.value, fn, depth)
        if isinstance(expr, ast.Subscript) and isinstance(expr.slice, ast.Constant) and isinstance(expr.value, ast.Call):
            arg = self.is_resolver_call(expr.value, fn)
            if arg in ("WIRE", "CWD"):
                return "REAL" if expr.slice.value == self.real_idx else "VIRTUAL" if expr.slice.value == self.virt_idx else "TOP"
        if isinstance(expr, ast.Call) and isinstance(expr.func, ast.Attribute) and isinstance(expr.func.value, ast.Name) and expr.func.value.id in ("self", "cls", "Server") \
                and expr.func.attr in self.methods and expr.func.attr != "get_paths":
            # a helper's result: the meet of the labels of what it returns (evaluated in the helper)
            h = self.methods[expr.func.attr]
            rets = [r.value for r in walk_no_nested(h) if isinstance(r, ast.Return) and r.value is not None]
            labels = {self.label(r, h, depth + 1) for r in rets}
            if len(labels) == 1:
                return labels.pop()
            return "MIXED:" + ",".join(sorted(labels)) if labels else "OTHER:" + src(expr)[:40]
        return "OTHER:" + src(expr)[:40]

    def is_resolver_call(self, node, fn):
        """get_paths(<connection>, <wire argument>) -> kind of its path argument"""
        if not (isinstance(node, ast.Call) and (dotted(node.func) or "").endswith(".get_paths") and len(node.args) == 2):
            return None
        return self.label(node.args[1], fn)

    def def_label(self, kind, node, extra, fn, name, depth):
        p = self.p
        if kind == "unpack" and isinstance(node, ast.Call):
            arg = self.is_resolver_call(node, fn)
            if arg is not None:
                if not (arg == "WIRE" or arg in ("CWD",)):
                    return f"RESOLVED({arg})[{extra}]" if arg not in ("WIRE", "CWD") else "TOP"
                return "REAL" if extra == self.real_idx else "VIRTUAL" if extra == self.virt_idx else "TOP"
        if kind == "assign" and isinstance(node, ast.Subscript) and isinstance(node.value, ast.Call) and isinstance(node.slice, ast.Constant):
            arg = self.is_resolver_call(node.value, fn)
            if arg in ("WIRE", "CWD"):
                return "REAL" if node.slice.value == self.real_idx else "VIRTUAL" if node.slice.value == self.virt_idx else "TOP"
        if kind == "assign" and isinstance(node, ast.expr):
            return self.label(node, fn, depth)
        if kind == "iter":
            # entries listed under a directory carry its label; the listing may be collected first (`await path_io.list(d)`), kept in a local, sorted / copied
            for _ in range(6):
                if isinstance(node, ast.Await):
                    node = node.value
                elif isinstance(node, ast.Call) and isinstance(node.func, ast.Name) and node.func.id in ("sorted", "list", "tuple", "reversed") and node.args:
                    node = node.args[0]
                elif isinstance(node, ast.Name) and unique_def(fn, node.id) is not None and isinstance(unique_def(fn, node.id), ast.expr):
                    node = unique_def(fn, node.id)
                else:
                    break
            if isinstance(node, ast.Call) and isinstance(node.func, ast.Attribute) and node.func.attr == "list" and last_attr(node.func.value) == "path_io" and node.args:
                return self.label(node.args[0], fn, depth)
            return "OTHER:iter"
        if kind == "param":
            params = [a.arg for a in fn.args.args]
            idx = params.index(name) if name in params else None
            host = p.enclosing_function(fn)
            if host is not None and idx is not None:
                # a nested function called by name in its host: the label of what the host passes
                labels = set()
                for c in ast.walk(host):
                    if isinstance(c, ast.Call) and isinstance(c.func, ast.Name) and c.func.id == fn.name and p.enclosing_function(c) is not fn:
                        if idx < len(c.args) and not any(isinstance(a, ast.Starred) for a in c.args[:idx + 1]):
                            labels.add(self.label(c.args[idx], p.enclosing_function(c) or host, depth))
                        elif kwarg(c, name) is not None:
                            labels.add(self.label(kwarg(c, name), p.enclosing_function(c) or host, depth))
                if labels:
                    return labels.pop() if len(labels) == 1 else "MIXED:" + ",".join(sorted(labels))
            is_handlerish = (p.enclosing_class(fn) is not None and p.enclosing_class(fn).name == "Server" and fn.name in self.handler_names) \
                or fn.name == "wrapper" or any(fn is w for h, w in p.workers())
            if is_handlerish and idx == 2:
                return "WIRE"
            if idx is None:
                return "OTHER:param"
            labels = set()
            is_static = any(last_attr(dd) == "staticmethod" for dd in fn.decorator_list)
            for m in list(self.methods.values()):
                for c in ast.walk(m):
                    if isinstance(c, ast.Call) and isinstance(c.func, ast.Attribute) and c.func.attr == fn.name and isinstance(c.func.value, ast.Name) and c.func.value.id in ("self", "cls", "Server"):
                        pos = idx if is_static else idx - 1
                        if 0 <= pos < len(c.args):
                            labels.add(self.label(c.args[pos], p.enclosing_function(c) or m, depth))
                        else:
                            kw = kwarg(c, name)
                            if kw is not None:
                                labels.add(self.label(kw, p.enclosing_function(c) or m, depth))
            if not labels:
                return "WIRE" if idx == 2 else "OTHER:param"
            return labels.pop() if len(labels) == 1 else "MIXED:" + ",".join(sorted(labels))
        return "TOP"


def rule_sink(ctx):
    p = ctx.p
    ctx.rule("C02.SINK", "every path-typed argument of every backend call in server.py is a resolved REAL path")
    pv = PathProv(p)
    srv = p.trees["server.py"]
    for c in ast.walk(srv):
        if not isinstance(c, ast.Call):
            continue
        fn = p.enclosing_function(c)
        if fn is None:
            continue
        args = None
        if isinstance(c.func, ast.Attribute) and c.func.attr in BACKEND_PATH_OPS and last_attr(c.func.value) == "path_io":
            args = c.args[:BACKEND_PATH_OPS[c.func.attr]]
        elif isinstance(c.func, ast.Name):
            for k, n, x in local_defs(fn, c.func.id):
                if k == "assign" and isinstance(n, ast.Call) and isinstance(n.func, ast.Name) and n.func.id == "getattr" and n.args and last_attr(n.args[0]) == "path_io":
                    args = c.args[:1]
        if args is None:
            continue
        for a in args:
            lab = pv.label(a, fn)
            ctx.ob("C02.SINK", c, f"{p.qualname(fn)}: `{src(c)[:60]}` path argument `{src(a)}` has provenance {lab}", lab == "REAL",
                   f"backend path argument `{src(a)}` has provenance {lab}, not the resolved real path of the request",
                   construct=f"{p.qualname(fn)}:{src(c)[:70]}")
    ctx.floor("C02.SINK", 16, "backend path arguments")
    # every resolver call site resolves the wire argument (or the cwd-derived path in cdup->cwd)
    for c in ast.walk(srv):
        if isinstance(c, ast.Call) and (dotted(c.func) or "").endswith(".get_paths"):
            fn = p.enclosing_function(c)
            arg = pv.is_resolver_call(c, fn)
            ok = arg in ("WIRE", "CWD") or (arg or "").startswith("MIXED:") and set((arg or "")[6:].split(",")) <= {"WIRE", "CWD"}
            ctx.ob("C02.SINK", c, f"{p.qualname(fn)}: the resolver is applied to the request's own argument ({arg})", ok,
                   f"get_paths is applied to `{src(c.args[1]) if len(c.args) > 1 else None}` ({arg}), not to the request's argument",
                   construct=f"{p.qualname(fn)}:resolver arg {arg}")


def rule_cwd(ctx):
    p = ctx.p
    ctx.rule("C02.CWD", "every store to the working directory is the VIRTUAL component of get_paths or the user's home; PWD reports that field")
    pv = PathProv(p)
    srv = p.trees["server.py"]
    n = 0
    for stmt, tgt in attr_stores(srv, "current_directory"):
        if isinstance(stmt, ast.Assign):
            n += 1
            lab = pv.label(stmt.value, p.enclosing_function(stmt))
            ctx.ob("C02.CWD", stmt, f"working directory set from {lab}", lab in ("VIRTUAL", "HOME"),
                   f"working directory set from {lab}, not from the resolved virtual path", construct=f"{p.fn_of(stmt)}:cwd<-{lab}")
    if n < 2:
        raise AnalysisError(f"rule=C02.CWD: {n} stores to the working directory (floor 2)")
    table, _ = p.command_table()
    if "pwd" in table:
        pwd = p.method("Server", table["pwd"])
        conn, _r = p.handler_params(pwd)
        reads = [x for x in walk_no_nested(pwd) if isinstance(x, ast.Attribute) and isinstance(x.ctx, ast.Load) and isinstance(x.value, ast.Name) and x.value.id == conn
                 and x.attr not in ("response", "future")]
        ok = bool(reads) and all(x.attr == "current_directory" for x in reads)
        ctx.ob("C02.CWD", pwd, "PWD builds its reply from the session's working directory only", ok,
               f"PWD reads {sorted({x.attr for x in reads})} instead of only the working directory", construct="pwd:source")


def rule_only(ctx):
    p = ctx.p
    ctx.rule("C02.ONLY", "no function other than get_paths builds a path from base_path")
    srv = p.trees["server.py"]
    allowed = {"get_paths", "__init__", "__repr__"}
    n = 0
    for x in ast.walk(srv):
        if isinstance(x, ast.Attribute) and x.attr == "base_path" and isinstance(x.ctx, ast.Load):
            fn = p.enclosing_function(x)
            name = fn.name if fn is not None else "<module>"
            n += 1
            ctx.ob("C02.ONLY", x, f"base_path read in {name}", name in allowed,
                   f"base_path used to build a path outside the resolver (in {name})", construct=f"{p.fn_of(x)}:base_path")
    ctx.floor("C02.ONLY", 2, "base_path reads")
    # no direct filesystem access bypassing the backend in server.py
    for c in ast.walk(srv):
        if isinstance(c, ast.Call):
            d = dotted(c.func) or ""
            if d in ("open", "os.open", "os.remove", "os.unlink", "os.rename", "os.mkdir", "os.makedirs", "os.rmdir", "os.listdir", "os.stat",
                     "shutil.rmtree", "shutil.move", "shutil.copy", "os.scandir", "io.open") or d.startswith("pathlib.Path("):
                ctx.fail("C02.ONLY", c, f"server.py touches the filesystem directly with {d}(), bypassing the resolved-path backend interface",
                         construct=f"{p.fn_of(c)}:{d}")


def rule_memo(ctx):
    p = ctx.p
    ctx.rule("C02.MEMO", "get_paths computes its result from the session's present state: a result remembered across calls must be keyed by, or dropped at every change of, the session state it was computed from")
    f = p.method("Server", "get_paths")
    conn = f.args.args[1].arg if len(f.args.args) > 1 and f.args.args[0].arg in ("self", "cls") else f.args.args[0].arg

    def persistent(e, depth=3):
        """name of the session/server attribute an expression is stored in (None for locals and fresh values)"""
        if depth < 0:
            return None
        if isinstance(e, ast.Attribute):
            base = e
            while isinstance(base, ast.Attribute):
                base = base.value
            if isinstance(base, ast.Name) and base.id in (conn, "self", "cls"):
                return src(e)
            return None
        if isinstance(e, ast.Call) and isinstance(e.func, ast.Name) and e.func.id == "getattr" and len(e.args) >= 2 and isinstance(e.args[1], ast.Constant) \
                and isinstance(e.args[0], ast.Name) and e.args[0].id in (conn, "self", "cls"):
            return f"{e.args[0].id}.{e.args[1].value}"
        if isinstance(e, ast.Call) and isinstance(e.func, ast.Attribute) and e.func.attr in ("get", "setdefault", "pop"):
            return persistent(e.func.value, depth - 1)
        if isinstance(e, ast.Subscript):
            return persistent(e.value, depth - 1)
        if isinstance(e, ast.Name):
            if e.id in p.module_level_names("server.py"):
                return e.id
            defs = [d_[1] for d_ in local_defs(f, e.id) if d_[0] == "assign"]
            for d_ in defs:
                r = persistent(d_, depth - 1)
                if r:
                    return r
        return None
    def element_of_store(e, depth=3):
        """the persistent container `e` is an element of (subscript / .get / .setdefault), following local names"""
        if depth < 0:
            return None
        if isinstance(e, ast.Subscript):
            return persistent(e.value)
        if isinstance(e, ast.Call) and isinstance(e.func, ast.Attribute) and e.func.attr in ("get", "setdefault", "pop"):
            return persistent(e.func.value)
        if isinstance(e, ast.Name):
            for d_ in local_defs(f, e.id):
                if d_[0] == "assign":
                    r_ = element_of_store(d_[1], depth - 1)
                    if r_:
                        return r_
        return None
    memos = []
    for r in walk_no_nested(f):
        if isinstance(r, ast.Return) and r.value is not None:
            vals = r.value.elts if isinstance(r.value, ast.Tuple) else [r.value]
            for v in vals:
                m = element_of_store(v)
                if m:
                    memos.append((r, v, m))
    ctx.ob("C02.MEMO", f, "every value get_paths returns is computed in that call (no remembered result)" if not memos else
           f"get_paths returns a remembered result from `{memos[0][2]}`", True)
    if not memos:
        return
    r, v, store = memos[0]
    attr = store.split(".")[-1]
    # the session state the resolution reads
    deps = sorted({x.attr for x in walk_no_nested(f) if isinstance(x, ast.Attribute) and isinstance(x.ctx, ast.Load) and isinstance(x.value, ast.Name) and x.value.id == conn and x.attr != attr})
    key_names = set()
    for x in walk_no_nested(f):
        if isinstance(x, ast.Subscript) and persistent(x.value) == store:
            k = deep_expand(p, x.slice, f)
            key_names |= {y.attr for y in ast.walk(k) if isinstance(y, ast.Attribute)} | {y.id for y in ast.walk(k) if isinstance(y, ast.Name)}
    for dep in deps:
        if dep in key_names:
            ctx.ob("C02.MEMO", r, f"the remembered result is keyed by session.{dep}", True)
            continue
        # every store of that session field must drop the memo in the same function
        for m_ in p.methods("Server").values():
            for st in walk_no_nested(m_):
                if isinstance(st, ast.Attribute) and isinstance(st.ctx, ast.Store) and st.attr == dep and m_.name != "__init__":
                    drops = any((isinstance(c, ast.Call) and is_method_call(c, "clear") and last_attr(c.func.value) == attr)
                                or (isinstance(c, ast.Attribute) and isinstance(c.ctx, (ast.Store, ast.Del)) and c.attr == attr) for c in walk_no_nested(m_))
                    ctx.ob("C02.MEMO", st, f"{m_.name}: changes session.{dep} and drops the remembered resolutions", drops,
                           f"get_paths returns results remembered in `{store}` keyed without session.{dep}, and {m_.name} changes session.{dep} without dropping them: "
                           f"a path argument seen before keeps resolving against the previous {dep} (another user's base directory / the previous working directory)",
                           construct=f"memo:{m_.name}:{dep}", function=p.qualname(m_))


def rule_lookup(ctx):
    from .c04 import rule_wrapper, rule_same
    ctx.rule("C02.LOOKUP", "the path used for the permission lookup is the resolver's normalised virtual path of the same argument, resolved once at command time - the location "
                           "looked up is the location acted on (shared with C04.ARG / C04.SAME)")
    ctx.borrow(rule_wrapper, {"C04.ARG": "C02.LOOKUP"})
    ctx.borrow(rule_same, {"C04.SAME": "C02.LOOKUP"})


def rule_home(ctx):
    p = ctx.p
    ctx.rule("C02.HOME", "the home directory every session starts in is a PurePosixPath built from the configured value (the resolver's arithmetic and the absoluteness test are POSIX-flavoured)")
    ui = p.method("User", "__init__")
    stores = [s_ for s_, t in attr_stores(ui, "home_path", nested=False) if isinstance(s_, ast.Assign)]
    if not stores:
        raise AnalysisError("anchor=User.home_path store not found")
    for st in stores:
        v = st.value

        def posix(e, depth=3):
            if isinstance(e, ast.Call) and (dotted(e.func) or "").split(".")[-1] == "PurePosixPath":
                return len(e.args) == 1 and src(e.args[0]) == "home_path"    # built from the home_path argument, nothing else
            if isinstance(e, ast.Name) and depth > 0:
                ds = local_defs(ui, e.id)
                return bool(ds) and all(k == "assign" and posix(d_, depth - 1) for k, d_, _ in ds)
            return False
        ctx.ob("C02.HOME", st, "User.home_path is PurePosixPath(<configured value>) whatever was passed", posix(v),
               f"User.home_path can keep the flavour of the value passed in (`{src(v)[:40]}`): a PureWindowsPath home passes its own is_absolute() test and becomes the working directory - "
               "PWD reports 'C:\\home', a backslash in an argument becomes a separator and a drive-like argument replaces the whole path", construct="home:flavour")


def rule_listed_dir(ctx):
    from .c18 import rule_listed
    ctx.rule("C02.LISTED", "a listing shows the directory that was resolved and looked up, not what its name matches as a pattern (shared with C18.FS)")
    rule_listed(ctx, "C02.LISTED")


def rule_fallback_pair(ctx):
    p = ctx.p
    f = p.method("Server", "get_paths")
    real_idx, virt_idx = resolver_indices(p)
    rets = [r for r in walk_no_nested(f) if isinstance(r, ast.Return) and isinstance(r.value, ast.Tuple) and len(r.value.elts) == 2]
    for br in walk_no_nested(f):
        if isinstance(br, ast.If) and any(isinstance(c, ast.Call) and is_method_call(c, "is_relative_to") for c in ast.walk(br.test)):
            names_real = {src(r.value.elts[real_idx]) for r in rets}
            names_virt = {src(r.value.elts[virt_idx]) for r in rets}
            stores = {t.id for n in br.body if isinstance(n, ast.Assign) for t in n.targets if isinstance(t, ast.Name)}
            if stores & names_real:
                ctx.ob("C02.RES", br, "when the real path is reset to the base directory the virtual path is reset to '/' with it", bool(stores & names_virt),
                       "the is_relative_to fallback resets the real path to the base directory but leaves the virtual path as it was: the pair no longer names one location",
                       construct="get_paths:fallback resets real only")


def rule_home_abs(ctx):
    p = ctx.p
    ui = p.method("User", "__init__")
    tests = [n for n in walk_no_nested(ui) if isinstance(n, ast.If) and any(isinstance(c, ast.Call) and is_method_call(c, "is_absolute") and "home_path" in dsrc(p, c, ui) for c in ast.walk(n.test))]
    ok = False
    for n in tests:
        neg = any(not pol for t, pol in flatten_test(p, n.test, True, ui) if isinstance(t, ast.Call) and is_method_call(t, "is_absolute"))
        ok = ok or (neg and any(isinstance(x, ast.Raise) for x in n.body))
    ctx.ob("C02.HOME", tests[0] if tests else ui, "a home directory that is not absolute is rejected when the User is built", ok,
           "User.__init__ accepts a relative home_path: the session's working directory starts relative, the resolver's `parts[1:]` drops its first component", construct="home:relative accepted")


REINTERPRET = {"normpath": "collapses '..' textually", "realpath": "follows links", "abspath": "normalises", "expanduser": "'~' becomes the account's home", "expandvars": "expands $VAR",
               "resolve": "follows links and '..'", "PureWindowsPath": "reads '\\' as a separator", "PurePath": "platform flavour", "absolute": "prefixes the process cwd"}


def rule_verbatim(ctx):
    p = ctx.p
    ctx.rule("C02.VERBATIM", "the backends act on the path object the server confined, as it is: no backend method re-interprets it (normpath / realpath / expanduser / resolve / "
                             "PureWindowsPath ...) - a name the resolver treated as one harmless component ('x\\..\\..\\y', '~') must not become a traversal below it")
    n = 0
    for b in p.backends():
        for name, m in p.methods(b).items():
            for fx in [m] + p.nested_functions(m):
                n += 1
                for c in walk_no_nested(fx):
                    if isinstance(c, ast.Call):
                        nm = (dotted(c.func) or src(c.func)).split(".")[-1]
                        if nm in REINTERPRET:
                            ctx.fail("C02.VERBATIM", c, f"{b}.{name}: `{src(c)[:50]}` re-interprets the path after the server confined it ({REINTERPRET[nm]}): the location acted on is "
                                     "no longer the one whose confinement and permission were checked", construct=f"verbatim:{b}.{name}:{nm}")
    ctx.ob("C02.VERBATIM", p.trees["pathio.py"], f"{n} backend functions scanned for path re-interpretation", True)
    if n < 30:
        ctx.floor_errors.append(f"rule=C02.VERBATIM: {n} backend functions (floor 30)")


RULES = [rule_verbatim, rule_res, rule_sink, rule_cwd, rule_only, rule_memo, rule_lookup, rule_home, rule_listed_dir, rule_home_abs, rule_fallback_pair]
