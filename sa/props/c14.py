"""C14 ABOR at any moment stops the transfer, is answered, and keeps the session usable"""
import ast
from ..model import *
from ..util import *
from ..facts import *
from ..lifecycle import check_detach, check_outer
from ..paths import Cfg, evaluated
from .c05 import mask_matches

EXPLANATION = (
    "Decorator-order rule: for every coroutine whose task is placed in extra_workers the OUTERMOST wrapper is the "
    "abortable guard (catches CancelledError, replies 426 then 226, swallows the cancellation) - in particular outside "
    "the data-connection wait. ABOR cancels every member of a non-empty worker set and replies a single 226 otherwise, "
    "always returning True. The dispatcher removes finished tasks from the worker set before collecting results and "
    "waits on pending | extra_workers. Cancellation inside a transfer unwinds through the data stream's context. "
    "The client's abort(wait=True) expects 226 and waits through 426."
)
NOT_DECIDED = [
    "prefix property of the delivered/stored data",
    "every abort position in a controllable schedule (only the structural guard order and unwinding are decided)",
    "an ABOR that arrives after completion but before the dispatcher has collected the finished task (scheduling)",
]


def rule_outer(ctx):
    ctx.rule("C14.OUTER", "the abortable guard is the outermost wrapper of every transfer worker")
    check_outer(ctx, "C14.OUTER")
    p = ctx.p
    # the guard itself: CancelledError handler replies 426 then 226 and does not re-raise; normal path returns/falls
    wr = p.wrapper_of("worker")
    conn = [a.arg for a in wr.args.args][1]
    hs = [h for t in walk_no_nested(wr) if isinstance(t, ast.Try) for h in t.handlers if h.type is not None and "CancelledError" in handler_names(h)]
    ok = False
    for h in hs:
        t = p.parent[h]
        covers = any(isinstance(x, ast.Await) and isinstance(x.value, ast.Call) and isinstance(x.value.func, ast.Name) and x.value.func.id == p.wrapped_param("worker")
                     for s in t.body for x in walk_self(s))
        good = covers
        for ev, out in Cfg(lambda n: [], p.issub).seq(h.body):
            codes = [c.args[0].value if c.args and isinstance(c.args[0], ast.Constant) else None for n in evaluated(ev) for c in walk_self(n) if is_reply(c, conn)]
            if codes != ["426", "226"] or out[0] == "raise":
                good = False
        ok = ok or good
    ctx.ob("C14.OUTER", wr, "the guard awaits the wrapped worker inside try/except CancelledError, answers 426 then 226 and swallows the cancellation", ok,
           "the abortable guard does not answer a cancellation with 426 then 226 (or re-raises it)", construct="worker.wrapper:guard")


def rule_abor(ctx):
    p = ctx.p
    ctx.rule("C14.ABOR", "ABOR cancels every member of a non-empty worker set; a single 226 otherwise; the session continues")
    table, _ = p.command_table()
    if "abor" not in table:
        raise AnalysisError("anchor=ABOR handler not in the command table")
    ab = p.method("Server", table["abor"])
    conn, rest = p.handler_params(ab)
    paths = enum_paths(p, ab, unroll=2)
    ctx.paths_enumerated += len(paths)
    seen = set()
    for ev, out in paths:
        pf = PathFacts(p, ab, conn, ev, out)
        if pf.infeasible or pf.kind in ("raise", "cut"):
            continue
        codes = tuple(c for c, _ in pf.replies)
        nonempty = None
        for e in ev:
            if e[0] == "branch":
                t, pol = e[1], e[2]
                if isinstance(t, ast.UnaryOp) and isinstance(t.op, ast.Not):
                    t, pol = t.operand, not pol
                if last_attr(expand(p, t, ab)) == "extra_workers":
                    nonempty = pol
        sig = (codes, pf.cancels, nonempty, pf.ret)
        if sig in seen:
            continue
        seen.add(sig)
        if pf.cancels:
            ctx.ob("C14.ABOR", ab, "cancelling path: taken only when the worker set is non-empty, emits no reply of its own", nonempty is True and not codes,
                   f"ABOR cancels workers on a path where the set is not known non-empty, or also replies {codes} (the guard's 426/226 would be followed by a second 226)",
                   construct=f"abor:cancel:{nonempty}:{codes}")
        else:
            ctx.ob("C14.ABOR", ab, f"non-cancelling path: worker set empty and exactly one 226 {codes}", nonempty is False and codes == ("226",),
                   f"ABOR without a running transfer replies {codes} (must be a single 226) or takes this path although workers exist",
                   construct=f"abor:idle:{nonempty}:{codes}")
        ctx.ob("C14.ABOR", ab, "ABOR keeps the session open (returns True)", pf.ret is True, f"ABOR returns {pf.ret!r}", construct=f"abor:ret:{pf.ret!r}")
    # cancels *every* member: loop over the whole set, no break/conditional
    loops = [l for l in walk_no_nested(ab) if isinstance(l, ast.For) and last_attr(expand(p, l.iter, ab)) == "extra_workers"]
    ok = bool(loops) and all(len(l.body) >= 1 and any(isinstance(s, ast.Expr) and is_method_call(s.value, "cancel") and isinstance(s.value.func.value, ast.Name)
                                                     and isinstance(l.target, ast.Name) and s.value.func.value.id == l.target.id for s in l.body)
                             and not any(isinstance(x, (ast.Break, ast.Return, ast.Continue)) for x in ast.walk(l)) for l in loops)
    ctx.ob("C14.ABOR", ab, "every member of the worker set is cancelled unconditionally", ok,
           "ABOR does not cancel every member of the worker set", construct="abor:loop")
    login = field_names(p)["login_required"]
    ctx.floor("C14.ABOR", 4)


def rule_done(ctx):
    p = ctx.p
    ctx.rule("C14.DONE", "the dispatcher waits on pending | extra_workers and removes finished tasks from extra_workers before handling results")
    disp = p.dispatcher()
    conn = p.session_var()
    waits = [c for c in walk_no_nested(disp) if isinstance(c, ast.Call) and (dotted(c.func) or "").endswith("asyncio.wait")]
    wait_ok = None
    for c in waits:
        if c.args and any(isinstance(x, ast.Attribute) and x.attr == "extra_workers" for x in ast.walk(c.args[0])):
            wait_ok = c
    ctx.ob("C14.DONE", disp, "the session loop waits on a set that includes extra_workers", wait_ok is not None,
           "the dispatcher's wait no longer includes the transfer workers: their results (and failures) are never collected", construct="dispatcher:wait set")
    fc = wait_ok is not None and isinstance(kwarg(wait_ok, "return_when"), ast.Attribute) and kwarg(wait_ok, "return_when").attr == "FIRST_COMPLETED"
    ctx.ob("C14.DONE", disp, "the wait returns on FIRST_COMPLETED (a command can be served while a transfer runs)", fc,
           "the dispatcher's wait does not return on the first completed task: ABOR cannot be read while a transfer runs", construct="dispatcher:return_when")
    done_var = None
    if wait_ok is not None:
        st = p.enclosing_stmt(wait_ok)
        if isinstance(st, ast.Assign) and isinstance(st.targets[0], ast.Tuple) and isinstance(st.targets[0].elts[0], ast.Name):
            done_var = st.targets[0].elts[0].id
    rm = [n for n in walk_no_nested(disp) if (isinstance(n, ast.AugAssign) and isinstance(n.op, ast.Sub) and last_attr(n.target) == "extra_workers"
                                               and isinstance(n.value, ast.Name) and n.value.id == done_var)
          or (isinstance(n, ast.Expr) and isinstance(n.value, ast.Call) and is_method_call(n.value, "difference_update", "extra_workers"))
          or (isinstance(n, ast.Assign) and last_attr(n.targets[0]) == "extra_workers" and isinstance(n.value, ast.BinOp) and isinstance(n.value.op, ast.Sub))]
    ok = False
    for n in rm:
        # must come right after the wait, before the loop over done (same block, earlier than the `for task in done`)
        blk = p.parent.get(n)
        body = getattr(blk, "body", [])
        if n in body:
            def uses_done(s):
                return any(isinstance(x, (ast.For, ast.comprehension)) and isinstance(x.iter, ast.Name) and x.iter.id == done_var for x in ast.walk(s))
            later_for = [s for s in body[body.index(n) + 1:] if uses_done(s)]
            earlier_for = [s for s in body[:body.index(n)] if uses_done(s)]
            if later_for and not earlier_for and not all_guards(p, n, disp)[1:]:
                ok = True
    ctx.ob("C14.DONE", disp, "finished tasks are removed from extra_workers before their results are handled, unconditionally", ok,
           "dispatcher does not remove finished tasks from extra_workers before handling results: an ABOR after completion finds stale members and is never answered",
           construct="missing extra_workers -= done")


def rule_close(ctx):
    ctx.rule("C14.CLOSE", "cancellation inside the transfer unwinds through the data stream's context (the data connection is closed)")
    check_detach(ctx, "C14.CLOSE")


def rule_shield(ctx):
    p = ctx.p
    ctx.rule("C14.SHIELD", "the data-connection wait never cancels the session's presence futures: the awaited aggregate is shielded and nothing in the guard cancels it")
    w = p.wrapper_of("ConnectionConditions")
    waits = [c for c in walk_no_nested(w) if isinstance(c, ast.Call) and (dotted(c.func) or "") in ("asyncio.wait_for", "wait_for")]
    plain_waits = [c for c in walk_no_nested(w) if isinstance(c, ast.Call) and (dotted(c.func) or "") in ("asyncio.wait", "wait")]
    ok = bool(waits) or bool(plain_waits)    # asyncio.wait() never cancels what it waits for: nothing to shield
    for c in waits:
        a = expand(p, c.args[0], w) if c.args else None
        ok = ok and isinstance(a, ast.Call) and (dotted(a.func) or "").endswith("shield")
    ctx.ob("C14.SHIELD", w, "the guard awaits wait_for(shield(<aggregate>), timeout)", ok,
           "the guard's wait is not shielded: cancelling the waiting worker (ABOR) cancels the session's presence futures", construct="guard:no shield")
    cancels = [c for c in walk_no_nested(w) if isinstance(c, ast.Call) and is_method_call(c, "cancel")]
    ctx.ob("C14.SHIELD", cancels[0] if cancels else w, "nothing in the guard calls cancel()", not cancels,
           f"the guard calls `{src(cancels[0]) if cancels else ''}`: cancelling the gathered aggregate cancels the session's own presence futures (e.g. data_connection), "
           "so after an ABOR during the wait the next PASV/transfer fails inside the dispatcher", construct="guard:cancels aggregate")


def rule_exit(ctx):
    p = ctx.p
    ctx.rule("C14.EXIT", "the data stream's context exit and close() never suspend: the cancellation path of an aborted transfer cannot wait on the peer")
    for cls in ("ThrottleStreamIO", "StreamIO"):
        ms = p.methods(cls)
        for name in ("__aexit__", "close"):
            if name not in ms:
                continue
            fn = ms[name]
            susp = may_suspend_fn(p, fn) if isinstance(fn, ast.AsyncFunctionDef) else False
            ctx.ob("C14.EXIT", fn, f"{cls}.{name} has no suspension point", not susp,
                   f"{cls}.{name} may suspend (e.g. waits for the peer to drain/close): a cancelled transfer hangs there, ABOR is never answered and the data connection stays open",
                   construct=f"{cls}.{name}:suspends")
        if "__aexit__" in ms:
            closes = any(is_method_call(c, "close") for c in walk_no_nested(ms["__aexit__"]) if isinstance(c, ast.Call))
            uncond = closes and not any(isinstance(x, (ast.If, ast.Try)) for x in walk_no_nested(ms["__aexit__"]))
            ctx.ob("C14.EXIT", ms["__aexit__"], f"{cls}.__aexit__ closes the stream unconditionally (also on cancellation)", uncond,
                   f"{cls}.__aexit__ does not close the stream on every exit", construct=f"{cls}.__aexit__:close")
    ctx.floor("C14.EXIT", 3)


def rule_cli(ctx):
    p = ctx.p
    ctx.rule("C14.CLI", "the client's abort(wait=True) expects 226 and waits through 426")
    ab = p.method("BaseClient", "abort") if "abort" in p.methods("BaseClient") else p.method("Client", "abort")
    cmds = [c for c in walk_no_nested(ab) if isinstance(c, ast.Call) and isinstance(c.func, ast.Attribute) and c.func.attr == "command" and c.args
            and isinstance(c.args[0], ast.Constant) and str(c.args[0].value).upper().startswith("ABOR")]
    waiting = [c for c in cmds if len(c.args) >= 2]
    ok = False
    for c in waiting:
        try:
            exp = ast.literal_eval(c.args[1])
            wait = ast.literal_eval(c.args[2]) if len(c.args) > 2 else ()
        except Exception:
            continue
        exp = [exp] if isinstance(exp, str) else list(exp)
        wait = [wait] if isinstance(wait, str) else list(wait)
        if any(mask_matches(m, "226") for m in exp) and any(mask_matches(m, "426") for m in wait) and not any(mask_matches(m, "426") for m in exp):
            ok = True
    ctx.ob("C14.CLI", ab, "abort(wait=True): expected masks accept 226, wait masks accept 426, 426 is not final", ok,
           "the client's waiting ABOR does not expect 226 while waiting through 426", construct="abort:masks")


def rule_last(ctx):
    from .c01 import rule_ack
    ctx.rule("C14.LAST", "the completion reply is the last thing a transfer worker does: an ABOR arriving after it finds no worker still closing files (else the client gets 226, then 426 and 226; shared with C01.ACK)")
    ctx.borrow(rule_ack, {"C01.ACK": "C14.LAST"})


def provably_falsy_return(p, fn, v, depth=2):
    """the returned expression is None / False on every evaluation: a constant, or a call of a method of the same class / module function none of whose
    returns carries a value"""
    if v is None:
        return True
    if isinstance(v, ast.Constant):
        return v.value in (None, False)
    if isinstance(v, ast.Await):
        v = v.value
    if isinstance(v, ast.Call) and depth > 0:
        callee = None
        if isinstance(v.func, ast.Attribute) and isinstance(v.func.value, ast.Name) and v.func.value.id in ("self", "cls"):
            c = p.enclosing_class(fn)
            names = [c.name] if c is not None else []
            while names:
                cn = names.pop()
                if cn in p.classes:
                    ms = p.methods(cn)
                    if v.func.attr in ms:
                        callee = ms[v.func.attr]
                        break
                    names += [last_attr(b) for b in p.cls(cn).bases if last_attr(b)]
        if callee is not None:
            rets = [r for r in walk_no_nested(callee) if isinstance(r, ast.Return)]
            return all(provably_falsy_return(p, callee, r.value, depth - 1) for r in rets) and not any(isinstance(y, (ast.Yield, ast.YieldFrom)) for y in walk_no_nested(callee))
    return False


def rule_cm(ctx):
    p = ctx.p
    ctx.rule("C14.CM", "no context manager of the package can swallow an exception: __exit__/__aexit__ never return a value that may be true, and no `return`/`break`/`continue` "
                       "sits in a `finally` block (either would silently drop an in-flight CancelledError - the abort - or a backend error)")
    n = 0
    for q, fn in p.functions.items():
        if fn.name in ("__exit__", "__aexit__"):
            n += 1
            bad = [r for r in walk_no_nested(fn) if isinstance(r, ast.Return) and not provably_falsy_return(p, fn, r.value)]
            ctx.ob("C14.CM", bad[0] if bad else fn, f"{q} returns nothing that could be true", not bad,
                   f"{q} returns `{src(bad[0].value)[:50] if bad else ''}`: a true value makes the `with` statement swallow the exception that is leaving it "
                   "(a CancelledError from ABOR is lost: no 426/226, the transfer is reported complete; a parser's ValueError turns into an UnboundLocalError)",
                   construct=f"cm:{q}:returns value")
        for t in walk_no_nested(fn):
            if isinstance(t, ast.Try) and t.finalbody:
                for x in [y for s_ in t.finalbody for y in walk_self(s_)]:
                    if isinstance(x, ast.Return) or (isinstance(x, (ast.Break, ast.Continue)) and not any(isinstance(a_, (ast.For, ast.While, ast.AsyncFor)) and any(x is z for z in ast.walk(a_))
                                                                                                           for s_ in t.finalbody for a_ in walk_self(s_))):
                        ctx.fail("C14.CM", x, f"{q}: `{src(x)[:40]}` inside a `finally` block discards the exception in flight (a cancellation is swallowed: ABOR is never answered 426/226)",
                                 construct=f"cm:{q}:jump in finally")
    if n < 4:
        ctx.floor_errors.append(f"rule=C14.CM: {n} __exit__/__aexit__ methods (floor 4)")
    # a handler that can catch a cancellation (bare except, BaseException, CancelledError) re-raises - the one exception is the abort guard itself
    guard = p.wrapper_of("worker")
    for q, fn in p.functions.items():
        if p.module_of.get(fn) not in ("server.py", "common.py", "pathio.py"):
            continue
        for h in walk_no_nested(fn):
            if not isinstance(h, ast.ExceptHandler):
                continue
            names = ["BaseException"] if h.type is None else hnames(p, h)
            if not any(x in ("BaseException", "CancelledError") for x in names):
                continue
            if fn is guard:
                continue
            ends = h.body and isinstance(h.body[-1], ast.Raise)
            cond_raise = any(isinstance(x, ast.Raise) for s_ in h.body for x in walk_self(s_))
            ctx.ob("C14.CM", h, f"{q}: `except {src(h.type) if h.type is not None else ''}` re-raises", bool(ends),
                   f"{q}: the handler `except {src(h.type) if h.type is not None else ''}` catches cancellations and " + ("re-raises only on some paths" if cond_raise else "does not re-raise")
                   + ": an ABOR / teardown that cancels the task at that point is swallowed and the code carries on as if nothing happened", construct=f"cm:{q}:swallows cancellation")


RULES = [rule_outer, rule_abor, rule_done, rule_close, rule_exit, rule_shield, rule_cli, rule_last, rule_cm]
