"""C01 Transferred bytes are exact (structural necessary conditions)"""
import ast
from ..model import *
from ..util import *
from ..facts import *
from ..paths import Cfg, evaluated
from .c05 import keep_set, offset_consumers, rule_rest

EXPLANATION = (
    "Structural necessary conditions of exact transfer. ACK: in every transfer worker the completion reply is sent "
    "only after the exits of the `async with` owning the backend file and the data stream (must-pass-through on "
    "enumerated paths) - buffered data is in the file before 226. COPY: each of the byte-moving loops (server STOR/"
    "RETR, client upload/download) iterates iter_by_block of one endpoint and on every iteration path writes exactly "
    "the loop variable once, unmodified, to the other endpoint; listing loops emit one line per entry. EOF: the stream "
    "iterator's stop test is evaluated as a predicate over len(data) in {0..5} and must be an emptiness test of the "
    "value it returns. THRU: stream/backend wrappers forward the data argument and return the inner result unmodified "
    "and forward `count`. SEEK: with a restart offset the file is opened in a non-truncating random-access mode and "
    "seek(<that offset>) dominates the copy loop; without it the caller's mode is used. KEEP: the dispatcher's "
    "keep-set equals the verbs that consume the offset. CLI: REST is sent only for a non-zero offset, immediately "
    "before the transfer command; finish() closes the data stream before awaiting the completion reply."
)
NOT_DECIDED = [
    "equality of byte strings for all payloads/chunkings/segmentations (asyncio streams, kernel, io are trusted)",
    "throttling interplay; 'every later download/stat on any session sees the new content' beyond the close-before-reply ordering",
    "behaviour of MemoryPathIO/BytesIO seek beyond end",
]


def is_iter_by_block(e):
    return isinstance(e, ast.Call) and isinstance(e.func, ast.Attribute) and e.func.attr == "iter_by_block"


def loop_iter(p, fn, lp):
    """the iterated expression of a loop with single-definition aliases resolved (blocks = x.iter_by_block(n); async for b in blocks)"""
    return expand(p, lp.iter, fn)


def rule_ack(ctx):
    p = ctx.p
    ctx.rule("C01.ACK", "completion reply only after the file and data-stream contexts were exited")
    for h, w in p.workers():
        conn = [a.arg for a in w.args.args][1]
        bad = None
        saw_success = False
        paths = enum_paths(p, w)
        ctx.paths_enumerated += len(paths)
        for ev, out in paths:
            if out[0] in ("raise", "cut"):
                continue
            open_ctx = 0
            for e in ev:
                if e[0] == "enter":
                    open_ctx += 1
                elif e[0] == "exit":
                    open_ctx -= 1
                elif e[0] in ("stmt", "branch"):
                    for c in walk_self(e[1]):
                        if is_reply(c, conn) and c.args:
                            codes = const_values(p, c.args[0], w)
                            if any(str(v or "").startswith("2") for v in codes):
                                saw_success = True
                                if open_ctx > 0:
                                    bad = c
        ctx.ob("C01.ACK", bad if bad is not None else w, f"{w.name}: the 2xx completion reply is sent after every file/stream context has been exited (closed, flushed)",
               bad is None and saw_success,
               f"{w.name}: completion reply sent while the file/data contexts are still open (buffered data may not be in the file yet; a close failure follows the success reply)",
               construct=f"{w.name}:reply-inside-with")
    ctx.floor("C01.ACK", 4, "workers")


def _loops(p):
    out = []
    for h, w in p.workers():
        for n in walk_no_nested(w):
            if isinstance(n, ast.AsyncFor):
                out.append((w, n, "server"))
    cm = p.methods("Client")
    for name in ("upload", "download"):
        if name in cm:
            for n in walk_no_nested(cm[name]):
                if isinstance(n, ast.AsyncFor) and is_iter_by_block(loop_iter(p, cm[name], n)):
                    out.append((cm[name], n, "client"))
    return out


def rule_copy(ctx):
    p = ctx.p
    ctx.rule("C01.COPY", "every copy loop writes exactly the block it read, once per iteration, unmodified, to the opposite endpoint")
    n_byte = 0
    for fn, lp, side in _loops(p):
        it_ = loop_iter(p, fn, lp)
        if not is_iter_by_block(it_):
            continue
        n_byte += 1
        var = lp.target.id if isinstance(lp.target, ast.Name) else None
        src_obj = src(it_.func.value)
        label = f"{p.qualname(fn)}:{src(it_)[:40]}"
        ok, why, arg = True, "", None
        if var is None:
            ok, why = False, "loop target is not a simple name"
        paths = Cfg(lambda n: [], p.issub, unroll=1).seq(lp.body)
        for ev, out in paths:
            writes = []
            redefined = False
            for n in evaluated(ev):
                if isinstance(n, FuncT):
                    continue
                for t in assign_targets(n) if isinstance(n, (ast.Assign, ast.AugAssign, ast.AnnAssign)) else []:
                    if isinstance(t, ast.Name) and t.id == var:
                        redefined = True
                for c in walk_self(n):
                    if isinstance(c, ast.Call) and isinstance(c.func, ast.Attribute) and c.func.attr == "write":
                        writes.append((c, redefined))
            if out[0] in ("return", "break", "continue", "raise") and not writes:
                ok, why = False, f"a `{out[0]}` path skips the write"
            elif out[0] in ("return", "break"):
                ok, why = False, f"the loop is left by `{out[0]}` before the source is exhausted"
            if len(writes) != 1 and out[0] == "fall":
                ok, why = False, f"{len(writes)} writes on one iteration path"
            for c, red in writes:
                a = c.args[0] if len(c.args) == 1 and not c.keywords else None
                arg = src(a) if a is not None else None
                root = a
                for _ in range(4):  # single-definition aliases inside the loop body: block = data
                    if isinstance(root, ast.Name) and root.id != var:
                        ds = [s_.value for s_ in ast.walk(lp) if isinstance(s_, ast.Assign) and len(s_.targets) == 1 and isinstance(s_.targets[0], ast.Name) and s_.targets[0].id == root.id]
                        if len(ds) == 1:
                            root = ds[0]
                            continue
                    break
                if not (isinstance(root, ast.Name) and root.id == var) or red:
                    ok, why = False, f"writes `{arg}`, not the block it read"
                if not any(isinstance(par, ast.Await) for par in [p.parent.get(c)]):
                    ok, why = False, "the write is not awaited"
                if src(c.func.value) == src_obj:
                    ok, why = False, "reads from and writes to the same endpoint"
        ctx.ob("C01.COPY", lp, f"{label}: one unmodified write of the loop variable per iteration", ok,
               f"{fn.name}: the copy loop does not write exactly the block it read, once, on every iteration ({why})", construct=f"copy:{fn.name}:{why}")
    # copy loops written as `while`: block = await <source>.read(n); ...; await <sink>.write(block) - the only way out is an empty read
    hosts = [w for h, w in p.workers()] + [p.methods("Client")[n_] for n_ in ("upload", "download") if n_ in p.methods("Client")]
    for fn in hosts:
        for lp in [n for n in walk_no_nested(fn) if isinstance(n, ast.While)]:
            reads = [n for n in walk_no_nested(lp) if isinstance(n, ast.Assign) and len(n.targets) == 1 and isinstance(n.targets[0], ast.Name) and isinstance(n.value, ast.Await)
                     and isinstance(n.value.value, ast.Call) and isinstance(n.value.value.func, ast.Attribute) and n.value.value.func.attr in ("read", "readexactly", "readline")]
            writes_ = [c for c in walk_no_nested(lp) if isinstance(c, ast.Call) and isinstance(c.func, ast.Attribute) and c.func.attr == "write"]
            if len(reads) != 1 or not writes_:
                continue
            n_byte += 1
            var = reads[0].targets[0].id
            ok, why = True, ""
            always = isinstance(lp.test, ast.Constant) and lp.test.value is True
            if not always and not (isinstance(lp.test, ast.Name) and lp.test.id == var):
                ok, why = False, f"the loop condition `{src(lp.test)[:40]}` is not the emptiness of the block"
            for ev, out in Cfg(lambda n: [], p.issub, unroll=1).seq(lp.body):
                empty = None     # what the path knows about the block read on it
                for e in ev:
                    if e[0] == "branch":
                        t, pol = e[1], e[2]
                        if isinstance(t, ast.UnaryOp) and isinstance(t.op, ast.Not):
                            t, pol = t.operand, not pol
                        if isinstance(t, ast.Name) and t.id == var:
                            empty = not pol
                wr = [c for n in evaluated(ev) for c in walk_self(n) if isinstance(c, ast.Call) and isinstance(c.func, ast.Attribute) and c.func.attr == "write"]
                if out[0] in ("break", "return") and empty is not True:
                    ok, why = False, f"the loop is left by `{out[0]}` on a path where the block just read is not empty (a short read is not the end of the stream)"
                if out[0] in ("fall", "continue") and empty is not True and len(wr) != 1:
                    ok, why = False, f"{len(wr)} writes on an iteration path with a non-empty block"
                for c in wr:
                    if not (len(c.args) == 1 and isinstance(c.args[0], ast.Name) and c.args[0].id == var):
                        ok, why = False, f"writes `{src(c.args[0])[:30] if c.args else ''}`, not the block it read"
                    if src(c.func.value) == src(reads[0].value.value.func.value):
                        ok, why = False, "reads from and writes to the same endpoint"
            ctx.ob("C01.COPY", lp, f"{p.qualname(fn)}: while-form copy loop writes each block once and ends only on an empty read", ok,
                   f"{fn.name}: the copy loop does not move every block until the source is exhausted ({why})", construct=f"copy:{fn.name}:{why}")
    if n_byte < 4:
        ctx.floor_errors.append(f"rule=C01.COPY: {n_byte} byte-moving loops (floor 4)")


def rule_listing_loops(ctx, rule="C07.ALL"):
    """server listing loops (LIST/MLSD workers): one line per listed entry; the only accepted skip is `if not exists(entry): continue`"""
    p = ctx.p
    n_list = 0
    for fn, lp, side in _loops(p):
        if is_iter_by_block(loop_iter(p, fn, lp)) or side != "server":
            continue
        it = loop_iter(p, fn, lp)
        if not (isinstance(it, ast.Call) and isinstance(it.func, ast.Attribute) and it.func.attr == "list" and last_attr(it.func.value) == "path_io"):
            continue
        n_list += 1
        var = lp.target.id if isinstance(lp.target, ast.Name) else None
        ok, why = True, ""
        for ev, out in Cfg(lambda n: [], p.issub, unroll=1).seq(lp.body):
            writes = [c for n in evaluated(ev) for c in walk_self(n) if isinstance(c, ast.Call) and isinstance(c.func, ast.Attribute) and c.func.attr == "write"]
            if out[0] in ("continue", "fall") and not writes:
                # reasoned exception: entry vanished between listing and stat (`if not exists: continue`, or the line is written under `if exists:`)
                conds = [(e[1], e[2]) for e in ev if e[0] == "branch"]
                conds = [(deep_expand(p, t, fn), pol) for t, pol in conds]
                vanished = any(_is_exists_test(t, var) is (not pol) for t, pol in conds if _is_exists_test(t, var) is not None)
                if not vanished:
                    ok, why = False, ("an entry is skipped by `continue` for a reason other than having vanished" if out[0] == "continue" else "0 writes for one entry")
            elif out[0] in ("break", "return"):
                ok, why = False, f"the listing loop is left by `{out[0]}`"
            elif len(writes) != 1:
                ok, why = False, f"{len(writes)} writes for one entry"
            else:
                a = writes[0].args[0] if writes[0].args else None
                deps = _deps(p, a, lp, fn)
                if var not in deps:
                    ok, why = False, "the line written does not depend on the listed entry"
        ctx.ob(rule, lp, f"{p.qualname(fn)}: one line is written per listed entry", ok,
               f"{fn.name}: the listing loop does not emit exactly one line per listed entry ({why})", construct=f"listing:{fn.name}:{why}")
    if n_list < 2:
        ctx.floor_errors.append(f"rule={rule}: {n_list} listing loops (floor 2)")


def _is_exists_test(t, var):
    """True if t is `exists(var)`-like positive, False if negated, None if unrelated"""
    neg = False
    while isinstance(t, ast.UnaryOp) and isinstance(t.op, ast.Not):
        t, neg = t.operand, not neg
    if isinstance(t, ast.Await):
        t = t.value
    if isinstance(t, ast.Call) and isinstance(t.func, ast.Attribute) and t.func.attr == "exists" and t.args and isinstance(t.args[0], ast.Name) and t.args[0].id == var:
        return not neg
    return None


def _deps(p, expr, scope, fn, depth=0):
    """names an expression depends on through single assignments inside `scope`"""
    out = set()
    if expr is None or depth > 6:
        return out
    for x in ast.walk(expr):
        if isinstance(x, ast.Name):
            out.add(x.id)
            for s_ in ast.walk(scope):
                if isinstance(s_, ast.Assign) and any(isinstance(t, ast.Name) and t.id == x.id for t in s_.targets):
                    out |= _deps(p, s_.value, scope, fn, depth + 1)
    return out


def rule_eof(ctx):
    p = ctx.p
    ctx.rule("C01.EOF", "AsyncStreamIterator.__anext__ returns exactly the value it read when non-empty and stops otherwise")
    it = p.method("AsyncStreamIterator", "__anext__")
    var = None
    for n in walk_no_nested(it):
        if isinstance(n, ast.Assign) and isinstance(n.value, ast.Await) and isinstance(n.targets[0], ast.Name) and isinstance(n.value.value, ast.Call) \
                and last_attr(n.value.value.func) == "read_coro":
            var = n.targets[0].id
            called = n.value.value
            ok = not called.args
            ctx.ob("C01.EOF", n, "the iterator awaits its read coroutine once per step", ok, "the iterator does not await self.read_coro()", construct="eof:read call")
            # a failing read must surface (timeout, reset): a handler that swallows it makes the failure look like the end of the data
            child, par = n, p.parent.get(n)
            while par is not None and par is not it:
                if isinstance(par, ast.Try) and child in par.body:
                    for h in par.handlers:
                        swallows = not any(isinstance(x, ast.Raise) for s_ in h.body for x in walk_self(s_))
                        ctx.ob("C01.EOF", h, f"`except {src(h.type) if h.type is not None else ''}` around the read re-raises", not swallows,
                               f"the block iterator catches {src(h.type) if h.type is not None else 'everything'} around its read and carries on: a timeout or reset in the middle of a transfer "
                               "(TimeoutError is an OSError) ends the loop like an empty read - the prefix is stored and answered 226", construct="eof:read error swallowed")
                child, par = par, p.parent.get(par)
    if var is None:
        raise Inconclusive("C01.EOF: shape of AsyncStreamIterator.__anext__ not recognised (no `x = await ...`)")

    def evaln(t, n):
        if isinstance(t, ast.Name) and t.id == var:
            return n > 0
        if isinstance(t, ast.UnaryOp) and isinstance(t.op, ast.Not):
            v = evaln(t.operand, n)
            return None if v is None else not v
        if isinstance(t, ast.Call) and isinstance(t.func, ast.Name) and t.func.id in ("len", "bool") and len(t.args) == 1 and isinstance(t.args[0], ast.Name) and t.args[0].id == var:
            return n > 0
        if isinstance(t, ast.Compare) and len(t.ops) == 1:
            l, r = t.left, t.comparators[0]
            if isinstance(l, ast.Call) and isinstance(l.func, ast.Name) and l.func.id == "len" and src(l.args[0]) == var and isinstance(r, ast.Constant) and isinstance(r.value, int):
                c = r.value
                return {ast.Gt: n > c, ast.GtE: n >= c, ast.Lt: n < c, ast.LtE: n <= c, ast.Eq: n == c, ast.NotEq: n != c}.get(type(t.ops[0]))
            if isinstance(l, ast.Name) and l.id == var and isinstance(r, ast.Constant) and r.value in (b"", ""):
                return (n != 0) if isinstance(t.ops[0], ast.NotEq) else (n == 0) if isinstance(t.ops[0], ast.Eq) else None
            if isinstance(l, ast.Name) and l.id == var and isinstance(r, ast.Constant) and r.value is None:
                return None
        if isinstance(t, ast.BoolOp):
            vs = [evaln(v, n) for v in t.values]
            if None in vs:
                return None
            return all(vs) if isinstance(t.op, ast.And) else any(vs)
        return None
    # evaluate every path of the body after the read for n = len(data) in 0..5
    after = it.body
    results = {}
    for ev, out in Cfg(lambda n: [], p.issub).seq(after):
        for n in range(6):
            feasible = True
            unknown = None
            for e in ev:
                if e[0] == "branch":
                    v = evaln(e[1], n)
                    if v is None:
                        unknown = e[1]
                    elif v != e[2]:
                        feasible = False
            if not feasible:
                continue
            if unknown is not None:
                raise Inconclusive("C01.EOF: emptiness test form not recognised: " + src(unknown))
            if out[0] == "return":
                results.setdefault(n, set()).add("return:" + src(out[1]) if out[1] is not None else "return:None")
            elif out[0] == "raise":
                results.setdefault(n, set()).add("raise:" + str(out[1]))
            else:
                results.setdefault(n, set()).add(out[0])
    for n in range(6):
        want = {"raise:StopAsyncIteration"} if n == 0 else {"return:" + var}
        got = results.get(n, set())
        ctx.ob("C01.EOF", it, f"read of {n} byte(s): {'stop' if n == 0 else 'return the data'} (got {sorted(got)})", got == want,
               f"stream iterator: a read of {n} byte(s) gives {sorted(got)}, must be {sorted(want)} - "
               + ("an empty read does not end the transfer" if n == 0 else "a short final block is dropped / altered and ends the transfer early"),
               construct=f"eof:n={n}:{sorted(got)}")
    # iter_by_block wiring: AsyncStreamIterator(lambda: self.read(count)) in ThrottleStreamIO and AsyncPathIOContext
    for cls in ("ThrottleStreamIO", "AsyncPathIOContext"):
        fn = p.method(cls, "iter_by_block")
        cnt = [a.arg for a in fn.args.args][1] if len(fn.args.args) > 1 else None
        ok = False
        for r in walk_no_nested(fn):
            if isinstance(r, ast.Return) and isinstance(r.value, ast.Call) and last_attr(r.value.func) == "AsyncStreamIterator" and r.value.args:
                t = thunk_call(p, fn, r.value.args[0])
                if t is not None and src(t.func) == "self.read" and [src(x) for x in t.args] == [cnt] and not t.keywords:
                    ok = True
        ctx.ob("C01.EOF", fn, f"{cls}.iter_by_block(count) iterates self.read(count)", ok,
               f"{cls}.iter_by_block does not iterate `self.read(count)` with the caller's block size", construct=f"iter_by_block:{cls}")


def rule_thru(ctx, only=None):
    p = ctx.p
    ctx.rule("C01.THRU", "I/O wrappers forward the data argument and return the inner result unmodified; count is forwarded")

    def check_forward(cls, name, inner_pred, data_param=None, count_param=None):
        if only is not None and name not in only:
            return
        if only is None and name == "readline":
            return   # line reads are not part of byte transfers (C07/C19 look at them)
        fn = p.method(cls, name)
        calls = [c for c in walk_no_nested(fn) if isinstance(c, ast.Call) and inner_pred(c)]
        label = f"{cls}.{name}"
        if not calls:
            ctx.fail("C01.THRU", fn, f"{label}: inner I/O call not found", construct=f"thru:{label}:no inner")
            return
        ctx.ob("C01.THRU", fn, f"{label}: exactly one inner I/O call", len(calls) == 1, f"{label}: {len(calls)} inner I/O calls (data duplicated or re-read)", construct=f"thru:{label}:{len(calls)} inner")
        wrapped = [q for q in walk_no_nested(fn) if isinstance(q, (ast.Try, ast.While, ast.For, ast.AsyncFor))]
        ctx.ob("C01.THRU", fn, f"{label}: the inner call is not wrapped in a retry loop or an exception handler", not wrapped,
               f"{label}: the inner I/O call sits in a `{type(wrapped[0]).__name__.lower() if wrapped else ''}`: an error of the underlying stream (e.g. an over-long line) is swallowed and the input "
               "that caused it is silently dropped", construct=f"thru:{label}:wrapped")
        c = calls[0]
        if not isinstance(p.parent.get(c), ast.Await) and isinstance(fn, ast.AsyncFunctionDef) and name != "write_sync":
            if not (cls == "StreamIO" and name == "write"):
                ctx.fail("C01.THRU", c, f"{label}: inner call not awaited", construct=f"thru:{label}:not awaited")
        if data_param is not None:
            args = [src(a) for a in c.args]
            ctx.ob("C01.THRU", c, f"{label}: passes its `{data_param}` argument unchanged", args == [data_param] and not c.keywords,
                   f"{label}: passes `{', '.join(args)}` to the underlying stream instead of its `{data_param}` argument unchanged", construct=f"thru:{label}:{args}")
        else:
            if count_param is not None:
                args = [src(a) for a in c.args]
                ctx.ob("C01.THRU", c, f"{label}: forwards `{count_param}`", args == [count_param], f"{label}: calls the inner read with ({', '.join(args)}) instead of ({count_param})",
                       construct=f"thru:{label}:count {args}")
            rets = [r for r in walk_no_nested(fn) if isinstance(r, ast.Return)]
            if not rets:
                ctx.fail("C01.THRU", fn, f"{label}: does not return the data read", construct=f"thru:{label}:no return")
            for r in rets:
                v = r.value
                ok = False
                if isinstance(v, ast.Await):
                    v = v.value
                if v is c:
                    ok = True
                elif isinstance(v, ast.Name):
                    d = [k for k in local_defs(fn, v.id)]
                    ok = len(d) == 1 and d[0][0] == "assign" and (d[0][1] is c or (isinstance(d[0][1], ast.Await) and d[0][1].value is c))
                ctx.ob("C01.THRU", r, f"{label}: returns the inner result unmodified", ok,
                       f"{label}: returns `{src(r.value) if r.value is not None else None}`, not the data read from the underlying stream unchanged", construct=f"thru:{label}:return")

    def reader(attr, recv):
        return lambda c: isinstance(c.func, ast.Attribute) and c.func.attr == attr and src(c.func.value) in recv
    check_forward("StreamIO", "read", reader("read", ("self.reader",)), count_param="count")
    check_forward("StreamIO", "readline", reader("readline", ("self.reader",)))
    check_forward("StreamIO", "readexactly", reader("readexactly", ("self.reader",)), count_param="count")
    check_forward("StreamIO", "write", reader("write", ("self.writer",)), data_param="data")
    check_forward("ThrottleStreamIO", "read", reader("read", ("super()",)), count_param="count")
    check_forward("ThrottleStreamIO", "readline", reader("readline", ("super()",)))
    check_forward("ThrottleStreamIO", "write", reader("write", ("super()",)), data_param="data")
    if only is not None:
        return
    # StreamIO.write drains after writing
    w = p.method("StreamIO", "write")
    order = [c.func.attr for c in sorted([c for c in walk_no_nested(w) if isinstance(c, ast.Call) and isinstance(c.func, ast.Attribute) and c.func.attr in ("write", "drain")], key=lambda c: (c.lineno, c.col_offset))]
    ctx.ob("C01.THRU", w, "StreamIO.write: writer.write(data) then await drain()", order == ["write", "drain"], f"StreamIO.write performs {order}", construct=f"thru:StreamIO.write:{order}")
    # backends: read/write/seek forward file and arguments
    for b in p.backends():
        ms = p.methods(b)
        for op in ("read", "write", "seek"):
            fn = ms.get(op)
            if fn is None:
                continue
            params = [a.arg for a in fn.args.args]
            filep = params[1] if len(params) > 1 else None
            calls = [c for c in walk_no_nested(fn) if isinstance(c, ast.Call) and isinstance(c.func, ast.Attribute) and c.func.attr == op and isinstance(c.func.value, ast.Name) and c.func.value.id == filep]
            ok = len(calls) == 1
            if ok:
                c = calls[0]
                fwd_args = [src(a) for a in c.args] + [(k.arg or "**") + "=" + src(k.value) for k in c.keywords]
                own = [("*" + fn.args.vararg.arg) if fn.args.vararg else None, ("**=" + fn.args.kwarg.arg) if fn.args.kwarg else None]
                explicit = params[2:]
                ok = fwd_args == [x for x in own if x] or fwd_args == explicit
                if op in ("read", "seek"):
                    rets = [r for r in walk_no_nested(fn) if isinstance(r, ast.Return)]
                    ok = ok and bool(rets) and all(r.value is c for r in rets)
            ctx.ob("C01.THRU", fn, f"{b}.{op}: delegates to file.{op} with its arguments unchanged" + (" and returns the result" if op != "write" else ""), ok,
                   f"{b}.{op}: does not forward its arguments unchanged to file.{op} / return its result", construct=f"thru:{b}.{op}")
    # AsyncPathIOContext binds each attribute to the backend method of the same name on the opened file
    aen = p.method("AsyncPathIOContext", "__aenter__")
    for attr in ("seek", "write", "read", "close"):
        st = [s for s, t in attr_stores(aen, attr) if isinstance(s, ast.Assign)]
        ok = bool(st)
        for s in st:
            v = s.value
            ok = ok and isinstance(v, ast.Call) and (dotted(v.func) or "").endswith("partial") and len(v.args) == 2 and last_attr(v.args[0]) == attr \
                and last_attr(v.args[1]) == "file" and src(v.args[0]).startswith("self.pathio.")
        ctx.ob("C01.THRU", aen, f"AsyncPathIOContext.{attr} is bound to pathio.{attr} of the opened file", ok,
               f"AsyncPathIOContext.{attr} is not partial(self.pathio.{attr}, self.file)", construct=f"thru:AsyncPathIOContext.{attr}")
    op = [s for s in aen.body if isinstance(s, ast.Assign) and last_attr(s.targets[0]) == "file"]
    ok = bool(op) and isinstance(op[0].value, ast.Await) and src(op[0].value.value) == "self.pathio._open(*self.args, **self.kwargs)"
    ctx.ob("C01.THRU", aen, "AsyncPathIOContext opens with exactly the caller's arguments", ok, "AsyncPathIOContext does not open the file with the caller's arguments", construct="thru:AsyncPathIOContext.open")
    ctx.floor("C01.THRU", 18, "forwarders")


def rule_seek(ctx):
    p = ctx.p
    ctx.rule("C01.SEEK", "restart offset <=> non-truncating random-access mode and seek(<that offset>) before the copy loop; otherwise the caller's mode and no seek")
    consumers = {fn for fn in offset_consumers(p).values()}
    n = 0
    for h, w in p.workers():
        if h not in consumers:
            continue
        n += 1
        conn = [a.arg for a in w.args.args][1]
        # the offset value: a name captured in the handler from <conn>.restart_offset, or the field itself
        opens = [c for c in walk_no_nested(w) if isinstance(c, ast.Call) and isinstance(c.func, ast.Attribute) and c.func.attr == "open" and last_attr(c.func.value) == "path_io"]
        if not opens:
            ctx.fail("C01.SEEK", w, f"{w.name}: no backend open found", construct=f"seek:{w.name}:no open")
            continue
        upload = any(is_iter_by_block(loop_iter(p, w, l)) and any(
            isinstance(c, ast.Call) and isinstance(c.func, ast.Attribute) and c.func.attr == "write" and _is_file(p, c.func.value, w, opens) for c in ast.walk(l))
            for l in walk_no_nested(w) if isinstance(l, ast.AsyncFor))
        paths = enum_paths(p, w)
        ctx.paths_enumerated += len(paths)
        verdicts = {}
        for ev, out in paths:
            if out[0] in ("raise", "cut"):
                continue
            off_truth = None   # truth of the offset on this path, from branch events on an offset expression
            off_expr = None
            mode_vals = None
            seeks = []
            loop_seen = False
            seek_after_loop = False
            consistent = True
            for e in ev:
                if e[0] == "branch" and _is_offset_expr(p, e[1], h, w):
                    t, pol = e[1], e[2]
                    if isinstance(t, ast.UnaryOp) and isinstance(t.op, ast.Not):
                        t, pol = t.operand, not pol
                    if off_truth is not None and off_truth != pol:
                        consistent = False
                    off_truth, off_expr = pol, t
                if e[0] == "aiter":
                    loop_seen = True
                for n_ in ([e[1]] if e[0] in ("stmt", "branch") else []):
                    for c in walk_self(n_):
                        if isinstance(c, ast.Call) and isinstance(c.func, ast.Attribute) and c.func.attr == "seek":
                            seeks.append(c)
                            if loop_seen:
                                seek_after_loop = True
            if not consistent:
                continue   # infeasible: the same offset tested with different outcomes
            # mode on this path: evaluate the open's mode argument under the path's assignments
            mode = kwarg(opens[0], "mode", 1)
            mode_vals = _mode_on_path(p, mode, ev, w, h, off_truth)
            verdicts.setdefault(off_truth, []).append((mode_vals, seeks, seek_after_loop, off_expr))
        if True not in verdicts and None in verdicts and not any(s for m, s, a, o in verdicts[None]):
            handed = any(_is_offset_expr(p, x, h, w) for c_ in opens for x in list(c_.args) + [k.value for k in c_.keywords] if isinstance(x, (ast.Name, ast.Attribute)))
            if handed:
                raise Inconclusive(f"C01.SEEK: {w.name} hands the restart offset to the backend's open(); positioning happens outside the worker, a shape this rule does not follow")
            ctx.fail("C01.SEEK", w, f"{w.name}: transfer consumes a restart offset but never seeks", construct=f"seek:{w.name}:none")
            continue
        for truth, items in verdicts.items():
            for mode_vals, seeks, after, off_expr in items:
                if truth is True:
                    want = {"r+b"} if upload else {"rb"}
                    ctx.ob("C01.SEEK", w, f"{w.name}: with an offset the file is opened {sorted(want)} (is {mode_vals})", mode_vals is not None and set(mode_vals) <= want,
                           f"{w.name}: with a restart offset the file is opened {mode_vals}; only {sorted(want)} keeps the existing content and honours seek "
                           "(append mode ignores seek on real files, 'wb' truncates)", construct=f"seek:{w.name}:mode {mode_vals}")
                    if not seeks and any(_is_offset_expr(p, x, h, w) for c_ in opens for x in list(c_.args) + [k.value for k in c_.keywords] if isinstance(x, (ast.Name, ast.Attribute))):
                        raise Inconclusive(f"C01.SEEK: {w.name} hands the restart offset to the backend's open(); positioning happens outside the worker, a shape this rule does not follow")
                    good = len(seeks) == 1 and not after and len(seeks[0].args) == 1 and src(seeks[0].args[0]) == src(off_expr) \
                        and isinstance(p.parent.get(seeks[0]), ast.Await) and _is_file(p, seeks[0].func.value, w, opens)
                    ctx.ob("C01.SEEK", seeks[0] if seeks else w, f"{w.name}: seek(<the offset>) once, awaited, on the opened file, before the copy loop", good,
                           f"{w.name}: on the offset path the transfer does not `await file.seek({src(off_expr)})` exactly once before copying (seeks: {[src(s) for s in seeks]})",
                           construct=f"seek:{w.name}:{[src(s) for s in seeks]}")
                elif truth is False:
                    ctx.ob("C01.SEEK", w, f"{w.name}: without an offset no seek happens", not seeks,
                           f"{w.name}: seeks although no restart offset was given", construct=f"seek:{w.name}:seek without offset")
                    if upload:
                        ok = mode_vals is not None and "PARAM" in mode_vals and len(mode_vals) == 1
                        ctx.ob("C01.SEEK", w, f"{w.name}: without an offset the caller-supplied mode is used ({mode_vals})", ok,
                               f"{w.name}: without a restart offset the file is opened {mode_vals}, not with the mode of the command (STOR 'wb' / APPE 'ab')",
                               construct=f"seek:{w.name}:plain mode {mode_vals}")
                else:
                    if seeks:
                        ctx.fail("C01.SEEK", seeks[0], f"{w.name}: seek({src(seeks[0].args[0]) if seeks[0].args else ''}) is not guarded by exactly that offset being non-zero",
                                 construct=f"seek:{w.name}:unguarded seek")
    if n < 2:
        ctx.floor_errors.append(f"rule=C01.SEEK: {n} offset-consuming workers (floor 2)")
    # APPE delegates with mode 'ab', STOR default 'wb'
    table, _ = p.command_table()
    ms = p.methods("Server")
    if "stor" in table and "appe" in table:
        st = ms[table["stor"]]
        dflt = None
        for a, d in zip(reversed(st.args.args), reversed(st.args.defaults)):
            if isinstance(d, ast.Constant):
                dflt = d.value
        ctx.ob("C01.SEEK", st, f"STOR's default mode is 'wb' (is {dflt!r})", dflt == "wb", f"STOR opens with default mode {dflt!r}", construct=f"stor:default mode {dflt!r}")
        ap = ms[table["appe"]]
        calls = [c for c in walk_no_nested(ap) if is_self_call(c, {table["stor"]})]
        ok = len(calls) == 1 and (len(calls[0].args) == 3 and isinstance(calls[0].args[2], ast.Constant) and calls[0].args[2].value == "ab"
                                  or any(k.arg == "mode" and isinstance(k.value, ast.Constant) and k.value.value == "ab" for k in calls[0].keywords))
        ctx.ob("C01.SEEK", ap, "APPE delegates to STOR with mode 'ab' and its own (connection, rest)", ok and [src(a) for a in calls[0].args[:2]] == list(p.handler_params(ap)),
               "APPE does not delegate to STOR with mode 'ab' and its own arguments", construct="appe:delegate")


def _is_file(p, recv, w, opens):
    """receiver is the local bound to the backend open(...) (or the open call itself)"""
    if isinstance(recv, ast.Name):
        for k, v, x in local_defs(w, recv.id):
            if k == "assign" and v in opens:
                return True
            if k == "with" and (v in opens or (isinstance(v, ast.Name) and any(d[1] in opens for d in local_defs(w, v.id)))):
                return True
    return False


def _is_offset_expr(p, t, h, w):
    if isinstance(t, ast.UnaryOp) and isinstance(t.op, ast.Not):
        t = t.operand
    if isinstance(t, ast.Attribute) and t.attr == "restart_offset":
        return True
    if isinstance(t, ast.Name):
        f, ds = closure_lookup(p, w, t.id)
        return any(k == "assign" and isinstance(v, ast.Attribute) and v.attr == "restart_offset" for k, v, _ in ds)
    return False


def _mode_on_path(p, mode, ev, w, h, off_truth=None):
    """possible values of the open-mode expression on one path: constants, 'PARAM' for the handler's mode parameter"""
    if mode is None:
        return ["rb"]
    if isinstance(mode, ast.Constant):
        return [mode.value]
    if isinstance(mode, ast.IfExp):
        if not _is_offset_expr(p, mode.test, h, w):
            return None
        neg = isinstance(mode.test, ast.UnaryOp) and isinstance(mode.test.op, ast.Not)
        t_branch, f_branch = (mode.orelse, mode.body) if neg else (mode.body, mode.orelse)
        if off_truth is True:
            return _mode_on_path(p, t_branch, ev, w, h, off_truth)
        if off_truth is False:
            return _mode_on_path(p, f_branch, ev, w, h, off_truth)
        a, b = _mode_on_path(p, t_branch, ev, w, h, off_truth), _mode_on_path(p, f_branch, ev, w, h, off_truth)
        return None if a is None or b is None else a + b
    if isinstance(mode, ast.Name):
        last = None
        for e in ev:
            if e[0] == "stmt" and isinstance(e[1], ast.Assign) and any(isinstance(t, ast.Name) and t.id == mode.id for t in e[1].targets):
                last = e[1].value
        if last is None:
            hp = [a.arg for a in h.args.args]
            if mode.id in hp[3:]:
                return ["PARAM"]
            return None
        if isinstance(last, ast.IfExp):
            return _mode_on_path(p, last, ev, w, h, off_truth)
        if isinstance(last, ast.Constant):
            return [last.value]
        if isinstance(last, ast.Name):
            hp = [a.arg for a in h.args.args]
            if last.id in hp[3:]:
                return ["PARAM"]
            return _mode_on_path(p, last, ev, w, h, off_truth)
        return None
    return None


def rule_offset(ctx):
    """the offset a transfer uses is the one REST set for THIS command: captured synchronously, cleared on consumption"""
    rule_rest(ctx, R="C01.OFFSET", K="C01.KEEP")


def rule_keep(ctx):
    p = ctx.p
    ctx.rule("C01.KEEP", "the dispatcher's keep-set equals the verbs whose handler consumes the restart offset; REST itself keeps it")
    keep, knode = keep_set(p)
    consumers = offset_consumers(p)
    ctx.ob("C01.KEEP", knode, f"keep-set {sorted(keep)} equals consuming verbs {sorted(consumers)}", set(consumers) == keep,
           f"dispatcher keeps the restart offset for {sorted(keep)} but the handlers that consume it serve {sorted(consumers)}: "
           "REST before the missing verb is silently ignored / applied to the wrong command", construct=f"keep={sorted(keep)} consumers={sorted(consumers)}")
    # the clear is ordered after the handler task was created? irrelevant; but it must not clear right after REST: REST sets it in its own task later. ok.


def _rest_parts(p, e, fn):
    """('REST ', name of the value appended) for 'REST ' + str(x) / f'REST {x}' (through single-definition aliases), else None"""
    e = deep_expand(p, e, fn)
    if isinstance(e, ast.BinOp) and isinstance(e.op, ast.Add) and isinstance(e.left, ast.Constant) and str(e.left.value).startswith("REST"):
        r = e.right
        if isinstance(r, ast.Call) and isinstance(r.func, ast.Name) and r.func.id == "str" and len(r.args) == 1:
            r = r.args[0]
        return e.left.value, src(r)
    if isinstance(e, ast.JoinedStr) and len(e.values) == 2 and isinstance(e.values[0], ast.Constant) and str(e.values[0].value).startswith("REST") and isinstance(e.values[1], ast.FormattedValue) \
            and e.values[1].format_spec is None:
        return e.values[0].value, src(e.values[1].value)
    return None


def rule_cli(ctx):
    p = ctx.p
    ctx.rule("C01.CLI", "client: REST only for a non-zero offset, immediately before the transfer command; finish() closes the data stream before awaiting the reply")
    gs = p.method("Client", "get_stream") if "get_stream" in p.methods("Client") else p.method("BaseClient", "get_stream")
    cmds = [c for c in walk_no_nested(gs) if isinstance(c, ast.Call) and isinstance(c.func, ast.Attribute) and c.func.attr == "command"]
    order = sorted(cmds + [c for c in walk_no_nested(gs) if isinstance(c, ast.Call) and is_method_call(c, "get_passive_connection")], key=lambda c: (c.lineno, c.col_offset))
    names = []
    for c in order:
        if c.func.attr == "get_passive_connection":
            names.append("passive")
        elif c.args and _rest_parts(p, c.args[0], gs) is not None:
            names.append("REST")
        elif c.args and isinstance(c.args[0], ast.Starred):
            names.append("TRANSFER")
        else:
            names.append("other:" + src(c)[:30])
    ctx.ob("C01.CLI", gs, f"get_stream order is passive exchange, REST, transfer command ({names})", names == ["passive", "REST", "TRANSFER"],
           f"get_stream issues {names}: the server clears the offset on any command between REST and the transfer", construct=f"cli:order {names}")
    rest_calls = [c for c, nm in zip(order, names) if nm == "REST"]
    for c in rest_calls:
        guards = all_guards(p, c, gs)
        prefix, arg = _rest_parts(p, c.args[0], gs)
        ok = any(pol and isinstance(t, ast.Name) and t.id == "offset" for t, pol in guards) and arg == "offset" and prefix == "REST "
        ctx.ob("C01.CLI", c, "REST <offset> is sent iff offset is non-zero, with the caller's offset", ok,
               "REST is not sent exactly for a non-zero offset with the caller's offset", construct="cli:REST guard")
        exp = c.args[1] if len(c.args) > 1 else None
        ctx.ob("C01.CLI", c, "REST expects 350", isinstance(exp, ast.Constant) and exp.value == "350", "REST reply is not checked against 350", construct="cli:REST expected")
    for name in ("upload_stream", "append_stream", "download_stream"):
        fn = p.methods("Client").get(name)
        if fn is None:
            continue
        calls = [c for c in walk_no_nested(fn) if is_self_call(c, {"get_stream"})]
        ok = len(calls) == 1 and any(k.arg == "offset" and isinstance(k.value, ast.Name) and k.value.id == "offset" for k in calls[0].keywords)
        ctx.ob("C01.CLI", fn, f"{name} forwards its offset to get_stream", ok, f"{name} does not forward `offset`", construct=f"cli:{name} offset")
    gpc = p.methods("Client").get("get_passive_connection") or p.methods("BaseClient").get("get_passive_connection")
    if gpc is not None:
        bad = None
        reached = False
        senders = {n_ for n_, f_ in p.methods("Client").items() if any(is_self_call(c_, {"command"}) and c_.args and (literal_prefix(p, c_.args[0], f_)[0] or "").strip() in ("EPSV", "PASV")
                                                                      for c_ in walk_no_nested(f_))}

        def is_passive_cmd(f, depth):
            """the called object is (a local alias of / an entry of a local table of) a method that sends EPSV or PASV"""
            if depth < 0:
                return False
            if isinstance(f, ast.Attribute) and isinstance(f.value, ast.Name) and f.value.id == "self":
                return f.attr in senders
            if isinstance(f, ast.Subscript):
                return is_passive_cmd(f.value, depth - 1)
            if isinstance(f, ast.Call) and isinstance(f.func, ast.Attribute) and f.func.attr == "get" and 1 <= len(f.args) <= 2 \
                    and (len(f.args) == 1 or (isinstance(f.args[1], ast.Constant) and f.args[1].value is None)):
                return is_passive_cmd(f.func.value, depth - 1)   # <table>.get(name): an entry of the table (None is refused before the call, or the call raises)
            if isinstance(f, ast.Dict):
                return bool(f.values) and all(is_passive_cmd(v, depth - 1) for v in f.values)
            if isinstance(f, ast.Name):
                defs = [d_[1] for d_ in local_defs(gpc, f.id) if d_[0] == "assign"]
                return bool(defs) and all(is_passive_cmd(v, depth - 1) for v in defs if not (isinstance(v, ast.Constant) and v.value is None)) \
                    and any(not (isinstance(v, ast.Constant) and v.value is None) for v in defs)
            return False
        if not senders:
            raise AnalysisError("anchor=client methods sending EPSV/PASV not found")
        for ev, out in enum_paths(p, gpc, unroll=1):
            asked = False
            nonempty = {src(e[1].operand) for e in ev if e[0] == "branch" and not e[2] and isinstance(e[1], ast.UnaryOp) and isinstance(e[1].op, ast.Not)} | \
                {src(e[1]) for e in ev if e[0] == "branch" and e[2] and isinstance(e[1], ast.Name)}
            if any(e[0] == "loopexit" and e[2] == 0 and isinstance(e[1], ast.For) and any(isinstance(x, ast.Name) and x.id in nonempty for x in ast.walk(e[1].iter)) for e in ev):
                continue   # zero iterations over a collection that was just tested non-empty: infeasible
            attempted = []   # in path order: what was evaluated, and the statement an exception interrupted
            for e in ev:
                attempted += list(evaluated([e]))
                if e[0] == "exc" and len(e) > 2 and isinstance(e[2], ast.AST):
                    attempted.append(e[2])
            for n in attempted:
                if isinstance(n, FuncT):
                    continue
                for c in walk_self(n):
                    if isinstance(c, ast.Call) and is_passive_cmd(c.func, 6):
                        asked = True
                    if isinstance(c, ast.Call) and is_self_call(c, {"_open_connection"}):
                        reached = True
                        if not asked:
                            bad = c
        ctx.ob("C01.CLI", bad if bad is not None else gpc, "every data connection is opened right after its own passive command (no remembered endpoint)", reached and bad is None,
               "get_passive_connection can open a data connection without sending a passive command first (remembered endpoint): the server drops a stale data connection only when it "
               "answers a passive command, so after a failed stream set-up the next transfer is served on the stale connection (empty upload answered 226)",
               construct="cli:passive command skipped")
    fin = p.method("DataConnectionThrottleStreamIO", "finish")
    seq = []
    for s in fin.body:
        for c in walk_self(s):
            if isinstance(c, ast.Call) and is_method_call(c, "close") and src(c.func.value) == "self":
                seq.append("close")
            if isinstance(c, ast.Call) and is_method_call(c, "command"):
                seq.append("command")
    ctx.ob("C01.CLI", fin, f"finish(): close the data stream, then await the completion reply ({seq})", seq == ["close", "command"],
           f"finish() performs {seq}: the server's upload loop ends only on EOF, so the reply must be awaited after closing", construct=f"cli:finish {seq}")
    ae = p.method("DataConnectionThrottleStreamIO", "__aexit__")
    excp = [a.arg for a in ae.args.args][2] if len(ae.args.args) > 2 else "exc"
    verdict = {}
    for label, val in (("no exception", None), ("exception", ValueError("x"))):
        fin = clo = 0
        n_paths = 0
        unknown = False
        for ev, out in enum_paths(p, ae):
            feasible = True
            for e in ev:
                if e[0] == "branch":
                    try:
                        if bool(eval_expr(p, e[1], {excp: val}, ae)) != e[2]:
                            feasible = False
                    except Exception:
                        unknown = True
            if not feasible or out[0] in ("cut", "raise"):
                continue
            n_paths += 1
            calls = [c for n in evaluated(ev) for c in walk_self(n) if isinstance(c, ast.Call)]
            fin += any(is_method_call(c, "finish") and isinstance(p.parent.get(c), ast.Await) for c in calls)
            clo += any(is_method_call(c, "close") for c in calls)
        verdict[label] = (n_paths, fin, clo, unknown)
    if any(v[3] for v in verdict.values()):
        raise Inconclusive("C01.CLI: a test in DataConnectionThrottleStreamIO.__aexit__ is outside the table evaluator's vocabulary")
    a, b = verdict["no exception"], verdict["exception"]
    ok = a[0] >= 1 and a[1] == a[0] and b[0] >= 1 and b[1] == 0 and b[2] == b[0]
    ctx.ob("C01.CLI", ae, "__aexit__ awaits finish() on every exception-free path and only closes otherwise (evaluated for exc in {None, an exception})", ok,
           f"DataConnectionThrottleStreamIO.__aexit__ does not await finish() exactly on the exception-free exit (paths/finish/close: no exception {a[:3]}, exception {b[:3]})",
           construct="cli:__aexit__")


def rule_shared_cursor(ctx):
    from .c18 import rule_pure
    ctx.rule("C01.CURSOR", "no query operation of the in-memory backend moves the cursor / changes the content of a file object (one object per stored file, shared by every "
                           "transfer of it): a STAT or listing during a transfer would make RETR end early or STOR write at the wrong place (shared with C18.PURE)")
    ctx.borrow(rule_pure, {"C18.PURE": "C01.CURSOR"})


def rule_close_surfaces(ctx):
    from .c12 import rule_file
    ctx.rule("C01.CLOSE", "a failing close()/flush of the stored file surfaces (451), it never turns into the 226 of a complete transfer: the file context's __aexit__ "
                          "lets the close error propagate (shared with C12.FILE)")
    ctx.borrow(rule_file, {"C12.FILE": "C01.CLOSE"})


def rule_memory_modes(ctx):
    from .c18 import rule_mode
    ctx.rule("C01.MODE", "the in-memory backend positions a file as io.open does for each mode (append starts at the end whatever an earlier transfer left the shared cursor at, "
                         "write truncates, r+b keeps): appended bytes never land in the middle of the file (shared with C18.MODE)")
    ctx.borrow(rule_mode, {"C18.MODE": "C01.MODE"})


RULES = [rule_ack, rule_copy, rule_eof, rule_thru, rule_seek, rule_offset, rule_cli, rule_shared_cursor, rule_close_surfaces, rule_memory_modes]
