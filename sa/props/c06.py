"""C06 Reply framing: what the server encodes is what the client decodes"""
import ast
import re
from ..model import *
from ..util import *
from ..facts import *
from ..paths import Cfg, evaluated

EXPLANATION = (
    "Writer/reader table agreement extracted from Server.write_response and BaseClient.parse_line/parse_response. "
    "Encoder forms: every write is classified as code+'-'+x (continuation), code+' '+x (last), ' '+x (list body); the "
    "encoder iterates the whole star-unpacked body, one write per line, and always writes the tail; list-body lines "
    "start with a non-digit prefix. Decoder: the line is split into complementary [:3]/[3:] parts, the loop continues "
    "while the separator is '-' or the head is not numeric, the continuation code is compared with the first code and "
    "a mismatch raises; the loop's termination test is evaluated over the abstract table of line kinds "
    "{final, continuation, body} x {text empty / non-empty}. Code.matches is evaluated over (mask char class) x "
    "(equal/unequal) for the classes digit, letter, other; every mask literal in client.py is 3 chars over [0-9x]; "
    "every reply code reaching the reply primitive is a 3-digit constant."
)
NOT_DECIDED = [
    "equality of (code, lines) in/out for all line contents and segmentations (StreamReader.readline is trusted)",
    "recovery of the stream after a rejected reply",
    "encodings other than through str.encode/bytes.decode symmetry on the configured encoding",
]


def flat_concat(x):
    parts = []

    def rec(e):
        if isinstance(e, ast.BinOp) and isinstance(e.op, ast.Add):
            rec(e.left)
            rec(e.right)
        elif isinstance(e, ast.JoinedStr):
            for v in e.values:
                parts.append(v.value if isinstance(v, ast.FormattedValue) else v)
        else:
            parts.append(e)
    rec(x)
    return parts


def rule_enc(ctx):
    p = ctx.p
    ctx.rule("C06.ENC", "encoder: forms {code-x, code x, ' 'x}; whole body iterated line by line; tail always written; list body prefixed by a non-digit")
    wr = p.method("Server", "write_response")
    params = [a.arg for a in wr.args.args]
    code = params[2]
    # the line writer: partial(self.write_line, stream) bound to a local, or self.write_line(stream, ...)
    writer_names = {t.id for n in walk_no_nested(wr) if isinstance(n, ast.Assign) and isinstance(n.value, ast.Call) and (dotted(n.value.func) or "").endswith("partial")
                    and n.value.args and last_attr(n.value.args[0]) == "write_line" for t in n.targets if isinstance(t, ast.Name)}

    def is_write(c):
        return isinstance(c, ast.Call) and ((isinstance(c.func, ast.Name) and c.func.id in writer_names) or is_self_call(c, {"write_line"}))
    writes = [c for c in walk_no_nested(wr) if is_write(c)]
    if len(writes) < 2:
        ctx.floor_errors.append(f"rule=C06.ENC: {len(writes)} line writes in write_response (floor 2)")
    list_param = params[4] if len(params) > 4 else "list"
    # a prefix kept in a local (`prefix = code + "-"` in one branch, `prefix = " "` in the other) is expanded: one virtual write per definition,
    # under the guards of that definition
    virtual = []
    for c in writes:
        e0 = c.args[-1]
        parts0 = flat_concat(e0)
        alts = [([], [])]
        for x in parts0:
            defs = [(v, n) for k, v, n in local_defs(wr, x.id) if k == "assign"] if isinstance(x, ast.Name) and x.id != code else []
            strish = [(v, n) for v, n in defs if isinstance(v, ast.Constant) and isinstance(v.value, str) or (isinstance(v, ast.BinOp) and isinstance(v.op, ast.Add))]
            if defs and len(strish) == len(defs) and len(local_defs(wr, x.id)) == len(defs):
                alts = [(ps + flat_concat(v), gs + all_guards(p, n, wr)) for ps, gs in alts for v, n in strish]
            else:
                alts = [(ps + [x], gs) for ps, gs in alts]
        for ps, gs in alts:
            virtual.append((c, ps, gs))
    for c, parts, extra_guards in virtual:
        e = c.args[-1]
        desc = tuple("CODE" if isinstance(x, ast.Name) and x.id == code else repr(x.value) if isinstance(x, ast.Constant) else "TEXT:" + src(x) for x in parts)
        guards = all_guards(p, c, wr) + extra_guards
        in_list = any(pol and isinstance(t, ast.Name) and t.id == list_param for t, pol in guards)
        in_loop = None
        q = p.parent.get(c)
        while q is not None and q is not wr:
            if isinstance(q, (ast.For, ast.AsyncFor)):
                in_loop = q
            q = p.parent.get(q)
        kind = None
        if desc[:2] == ("CODE", "'-'") and len(desc) == 3:
            kind = "continuation"
        elif desc[:2] == ("CODE", "' '") and len(desc) == 3:
            kind = "last"
        elif desc[0] == "' '" and len(desc) == 2:
            kind = "body"
        ok = kind is not None
        ctx.ob("C06.ENC", c, f"write `{src(e)}` has one of the framing forms ({kind})", ok,
               f"encoder writes `{src(e)}`, which is none of code+'-'+line / code+' '+line / ' '+line "
               "(a body line not prefixed by a non-digit is decoded as a reply header; a joined body loses the per-line prefix)",
               construct=f"write_response:form {desc}")
        # position: every line but the last one of a reply is marked as "more follows" - inside the body loop only code+'-' / ' ' forms, the code+' ' form only
        # for the very last write
        if kind == "last":
            ctx.ob("C06.ENC", c, "the code+' ' (final line) form is written outside the body loop", in_loop is None,
                   f"the encoder writes body lines as `{src(e)}` - the FINAL-line form: the client ends the reply at the first of them and reads the rest as the next reply",
                   construct="write_response:final form inside the body loop")
        if in_loop is not None and kind not in ("continuation", "body", "last"):
            pass
        if kind in ("continuation", "body", "last"):
            text = parts[-1]
            # the text written is one element of the lines: the loop variable of a loop over the body, or head/tail names
            if in_loop is not None:
                okv = isinstance(text, ast.Name) and isinstance(in_loop.target, ast.Name) and text.id == in_loop.target.id
                ctx.ob("C06.ENC", c, "the text written in the loop is the loop's own line, unmodified", okv,
                       f"encoder writes `{src(text)}` inside the body loop, not the line being iterated", construct=f"write_response:loop text {src(text)}")
            else:
                okv = isinstance(text, ast.Name)
                ctx.ob("C06.ENC", c, "the text written is a single line element (head/tail), unmodified", okv,
                       f"encoder writes the expression `{src(text)}` as one line (joined or transformed lines)", construct=f"write_response:text {src(text)}")
        if kind == "body":
            ctx.ob("C06.ENC", c, "unprefixed body lines are written only in list mode", in_list, "unprefixed body lines are written outside list mode", construct="write_response:body outside list")
        if not isinstance(p.parent.get(c), ast.Await):
            ctx.fail("C06.ENC", c, "a line write is not awaited (lines may be reordered or lost)", construct="write_response:write not awaited")
    # loops iterate exactly the star-unpacked body name
    for loop in [n for n in walk_no_nested(wr) if isinstance(n, ast.For)]:
        it = loop.iter
        ok = isinstance(it, ast.Name) and any(k == "unpack" and x == "*" for k, v, x in local_defs(wr, it.id))
        ctx.ob("C06.ENC", loop, f"encoder loop iterates the whole star-unpacked body `{src(it)}`", ok,
               f"encoder iterates `{src(it)}`, not the whole body of the reply: lines are dropped or altered", construct=f"write_response:for over {src(it)}")
        nwr = [c for c in walk_no_nested(loop) if is_write(c)]
        cond = any(isinstance(x, (ast.If, ast.Break, ast.Continue)) for x in walk_no_nested(loop))
        ctx.ob("C06.ENC", loop, "exactly one unconditional write per body line", len(nwr) == 1 and not cond,
               "the body loop does not write exactly one line per body element", construct="write_response:loop writes")
    # per branch: unpack pattern and order head, body, tail
    for branch, pat in (("list", 3), ("plain", 2)):
        pass
    unpacks = [n for n in walk_no_nested(wr) if isinstance(n, ast.Assign) and isinstance(n.targets[0], ast.Tuple) and any(isinstance(e, ast.Starred) for e in n.targets[0].elts)]
    for n in unpacks:
        elts = n.targets[0].elts
        names = [(e.value.id if isinstance(e, ast.Starred) else e.id) for e in elts]
        star_i = [i for i, e in enumerate(elts) if isinstance(e, ast.Starred)][0]
        ok = star_i == len(elts) - 2 and isinstance(n.value, ast.Name)
        ctx.ob("C06.ENC", n, f"lines are unpacked as ({', '.join(('*' if i == star_i else '') + x for i, x in enumerate(names))}) from the whole sequence", ok,
               "reply lines are not unpacked as [head,] *body, tail of the whole sequence", construct=f"write_response:unpack {src(n.targets[0])}")
    # on every path through the encoder the final write is code+' '+<the tail unpacked on that path>, and nothing is written after it
    tail_ok = True
    n_paths = 0
    for ev, out in Cfg(lambda n: [], p.issub, unroll=2).seq(wr.body):
        if out[0] in ("cut", "raise"):
            continue
        n_paths += 1
        tails = []
        seq = []
        for e in ev:
            if e[0] != "stmt":
                continue
            n = e[1]
            if isinstance(n, ast.Assign) and isinstance(n.targets[0], ast.Tuple) and any(isinstance(x, ast.Starred) for x in n.targets[0].elts):
                last_el = n.targets[0].elts[-1]
                tails.append(last_el.id if isinstance(last_el, ast.Name) else None)
            for c in walk_self(n):
                if is_write(c):
                    parts = flat_concat(c.args[-1])
                    seq.append(tuple(x.id if isinstance(x, ast.Name) else x.value if isinstance(x, ast.Constant) else "?" for x in parts))
        if not seq or not tails or seq[-1] != (code, " ", tails[-1]) or any(s_[-1] == tails[-1] for s_ in seq[:-1]):
            tail_ok = False
    ctx.ob("C06.ENC", wr, f"on each of the {n_paths} encoder paths the last line written is code+' '+tail (exactly once)", tail_ok and n_paths >= 2,
           "the tail of the reply is not written last as code+' '+tail on every path", construct="write_response:tail")
    # the sequence that is unpacked is the caller's `lines`, passed through wrap_with_container only (no split/join/strip/splitlines of the texts)
    lines_p = params[3] if len(params) > 3 else "lines"
    for n in walk_no_nested(wr):
        tg = [t for t in assign_targets(n) if isinstance(t, ast.Name) and t.id == lines_p] if isinstance(n, (ast.Assign, ast.AugAssign)) else []
        if tg:
            v = n.value
            ok = isinstance(v, ast.Call) and isinstance(v.func, ast.Name) and v.func.id in ("wrap_with_container", "list", "tuple") and [src(a) for a in v.args] == [lines_p]
            ctx.ob("C06.ENC", n, f"`{src(n)[:60]}` only wraps the reply lines into a container", ok,
                   f"the encoder rewrites the reply lines with `{src(v)[:60]}` before framing them: a line text containing a character this operation treats specially "
                   "(e.g. U+2028 for splitlines) is split or altered, so what is decoded differs from what was sent", construct="write_response:lines rewritten")
    for n in unpacks:
        ctx.ob("C06.ENC", n, "the framing unpacks the (wrapped) `lines` parameter itself", isinstance(n.value, ast.Name) and n.value.id == lines_p,
               f"the framing unpacks `{src(n.value)[:40]}`, not the reply lines", construct="write_response:unpack source")
    # write_line appends exactly one END_OF_LINE and encodes with the server encoding
    wl = p.method("Server", "write_line")
    enc = [c for c in walk_no_nested(wl) if isinstance(c, ast.Call) and is_method_call(c, "encode")]
    recv = deep_expand(p, enc[0].func.value, wl) if len(enc) == 1 else None
    line_p = wl.args.args[2].arg if len(wl.args.args) > 2 else "line"
    ok = len(enc) == 1 and isinstance(recv, ast.BinOp) and isinstance(recv.op, ast.Add) and src(recv.right) == "END_OF_LINE" and isinstance(recv.left, ast.Name) and recv.left.id == line_p \
        and any(k.arg == "encoding" and src(k.value) == "self.encoding" for k in enc[0].keywords)
    ctx.ob("C06.ENC", wl, "write_line sends (line + END_OF_LINE).encode(self.encoding), unmodified", ok, "write_line does not send the line followed by exactly one END_OF_LINE in the server encoding", construct="write_line:form")
    eol = p.module_const("common.py", "END_OF_LINE")
    ctx.ob("C06.ENC", eol if eol is not None else wl, "END_OF_LINE is CR LF", isinstance(eol, ast.Constant) and eol.value == "\r\n", "END_OF_LINE is not '\\r\\n'", construct="END_OF_LINE")


def rule_dec(ctx):
    p = ctx.p
    ctx.rule("C06.DEC", "decoder: complementary [:3]/[3:] split; continue while separator '-' or non-numeric head; mismatching continuation code is rejected")
    pl = p.method("BaseClient", "parse_line")
    rets = [n for n in walk_no_nested(pl) if isinstance(n, ast.Return)]
    ok = False
    if rets and isinstance(rets[-1].value, ast.Tuple) and len(rets[-1].value.elts) == 2:
        a, b = [deep_expand(p, x, pl, stop={"s"}) for x in rets[-1].value.elts]
        sa = a.args[0] if isinstance(a, ast.Call) and a.args else a
        ok = isinstance(sa, ast.Subscript) and isinstance(b, ast.Subscript) and src(sa.slice) == ":3" and src(b.slice) == "3:" and src(sa.value) == src(b.value) \
            and isinstance(a, ast.Call) and last_attr(a.func) == "Code"
    ctx.ob("C06.DEC", pl, "parse_line returns (Code(s[:3]), s[3:]) of the same string", ok, "reply line is not split into complementary [:3] / [3:] parts", construct="parse_line:split")
    # the string split is the decoded line with only trailing whitespace/EOL removed
    svar = None
    for n in walk_no_nested(pl):
        if isinstance(n, ast.Assign) and isinstance(n.targets[0], ast.Name) and isinstance(n.value, ast.Call) and isinstance(n.value.func, ast.Attribute) and n.value.func.attr in ("rstrip", "strip", "lstrip"):
            inner = n.value.func.value
            okd = n.value.func.attr == "rstrip" and isinstance(inner, ast.Call) and is_method_call(inner, "decode")
            ctx.ob("C06.DEC", n, "the line is decoded and only right-stripped", okd, f"parse_line applies `{n.value.func.attr}` to the decoded line: leading characters of the code field are removed",
                   construct=f"parse_line:{n.value.func.attr}")
    empties = [n for n in walk_no_nested(pl) if isinstance(n, ast.If) and isinstance(n.test, ast.UnaryOp) and isinstance(n.test.op, ast.Not) and any(isinstance(s, ast.Raise) for s in n.body)]
    ctx.ob("C06.DEC", pl, "an empty read (peer closed) raises instead of being parsed", bool(empties), "parse_line does not reject an empty read", construct="parse_line:empty")
    pr = p.method("BaseClient", "parse_response")
    # framing decision: abstract evaluation of the decoder against the reference framing over all line-kind sequences of length <= 3
    from .. import decoder
    n_seq, diffs = decoder.compare(pr, 3, helpers={n_: f_ for n_, f_ in p.methods("BaseClient").items() if n_ not in ("parse_response", "parse_line")})
    groups = {}
    for lines, got, want in diffs:
        groups.setdefault((got[0], want[0]), []).append((lines, got, want))
    by_first = {}
    for kind in decoder.KINDS:
        bad = [d for d in diffs if d[0][0][2] == kind]
        wit = decoder.render(bad[0][0]) if bad else None
        ctx.ob("C06.DEC", pr, f"decoder == reference framing on every line sequence (length <= 3) whose first text is of kind {kind!r}", not bad,
               (f"reply decoder deviates from the framing on the line sequence {wit}: it gives {bad[0][1]} where the framing requires {bad[0][2]} "
                "('more' = keeps waiting for lines / swallows the next reply, 'done' = ends the reply, 'reject' = raises)") if bad else "",
               construct=f"parse_response:framing:first={kind!r}:{bad[0][1][0] if bad else ''} vs {bad[0][2][0] if bad else ''}")
    ctx.note(f"decoder abstract evaluation: {n_seq} line sequences, {len(diffs)} deviations")
    loops = [n for n in ast.walk(pr) if isinstance(n, ast.While)]   # local helper functions of the decoder included
    if len(loops) != 1:
        if diffs:
            return
        raise Inconclusive("C06.DEC: parse_response has no single while loop; content rules (re-join, append) cannot be located")
    w = loops[0]
    first = [n for n in pr.body if isinstance(n, ast.Assign) and isinstance(n.value, ast.Await) and is_self_call(n.value.value, {"parse_line"})]
    inner = [n for n in walk_no_nested(w) if isinstance(n, ast.Assign) and isinstance(n.value, ast.Await) and is_self_call(n.value.value, {"parse_line"})]
    if not first or not isinstance(first[0].targets[0], ast.Tuple) or not inner or not isinstance(inner[0].targets[0], ast.Tuple):
        if diffs:
            return
        raise Inconclusive("C06.DEC: parse_line unpacks not recognised; content rules cannot be located")
    code0, rest0 = [e.id for e in first[0].targets[0].elts]
    ccode, crest = [e.id for e in inner[0].targets[0].elts]
    rejects = rejoin = False
    for n in walk_no_nested(w):
        if isinstance(n, ast.If) and isinstance(n.test, ast.Compare) and isinstance(n.test.ops[0], ast.NotEq) and {src(n.test.left), src(n.test.comparators[0])} == {ccode, code0} \
                and any(isinstance(s, ast.Raise) for s in n.body):
            rejects = True
    for n in walk_no_nested(w):
        if isinstance(n, ast.BinOp) and isinstance(n.op, ast.Add) and src(n.left) == ccode and src(n.right) == crest \
                and isinstance(p.parent.get(n), ast.Call) and is_method_call(p.parent.get(n), "append"):
            rejoin = True
    ctx.ob("C06.DEC", w, "a continuation line with a different numeric code raises", rejects, "a continuation line carrying a different code is accepted (misread) instead of rejected", construct="parse_response:mismatch")
    ctx.ob("C06.DEC", w, "a non-numeric head is re-joined to the text (inverse of the split)", rejoin, "unprefixed body lines lose their first three characters (head not re-joined)", construct="parse_response:rejoin")
    # every line read is appended exactly once on every path through the loop body
    ok = True
    for ev, out in Cfg(lambda n: [], p.issub).seq(w.body):
        if out[0] == "raise":
            continue
        n_app = sum(1 for n in evaluated(ev) for c in walk_self(n) if isinstance(c, ast.Call) and is_method_call(c, "append"))
        n_read = sum(1 for n in evaluated(ev) for c in walk_self(n) if is_self_call(c, {"parse_line"}))
        if n_app != 1 or n_read != 1 or out[0] in ("break", "return"):
            ok = False
    first_ok = any(isinstance(n, ast.Assign) and isinstance(n.value, ast.List) and [src(e) for e in n.value.elts] == [rest0] for n in pr.body)
    ctx.ob("C06.DEC", pr, "every decoded line is appended exactly once (first line included)", ok and first_ok,
           "the decoder does not append each line read exactly once", construct="parse_response:append")
    rets = [r for r in walk_no_nested(pr) if isinstance(r, ast.Return)]
    ok = bool(rets) and isinstance(rets[-1].value, ast.Tuple) and src(rets[-1].value.elts[0]) == code0
    ctx.ob("C06.DEC", pr, "the decoder returns the first line's code", ok, "the decoder does not return the first line's code", construct="parse_response:return code")


def _ancestors(p, n, stop=None):
    q = p.parent.get(n)
    while q is not None and q is not stop:
        yield q
        q = p.parent.get(q)


def _mask_evalb(a, b):
    def evalb(e, cls, eq):
        """cls in digit/letter/other for the MASK char"""
        if isinstance(e, ast.BoolOp):
            vs = [evalb(v, cls, eq) for v in e.values]
            return all(vs) if isinstance(e.op, ast.And) else any(vs)
        if isinstance(e, ast.UnaryOp) and isinstance(e.op, ast.Not):
            return not evalb(e.operand, cls, eq)
        if isinstance(e, ast.Call) and isinstance(e.func, ast.Attribute) and isinstance(e.func.value, ast.Name) and e.func.value.id == a and not e.args:
            t = e.func.attr
            if t in ("isdigit", "isdecimal", "isnumeric"):
                return cls == "digit"
            if t == "isalpha":
                return cls == "letter"
            if t == "isalnum":
                return cls in ("digit", "letter")
        if isinstance(e, ast.Compare) and len(e.ops) == 1:
            l, r = e.left, e.comparators[0]
            if {src(l), src(r)} == {a, b}:
                return eq if isinstance(e.ops[0], ast.Eq) else (not eq) if isinstance(e.ops[0], ast.NotEq) else None
            if isinstance(l, ast.Name) and l.id == a and isinstance(r, ast.Constant) and isinstance(e.ops[0], (ast.Eq, ast.NotEq, ast.In, ast.NotIn)):
                # comparison with a literal wildcard character (e.g. 'x'): true only for that letter, not for every non-digit
                val = cls == "letter-x"
                return val if isinstance(e.ops[0], (ast.Eq, ast.In)) else not val
        raise Inconclusive("C06.MASK: atom not recognised: " + src(e))
    return evalb


def _mask_literals(ctx, p):
    masks = [n for n in ast.walk(p.trees["client.py"]) if isinstance(n, ast.Constant) and isinstance(n.value, str) and re.fullmatch(r"[0-9x]{1,4}", n.value)
             and any(ch.isdigit() for ch in n.value) and not isinstance(p.parent.get(n), ast.Expr)]
    for n in masks:
        if len(n.value) != 3:
            ctx.fail("C06.MASK", n, f"mask literal {n.value!r} is not 3 characters: zip() compares a prefix only", construct=f"mask:{n.value}")
        else:
            ctx.ob("C06.MASK", n, f"mask literal {n.value!r} is 3 characters", True)
    ctx.floor("C06.MASK", 35, "mask literals and table rows")


def _mask_loop_form(ctx, p, m, params):
    """`for m, c in zip(mask, self): <ifs with return False / continue>` followed by `return True`: one iteration is evaluated over (mask char class) x (equal)"""
    body = [st for st in m.body if not (isinstance(st, ast.Expr) and isinstance(st.value, ast.Constant))]
    if not (len(body) == 2 and isinstance(body[0], ast.For) and not body[0].orelse and isinstance(body[1], ast.Return) and isinstance(body[1].value, ast.Constant)
            and body[1].value.value is True):
        return False
    loop = body[0]
    if not (isinstance(loop.target, ast.Tuple) and len(loop.target.elts) == 2 and all(isinstance(e, ast.Name) for e in loop.target.elts)
            and isinstance(loop.iter, ast.Call) and isinstance(loop.iter.func, ast.Name) and loop.iter.func.id == "zip" and len(loop.iter.args) == 2):
        return False
    a, b = [e.id for e in loop.target.elts]
    pair_src = [src(x) for x in loop.iter.args]
    ctx.ob("C06.MASK", loop, "the loop pairs (mask char, code char) position by position", pair_src == [params[1], params[0]],
           f"matches pairs {pair_src}, expected (mask, self)", construct=f"matches:pairing {pair_src}")
    evalb = _mask_evalb(a, b)

    def run(stmts, cls, eq):
        for st in stmts:
            if isinstance(st, ast.If):
                r = run(st.body if evalb(st.test, cls, eq) else st.orelse, cls, eq)
                if r != "next":
                    return r
            elif isinstance(st, ast.Return) and isinstance(st.value, ast.Constant) and isinstance(st.value.value, bool):
                return st.value.value
            elif isinstance(st, ast.Continue):
                return "continue"
            elif isinstance(st, ast.Break):
                return "break"
            elif isinstance(st, ast.Pass):
                continue
            else:
                raise Inconclusive("C06.MASK: loop statement not recognised: " + src(st)[:60])
        return "next"
    for cls in ("digit", "letter", "other"):
        for eq in (True, False):
            if cls != "digit" and eq:
                continue
            got = run(loop.body, cls, eq)
            want = "goes on to the next position" if (cls != "digit" or eq) else "returns False"
            ok = (got in ("next", "continue")) if (cls != "digit" or eq) else got is False
            what = {"break": "stops comparing (the remaining positions are accepted unseen)", True: "returns True at once (the remaining positions are accepted unseen)",
                    False: "returns False", "next": "goes on", "continue": "goes on"}[got]
            ctx.ob("C06.MASK", loop, f"mask char class {cls}, equal={eq}: the iteration {what}", ok,
                   f"Code.matches: for a {cls} mask character (equal={eq}) the loop {what}; the statement requires that it {want}: any non-digit is a wildcard for its own position only, a digit must agree",
                   construct=f"matches:loop({cls},{eq})={got}")
    return True


def rule_wait(ctx):
    p = ctx.p
    ctx.rule("C06.WAIT", "BaseClient.command skips a reply exactly when its code matches a wait mask: the loop test depends on the wait masks only (not on the expected masks - a "
                         "preliminary 1xx that also fits a wide expected mask would be returned as the answer and the final reply left on the stream for the next command), "
                         "and whatever code ends the loop is checked against the expected masks")
    cmd = p.method("BaseClient", "command")
    params = [a.arg for a in cmd.args.args] + [a.arg for a in cmd.args.kwonlyargs]
    exp_n = next((a for a in params if "expected" in a), None)
    wait_n = next((a for a in params if "wait" in a), None)
    if exp_n is None or wait_n is None:
        raise AnalysisError("anchor=BaseClient.command(expected_codes, wait_codes) parameters not found")
    loops = [l for l in walk_no_nested(cmd) if isinstance(l, ast.While) and any(isinstance(c, ast.Call) and is_self_call(c, {"parse_response"}) for c in ast.walk(l))]
    if not loops:
        raise Inconclusive("C06.WAIT: the loop that re-reads a reply in BaseClient.command was not found")
    for l in loops:
        t = deep_expand(p, l.test, cmd, stop={exp_n, wait_n})
        names = {x.id for x in ast.walk(t) if isinstance(x, ast.Name)}
        if isinstance(l.test, ast.Constant):
            # `while True:` form: the tests that leave the loop decide
            names = set()
            for b in ast.walk(l):
                if isinstance(b, ast.If) and any(isinstance(x, (ast.Break, ast.Return)) for s_ in b.body + b.orelse for x in ast.walk(s_)):
                    names |= {x.id for x in ast.walk(deep_expand(p, b.test, cmd, stop={exp_n, wait_n})) if isinstance(x, ast.Name)}
        ctx.ob("C06.WAIT", l, "the wait loop's test reads the wait masks", wait_n in names,
               f"the loop that skips preliminary replies does not look at `{wait_n}`", construct="wait:test ignores wait masks")
        ctx.ob("C06.WAIT", l, "the wait loop's test does not depend on the expected masks", exp_n not in names,
               f"the loop that skips preliminary replies also depends on `{exp_n}` (`{src(l.test)[:70]}`): a reply that matches a wait mask and an expected mask "
               "ends the wait - the final reply stays on the stream and is read as the answer to the next command", construct="wait:test depends on expected masks")
    checks = [c for c in walk_no_nested(cmd) if isinstance(c, ast.Call) and is_self_call(c, {"check_codes"})]
    ok = bool(checks) and all(c.args and src(c.args[0]) == exp_n for c in checks)
    for c in checks:
        gs = [(t, pol) for t, pol in all_guards(p, c, cmd)]
        ok = ok and all((isinstance(t, ast.Name) and t.id == exp_n and pol) or (isinstance(t, ast.BoolOp) and isinstance(t.op, ast.Or) and pol and {src(v) for v in t.values} == {exp_n, wait_n})
                        for t, pol in gs)
    ctx.ob("C06.WAIT", checks[0] if checks else cmd, "the final code is checked against the expected masks whenever there are any", ok,
           "BaseClient.command does not check the code that ended the wait against the expected masks on every path", construct="wait:final code unchecked")


def rule_mask(ctx):
    p = ctx.p
    ctx.rule("C06.MASK", "Code.matches: per-position predicate over (mask char class) x (equal) = wildcard for any non-digit, equality for digits, aggregated with all(); mask literals are 3 chars")
    m = p.method("Code", "matches")
    params = [x.arg for x in m.args.args]
    loop_form = _mask_loop_form(ctx, p, m, params)
    if loop_form:
        _mask_literals(ctx, p)
        return
    rets = [n for n in walk_no_nested(m) if isinstance(n, ast.Return)]
    if not rets:
        raise Inconclusive("C06.MASK: Code.matches has no return")
    ret = deep_expand(p, rets[0].value, m)
    negated = False
    if isinstance(ret, ast.UnaryOp) and isinstance(ret.op, ast.Not) and isinstance(ret.operand, ast.Call):
        ret, negated = ret.operand, True    # not any(Q) == all(not Q), not all(Q) == any(not Q)
    if not (isinstance(ret, ast.Call) and isinstance(ret.func, ast.Name) and ret.func.id in ("all", "any")):
        raise Inconclusive("C06.MASK: aggregate form not recognised: " + src(ret))
    aggregate = ret.func.id if not negated else {"all": "any", "any": "all"}[ret.func.id]
    ctx.ob("C06.MASK", ret, "positions are aggregated with all()", aggregate == "all",
           "mask matching aggregates positions with any(): one agreeing or wildcard position accepts the code", construct="matches:any")
    inner = ret.args[0]
    pred = a = b = None
    pair_src = None
    if isinstance(inner, ast.Call) and isinstance(inner.func, ast.Name) and inner.func.id == "map" and isinstance(inner.args[0], ast.Lambda) and len(inner.args) == 3:
        lam = inner.args[0]
        a, b = [x.arg for x in lam.args.args]
        pred = lam.body
        pair_src = [src(inner.args[1]), src(inner.args[2])]
    elif isinstance(inner, (ast.GeneratorExp, ast.ListComp)) and len(inner.generators) == 1:
        g = inner.generators[0]
        if isinstance(g.target, ast.Tuple) and len(g.target.elts) == 2 and isinstance(g.iter, ast.Call) and isinstance(g.iter.func, ast.Name) and g.iter.func.id == "zip":
            a, b = [e.id for e in g.target.elts]
            pred = inner.elt
            pair_src = [src(x) for x in g.iter.args]
            if g.ifs:
                raise Inconclusive("C06.MASK: filtered comprehension not recognised")
    if pred is None:
        raise Inconclusive("C06.MASK: per-position predicate not recognised")
    if negated:
        pred = ast.UnaryOp(op=ast.Not(), operand=pred)
    ok_pair = pair_src == [params[1], params[0]]
    ctx.ob("C06.MASK", inner, "the predicate pairs (mask char, code char) position by position", ok_pair,
           f"matches pairs {pair_src}, expected (mask, self)", construct=f"matches:pairing {pair_src}")
    evalb = _mask_evalb(a, b)
    for cls in ("digit", "letter", "other"):
        for eq in (True, False):
            if cls != "digit" and eq:
                continue   # a non-digit mask char never equals a code digit
            want = eq if cls == "digit" else True
            got = evalb(pred, cls, eq)
            ctx.ob("C06.MASK", pred, f"mask char class {cls}, equal={eq}: predicate gives {got}", got == want,
                   f"per-position predicate gives {got} for a {cls} mask character (equal={eq}); the statement requires {want}: any non-digit is a wildcard, a digit must agree",
                   construct=f"matches:pred({cls},{eq})={got}")
    _mask_literals(ctx, p)


def rule_lit(ctx):
    p = ctx.p
    ctx.rule("C06.LIT", "every reply code reaching the reply primitive is a 3-ASCII-digit constant")
    n_codes = 0
    ms = p.methods("Server")
    fail_codes = ["503"] + [d.kwargs.get("fail_code") for m in ms.values() for f_ in [m] + p.nested_functions(m) for d in p.decorators(f_)
                            if d.name == "ConnectionConditions" and "fail_code" in d.kwargs]
    for c in ast.walk(p.trees["server.py"]):
        if is_reply(c):
            n_codes += 1
            fn = p.enclosing_function(c)
            if not c.args:
                ctx.fail("C06.LIT", c, "reply without a code", construct=f"{p.fn_of(c)}:no code")
                continue
            a = c.args[0]
            if isinstance(a, ast.Attribute) and a.attr == "fail_code":
                vals = fail_codes
            else:
                vals = const_values(p, a, fn)
            bad = [v for v in vals if not (isinstance(v, str) and re.fullmatch(r"[0-9]{3}", v))]
            ctx.ob("C06.LIT", c, f"{p.fn_of(c)}: reply code(s) {sorted(set(map(str, vals)))} are 3-digit constants", not bad,
                   f"reply code {bad[0] if bad else None!r} is not a 3-digit constant", construct=f"{p.fn_of(c)}:code:{bad[0] if bad else None!r}")
            if len(c.args) > 3 or any(k.arg not in (None,) for k in c.keywords):
                pass
    ctx.floor("C06.LIT", 36, "reply sites")
    # the reply primitive enqueues (code, lines[, list]) and the writer forwards them in order to write_response
    ctor = p.session_ctor()
    r_args, r_body, _ = response_primitive(p)
    ok = r_args is not None and r_args.vararg is not None and not r_args.args and isinstance(r_body, ast.Call) and is_method_call(r_body, "put_nowait") \
        and [src(x) for x in r_body.args] == [r_args.vararg.arg]
    ctx.ob("C06.LIT", ctor, "the reply primitive enqueues its arguments unchanged", ok, "the reply primitive does not enqueue its arguments unchanged", construct="response primitive")
    rw = p.method("Server", "response_writer")
    calls = [c for c in walk_no_nested(rw) if is_self_call(c, {"write_response"})]
    ok = len(calls) == 1 and len(calls[0].args) == 2 and isinstance(calls[0].args[1], ast.Starred)
    ctx.ob("C06.LIT", rw, "the response writer forwards each queued reply to write_response(stream, *args), one at a time", ok, "response_writer does not forward queued replies unchanged", construct="response_writer:forward")


def rule_cmd(ctx):
    p = ctx.p
    ctx.rule("C06.CMD", "server parse_command: verb/argument split at the first space; the returned verb is the normalised verb")
    pc = p.method("Server", "parse_command")
    parts = [n for n in walk_no_nested(pc) if isinstance(n, ast.Assign) and isinstance(n.value, ast.Call) and isinstance(n.value.func, ast.Attribute) and n.value.func.attr in ("partition", "split", "rpartition")]
    ok = len(parts) == 1 and parts[0].value.func.attr == "partition" and parts[0].value.args and isinstance(parts[0].value.args[0], ast.Constant) and parts[0].value.args[0].value == " "
    ctx.ob("C06.CMD", pc, "the command line is split with partition(' ') (first space)", ok, "the command line is not split at the first space", construct="parse_command:split")
    table, _ = p.command_table()
    ctx.ob("C06.CMD", pc, "all command-table keys are lower case", all(k == k.lower() for k in table), "command table has non-lower-case keys", construct="table:case")
    # client side: command line = command + END_OF_LINE encoded
    cm = p.method("BaseClient", "command")
    enc = [c for c in walk_no_nested(cm) if isinstance(c, ast.Call) and is_method_call(c, "encode")]
    ok = len(enc) == 1
    if ok:
        v = expand(p, enc[0].func.value, cm)
        ok = isinstance(v, ast.BinOp) and isinstance(v.op, ast.Add) and src(v.right) == "END_OF_LINE" and isinstance(v.left, ast.Name)
    ctx.ob("C06.CMD", cm, "the client sends command + END_OF_LINE, encoded", ok, "the client does not send the command followed by exactly one END_OF_LINE", construct="command:line form")


def rule_support(ctx):
    p = ctx.p
    ctx.rule("C06.SUPPORT", "the helpers the codec relies on keep their contract: wrap_with_container() returns its argument unchanged (a string becomes a one-element tuple), "
                            "Code is a plain str (constructing it from the first three characters of a line changes nothing)")
    wc = p.module_funcs.get(("common.py", "wrap_with_container"))
    if wc is None:
        raise AnalysisError("anchor=common.wrap_with_container not found")
    par = wc.args.args[0].arg

    def identity(v, depth=3):
        v = v
        if isinstance(v, ast.Name) and v.id == par:
            return True
        if isinstance(v, (ast.Tuple, ast.List)) and len(v.elts) == 1 and isinstance(v.elts[0], ast.Name) and v.elts[0].id == par:
            return True
        if isinstance(v, ast.Call) and isinstance(v.func, ast.Name) and v.func.id in ("tuple", "list") and len(v.args) == 1 and not v.keywords:
            return identity(v.args[0], depth - 1)
        if isinstance(v, ast.Name) and depth > 0:
            ds = [d_ for k, d_, _ in local_defs(wc, v.id) if k == "assign"]
            return bool(ds) and all(identity(d_, depth - 1) for d_ in ds)
        return False
    vals = [r.value for r in walk_no_nested(wc) if isinstance(r, ast.Return) and r.value is not None] + \
           [n.value for n in walk_no_nested(wc) if isinstance(n, ast.Assign) and any(isinstance(t, ast.Name) and t.id == par for t in n.targets)]
    bad = [v for v in vals if not identity(v)]
    ctx.ob("C06.SUPPORT", bad[0] if bad else wc, "wrap_with_container returns its argument's items unchanged", bool(vals) and not bad,
           f"wrap_with_container produces `{src(bad[0])[:50] if bad else ''}`: reply lines are split, de-duplicated or reordered before they are framed "
           "(a name containing a line-boundary character becomes two lines; a repeated line is dropped)", construct="support:wrap_with_container")
    # the line length the decoder accepts is asyncio's (64 KiB): the library configures no smaller StreamReader limit of its own
    lim = []
    for mod in ("client.py", "server.py", "common.py"):
        for c in ast.walk(p.trees[mod]):
            if isinstance(c, ast.Call):
                if any(k.arg == "limit" for k in c.keywords) and (dotted(c.func) or "").split(".")[-1] in ("open_connection", "start_server", "StreamReader", "partial"):
                    lim.append(c)
                if isinstance(c.func, ast.Attribute) and c.func.attr in ("setdefault", "update") and c.args and isinstance(c.args[0], ast.Constant) and c.args[0].value == "limit":
                    lim.append(c)
            if isinstance(c, ast.Assign) and any(isinstance(t, ast.Subscript) and isinstance(t.slice, ast.Constant) and t.slice.value == "limit" for t in c.targets):
                lim.append(c)
    ctx.ob("C06.SUPPORT", lim[0] if lim else wc, "no StreamReader limit is configured by the library", not lim,
           f"the library sets a stream `limit` (`{src(lim[0])[:50] if lim else ''}`): readline() raises for a reply line longer than that (a long 257 path, an MLST facts line) "
           "where asyncio's default accepts 64 KiB - the reply is not decoded and the following one is out of step", construct="support:stream limit")
    code_cls = p.cls("Code")
    overridden = [n.name for n in code_cls.body if isinstance(n, FuncT) and n.name in ("__new__", "__init__", "__eq__", "__ne__", "__hash__", "__str__", "__getitem__", "__format__", "isdigit", "startswith")]
    ctx.ob("C06.SUPPORT", code_cls, "Code overrides nothing of str that the decoder uses (construction, comparison, isdigit)", not overridden,
           f"Code overrides {overridden}: `Code(line[:3])` is no longer the three characters read - an unprefixed body line such as ' 12 files' turns into a numeric reply code",
           construct=f"support:Code:{overridden}")


RULES = [rule_enc, rule_dec, rule_mask, rule_wait, rule_lit, rule_cmd, rule_support]
