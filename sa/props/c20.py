"""C20 Passwords never reach the logs"""
import ast
import copy
from ..model import *
from ..util import *
from ..facts import *

EXPLANATION = (
    "Information-flow (taint) analysis, exhaustive over every logging sink of the package (logger.*, logging.*, print, "
    "warnings.warn, exception text that reaches logger.exception, and server replies - every reply line is logged by "
    "write_line). Sources: on the server the raw control line, its decoded form and the argument whenever the "
    "normalised verb is in the censor set; the argument of every handler that passes it to authenticate(); on the "
    "client the `password` parameter of login()/context() and any command string built from it. A value that depends "
    "on a secret only through len() is declassified. The censor key and the dispatch key must be the same expression; "
    "every verb whose handler authenticates with its argument is in the censor set; at each client command() call "
    "with a secret command, censor_after is the constant length of the non-secret literal prefix; inside command() "
    "the full string reaches a logger only on the branch where censor_after is falsy."
)
NOT_DECIDED = [
    "third-party log handlers/formatters; custom user managers that log their arguments",
    "callers that push a password through the generic Client.command() themselves without censor_after",
    "logging performed by asyncio itself (e.g. unhandled exception reports containing arguments)",
]

LOG_METHODS = {"debug", "info", "warning", "warn", "error", "exception", "critical", "log", "fatal"}


def logger_calls(node, nested=True):
    it = ast.walk(node) if nested else walk_no_nested(node)
    for c in it:
        if not isinstance(c, ast.Call):
            continue
        f = c.func
        if isinstance(f, ast.Attribute) and f.attr in LOG_METHODS and isinstance(f.value, ast.Name) and ("log" in f.value.id.lower()):
            yield c
        elif isinstance(f, ast.Attribute) and f.attr in LOG_METHODS and isinstance(f.value, ast.Call) and (dotted(f.value.func) or "").endswith("getLogger"):
            yield c
        elif isinstance(f, ast.Name) and f.id == "print":
            yield c
        elif dotted(f) in ("warnings.warn", "sys.stderr.write", "sys.stdout.write", "traceback.print_exc", "pprint.pprint"):
            yield c


def sink_args(c):
    return list(c.args) + [k.value for k in c.keywords if k.arg not in ("exc_info", "stack_info", "stacklevel", "file", "end", "sep", "flush")]


def under_len_only(expr, t):
    """names of tainted variables used in expr other than under len()"""
    out = set()

    def rec(n, shielded):
        if isinstance(n, ast.Call) and isinstance(n.func, ast.Name) and n.func.id == "len":
            for a in n.args:
                rec(a, True)
            return
        if isinstance(n, ast.Name) and n.id in t and not shielded:
            out.add(n.id)
        for ch in ast.iter_child_nodes(n):
            rec(ch, shielded)
    rec(expr, False)
    return out


def taint_names(fn, seeds, safe_parts=None):
    """flow-insensitive taint closure over local names of fn (not nested)
    safe_parts: {name: set of tuple indices} - unpack positions known not to carry the secret (partition head/sep)"""
    t = set(seeds)
    changed = True
    while changed:
        changed = False
        for n in walk_no_nested(fn):
            val, targets = None, []
            if isinstance(n, ast.Assign):
                val, targets = n.value, n.targets
            elif isinstance(n, ast.AugAssign):
                val, targets = n.value, [n.target]
            elif isinstance(n, ast.AnnAssign) and n.value is not None:
                val, targets = n.value, [n.target]
            elif isinstance(n, ast.NamedExpr):
                val, targets = n.value, [n.target]
            elif isinstance(n, (ast.For, ast.AsyncFor)):
                val, targets = n.iter, [n.target]
            elif isinstance(n, (ast.With, ast.AsyncWith)):
                for it in n.items:
                    if it.optional_vars is not None and under_len_only(it.context_expr, t):
                        for e in ast.walk(it.optional_vars):
                            if isinstance(e, ast.Name) and e.id not in t:
                                t.add(e.id)
                                changed = True
                continue
            if val is None:
                continue
            if not under_len_only(val, t):
                continue
            inner = val.value if isinstance(val, ast.Await) else val
            if isinstance(inner, ast.Call) and isinstance(inner.func, ast.Attribute) and inner.func.attr in ("command", "parse_response", "authenticate", "get_user"):
                continue   # the result is the peer's reply / a verdict, not a function of the text that was sent
            for tg in targets:
                if isinstance(tg, ast.Name):
                    if tg.id not in t:
                        t.add(tg.id)
                        changed = True
                elif isinstance(tg, (ast.Tuple, ast.List)):
                    is_part = isinstance(val, ast.Call) and isinstance(val.func, ast.Attribute) and val.func.attr == "partition" and len(tg.elts) == 3 \
                        and val.args and isinstance(val.args[0], ast.Constant)
                    for i, e in enumerate(tg.elts):
                        e = e.value if isinstance(e, ast.Starred) else e
                        if isinstance(e, ast.Name) and e.id not in t:
                            if is_part and i == 1:
                                continue   # the separator is the constant itself
                            t.add(e.id)
                            changed = True
                elif isinstance(tg, (ast.Attribute, ast.Subscript)):
                    base = tg
                    while isinstance(base, (ast.Attribute, ast.Subscript)):
                        base = base.value
                    if isinstance(base, ast.Name) and base.id not in t and base.id not in ("self", "cls"):
                        t.add(base.id)
                        changed = True
    return t


def authenticates_with(p, fn, name, depth=2):
    """does fn pass local `name` to <user manager>.authenticate, directly or through a helper method of the same class (one or two levels)?"""
    for c in ast.walk(fn):
        if isinstance(c, ast.Call) and is_method_call(c, "authenticate") and any(isinstance(a, ast.Name) and a.id == name for a in c.args):
            return True
    if depth <= 0:
        return False
    for c in ast.walk(fn):
        if is_self_call(c) and any(isinstance(a, ast.Name) and a.id == name for a in c.args):
            h = p.methods("Server").get(c.func.attr)
            if h is None or h is fn:
                continue
            hp = [a.arg for a in h.args.args]
            if hp and hp[0] in ("self", "cls"):
                hp = hp[1:]
            for i, a in enumerate(c.args):
                if isinstance(a, ast.Name) and a.id == name and i < len(hp) and authenticates_with(p, h, hp[i], depth - 1):
                    return True
    return False


def helper_leaks(p, helper, param, conn_param=None):
    """sinks inside a helper that depend on its (secret) parameter: [(node, what)]"""
    out = []
    th = taint_names(helper, {param})
    for c in logger_calls(helper, nested=False):
        used = set().union(*[under_len_only(a, th) for a in sink_args(c)]) if sink_args(c) else set()
        if used:
            out.append((c, "log"))
    for c in walk_no_nested(helper):
        if isinstance(c, ast.Call) and is_reply(c) and any(under_len_only(a, th) for a in c.args):
            out.append((c, "reply"))
        if isinstance(c, ast.Raise) and c.exc is not None and under_len_only(c.exc, th):
            out.append((c, "exception text"))
    return out


def rule_server(ctx):
    p = ctx.p
    ctx.rule("C20.SRV", "parse_command: the line/argument reaches a logger only on the non-censored branch; censor key == dispatch key; authenticating verbs are censored")
    table, _ = p.command_table()
    ms = p.methods("Server")
    # parse_command by role: the coroutine whose task result the dispatcher unpacks into (cmd, rest)
    pc = ms.get("parse_command")
    if pc is None:
        raise AnalysisError("anchor=Server.parse_command not found")
    censor_default = None
    censor_param = None
    for a, dflt in list(zip(reversed(pc.args.args), reversed(pc.args.defaults))) + list(zip(pc.args.kwonlyargs, pc.args.kw_defaults)):
        if dflt is None:
            continue
        try:
            v = ast.literal_eval(dflt)
        except Exception:
            continue
        if isinstance(v, (tuple, list, set, frozenset)) and all(isinstance(x, str) for x in v):
            censor_default, censor_param = set(v), a.arg
    if censor_default is None:
        raise AnalysisError("anchor=censor set (tuple-of-verbs default parameter of parse_command) not found")
    # call sites must not override the censor set with something smaller
    for c in ast.walk(p.trees["server.py"]):
        if isinstance(c, ast.Call) and is_self_call(c, {"parse_command"}):
            over = kwarg(c, censor_param, 1)
            ctx.ob("C20.SRV", c, "parse_command is called with the default censor set", over is None,
                   f"parse_command is called with an explicit censor set `{src(over) if over is not None else ''}`", construct=f"{p.fn_of(c)}:censor override")
    seeds = set()
    for n in walk_no_nested(pc):
        if isinstance(n, ast.Assign) and isinstance(n.value, ast.Await) and isinstance(n.value.value, ast.Call) and isinstance(n.value.value.func, ast.Attribute) \
                and n.value.value.func.attr in ("readline", "read", "readexactly", "readuntil"):
            seeds |= {t.id for t in n.targets if isinstance(t, ast.Name)}
    if not seeds:
        raise AnalysisError("anchor=control line read (x = await stream.readline()) not found in parse_command")
    t = taint_names(pc, seeds)
    rets = [n for n in walk_no_nested(pc) if isinstance(n, ast.Return) and isinstance(n.value, ast.Tuple) and len(n.value.elts) == 2]
    if not rets:
        raise AnalysisError("anchor=parse_command return pair not found")
    dispatch_key = rets[-1].value.elts[0]
    dk = src(expand(p, dispatch_key, pc))
    # the verb part (head of partition) is not secret by itself: cmd. The secret is the argument (tail) and anything containing it.
    verb_names = set()
    for n in walk_no_nested(pc):
        if isinstance(n, ast.Assign) and isinstance(n.targets[0], ast.Tuple) and isinstance(n.value, ast.Call) and isinstance(n.value.func, ast.Attribute) and n.value.func.attr == "partition":
            e0 = n.targets[0].elts[0]
            if isinstance(e0, ast.Name):
                verb_names.add(e0.id)
    t_secret = t - verb_names
    # names derived only from verb names are not secret
    for n in walk_no_nested(pc):
        if isinstance(n, ast.Assign) and isinstance(n.targets[0], ast.Name):
            used = {x.id for x in ast.walk(n.value) if isinstance(x, ast.Name)}
            if used and used <= verb_names:
                verb_names.add(n.targets[0].id)
                t_secret.discard(n.targets[0].id)
    n_sites = 0
    for c in logger_calls(pc, nested=False):
        n_sites += 1
        used = set().union(*[under_len_only(a, t_secret) for a in sink_args(c)]) if sink_args(c) else set()
        if not used:
            ctx.ob("C20.SRV", c, f"parse_command log `{src(c)[:50]}` depends on the line at most through len()", True)
            continue
        # every place where the secret enters the logged value (directly, or through the local definitions of the logged names:
        # `shown = "*" * len(rest) if censored else rest`) must lie on the non-censored side of the censor test
        leaves = []

        def occurrences(expr, seen):
            def rec(n, shielded):
                if isinstance(n, ast.Call) and isinstance(n.func, ast.Name) and n.func.id == "len":
                    for a in n.args:
                        rec(a, True)
                    return
                if isinstance(n, ast.Name) and n.id in t_secret and not shielded:
                    defs = [d_ for d_ in walk_no_nested(pc) if isinstance(d_, ast.Assign) and len(d_.targets) == 1 and isinstance(d_.targets[0], ast.Name) and d_.targets[0].id == n.id]
                    other = [d_ for d_ in local_defs(pc, n.id) if not (d_[0] == "assign" and d_[2] in defs)]
                    if defs and not other and n.id not in seen and not any(isinstance(d_.value, ast.Await) for d_ in defs):
                        for d_ in defs:
                            occurrences(d_.value, seen | {n.id})
                    else:
                        leaves.append(n)
                for ch in ast.iter_child_nodes(n):
                    rec(ch, shielded)
            rec(expr, False)
        for a in sink_args(c):
            occurrences(a, frozenset())
        saw_censor = False

        def censored_side(node):
            nonlocal saw_censor
            for tst, pol in all_guards(p, node, pc) + all_guards(p, c, pc):
                if isinstance(tst, ast.Compare) and len(tst.ops) == 1 and isinstance(tst.ops[0], (ast.In, ast.NotIn)) and isinstance(tst.comparators[0], ast.Name) \
                        and tst.comparators[0].id == censor_param:
                    saw_censor = True
                    not_in = (isinstance(tst.ops[0], ast.In) and not pol) or (isinstance(tst.ops[0], ast.NotIn) and pol)
                    if not_in and src(expand(p, tst.left, pc)) == dk:
                        return True
            return False
        ok = bool(leaves) and all(censored_side(n) for n in leaves)
        why = ("the censor test uses a different key than the dispatch key " + dk) if saw_censor and not ok else "it is not confined to the non-censored branch"
        ctx.ob("C20.SRV", c, f"parse_command log `{src(c)[:50]}` receives the argument only on the non-censored branch", ok,
               f"log call receives {sorted(used)} (may contain the password): {why}", construct=f"parse_command:{src(c)[:70]}")
    if n_sites < 1:
        ctx.floor_errors.append(f"rule=C20.SRV: {n_sites} log sites in parse_command (floor 1)")
    # the censor set is not reassigned/mutated
    for n in walk_no_nested(pc):
        if isinstance(n, ast.Assign) and any(isinstance(tg, ast.Name) and tg.id == censor_param for tg in n.targets):
            ctx.fail("C20.SRV", n, "the censor set is reassigned inside parse_command", construct="parse_command:censor reassigned")
    # authenticating handlers are censored verbs and do not echo the argument
    ctx.rule("C20.HANDLER", "a handler that authenticates with its argument is a censored verb and its argument reaches no reply, log or exception text")
    n_auth = 0
    for verb, name, h in p.handlers():
        conn, rest = p.handler_params(h)
        if not authenticates_with(p, h, rest):
            continue
        n_auth += 1
        ctx.ob("C20.HANDLER", h, f"verb {verb!r} (passes its argument to authenticate) is in the censor set {sorted(censor_default)}", verb in censor_default,
               f"verb {verb!r} passes its argument to authenticate() but is not in the censor set {sorted(censor_default)}: the password is logged by parse_command",
               construct=f"censor set lacks {verb}")
        th = taint_names(h, {rest})
        for c in walk_no_nested(h):
            if isinstance(c, ast.Call) and is_reply(c):
                used = set().union(*[under_len_only(a, th) for a in c.args]) if c.args else set()
                ctx.ob("C20.HANDLER", c, f"{name}: reply `{src(c)[:40]}` does not depend on the password argument", not used,
                       f"{name}: reply (every reply line is logged) depends on the password argument via {sorted(used)}", construct=f"{name}:reply uses secret")
            if isinstance(c, ast.Raise) and c.exc is not None and under_len_only(c.exc, th):
                ctx.fail("C20.HANDLER", c, f"{name}: exception text built from the password argument (the dispatcher logs it with logger.exception)", construct=f"{name}:raise uses secret")
        for c in logger_calls(h, nested=False):
            used = set().union(*[under_len_only(a, th) for a in sink_args(c)]) if sink_args(c) else set()
            ctx.ob("C20.HANDLER", c, f"{name}: log call does not depend on the password argument", not used,
                   f"{name}: log call depends on the password argument via {sorted(used)}", construct=f"{name}:log uses secret")
        # other calls receiving the secret: only authenticate may
        for c in walk_no_nested(h):
            if isinstance(c, ast.Call) and not is_reply(c) and c not in list(logger_calls(h, nested=False)):
                gets = any(under_len_only(a, th) for a in list(c.args) + [k.value for k in c.keywords])
                if gets and not is_method_call(c, "authenticate") and not (isinstance(c.func, ast.Name) and c.func.id in ("len", "str", "bool", "isinstance")):
                    helper = p.methods("Server").get(c.func.attr) if is_self_call(c) else None
                    if helper is not None:
                        hp = [a.arg for a in helper.args.args]
                        if hp and hp[0] in ("self", "cls"):
                            hp = hp[1:]
                        leaks = []
                        for i, a in enumerate(c.args):
                            if i < len(hp) and under_len_only(a, th):
                                leaks += helper_leaks(p, helper, hp[i])
                        ctx.ob("C20.HANDLER", c, f"{name}: helper {helper.name}() receives the password argument and sends it to no log/reply/exception text", not leaks,
                               f"{name}: helper {helper.name}() puts the password argument into a {leaks[0][1] if leaks else ''}", construct=f"{name}:{helper.name} leaks secret")
                    else:
                        ctx.ob("C20.HANDLER", c, f"{name}: the password argument is passed only to authenticate()", False,
                               f"{name}: the password argument is passed to `{src(c.func)}`, whose logging the analysis does not follow", construct=f"{name}:secret passed to {src(c.func)}")
    if n_auth < 1:
        ctx.floor_errors.append("rule=C20.HANDLER: no authenticating handler found (floor 1)")
    # user manager: authenticate/get_user do not log their arguments
    for cls in ("MemoryUserManager", "AbstractUserManager"):
        for fn in p.methods(cls).values():
            for c in logger_calls(fn):
                names = {a.arg for a in fn.args.args[1:]}
                used = set().union(*[under_len_only(a, names) for a in sink_args(c)]) if sink_args(c) else set()
                ctx.ob("C20.HANDLER", c, f"{cls}.{fn.name}: log call does not depend on its arguments", not used,
                       f"{cls}.{fn.name} logs its argument(s) {sorted(used)}", construct=f"{cls}.{fn.name}:log uses argument")
    # authenticate(): the supplied password is only compared - a conversion or call that can fail with the value in its message (int(), type(x)(...), a parser) ends up in
    # the dispatcher's logger.exception
    for cls in ("MemoryUserManager",):
        au = p.methods(cls).get("authenticate")
        if au is None or len(au.args.args) < 3:
            continue
        pw = au.args.args[2].arg
        tainted = taint_names(au, {pw})
        for c in walk_no_nested(au):
            if isinstance(c, ast.Call) and any(under_len_only(a, tainted) for a in list(c.args) + [k.value for k in c.keywords]):
                fname = dotted(c.func) or src(c.func)
                ok = fname.split(".")[-1] in ("compare_digest", "encode", "len", "str", "bytes", "hash", "sha256", "sha512", "blake2b", "pbkdf2_hmac", "scrypt", "isinstance")
                ctx.ob("C20.HANDLER", c, f"{cls}.authenticate hands the supplied password only to comparison / hashing ({fname})", ok,
                       f"{cls}.authenticate passes the supplied password to `{src(c)[:40]}`: if that call fails its message carries the password "
                       "(`invalid literal for int(): '<password>'`) and the dispatcher's logger.exception() writes it to the server log", construct=f"authenticate:password passed to {fname[:30]}")
    # the guard decorators see the raw argument of every command (PASS included): none of their replies or logs may carry it
    for deco in ("ConnectionConditions", "PathConditions", "PathPermissions"):
        try:
            w = p.wrapper_of(deco)
        except AnalysisError:
            continue
        wp = [a.arg for a in w.args.args]
        if len(wp) < 3:
            continue
        tw = taint_names(w, {wp[2]})
        for c in walk_no_nested(w):
            if isinstance(c, ast.Call) and (is_reply(c) or c in logger_calls(w, nested=False)):
                used = set()
                for a in sink_args(c) if not is_reply(c) else list(c.args):
                    used |= under_len_only(a, tw)
                ctx.ob("C20.HANDLER", c, f"{deco} guard: `{src(c)[:40]}` does not carry the command argument", not used,
                       f"the {deco} guard puts the command argument ({sorted(used)}) into a reply/log: an out-of-sequence PASS is censored by parse_command but its argument "
                       "comes back in the 503 text, which write_line (server) and parse_line (client) log", construct=f"{deco}:reply carries argument")
    # dispatcher: logs of command results / rest
    d = p.dispatcher()
    td = set()
    for n in walk_no_nested(d):
        if isinstance(n, ast.Assign) and isinstance(n.value, ast.Call) and is_method_call(n.value, "result"):
            td |= {t_.id for t_ in n.targets if isinstance(t_, ast.Name)}
    td = taint_names(d, td)
    for c in logger_calls(d, nested=False):
        used = set().union(*[under_len_only(a, td) for a in sink_args(c)]) if sink_args(c) else set()
        ctx.ob("C20.SRV", c, f"dispatcher log `{src(c)[:50]}` does not depend on a parsed command", not used,
               f"dispatcher logs {sorted(used)}, which carries the parsed command line (the PASS argument included)", construct=f"dispatcher:{src(c)[:60]}")
    for c in walk_no_nested(d):
        if isinstance(c, ast.Call) and is_reply(c):
            used = set()
            for a in c.args:
                used |= under_len_only(a, td - _verb_only(d, td))
            ctx.ob("C20.SRV", c, "dispatcher reply does not echo the argument of a command", not used,
                   f"dispatcher reply echoes {sorted(used)} (the argument of a command; replies are logged)", construct=f"dispatcher:reply echoes {sorted(used)}")
    # write_line logs the reply line: fine as long as replies are clean (checked above)


def _verb_only(d, td):
    """names unpacked as the verb (first element) of the parse result"""
    out = set()
    for n in walk_no_nested(d):
        if isinstance(n, ast.Assign) and isinstance(n.targets[0], ast.Tuple) and len(n.targets[0].elts) == 2 and isinstance(n.value, ast.Name) and n.value.id in td:
            e0 = n.targets[0].elts[0]
            if isinstance(e0, ast.Name):
                out.add(e0.id)
    changed = True
    while changed:
        changed = False
        for n in walk_no_nested(d):
            if isinstance(n, ast.Assign) and isinstance(n.targets[0], ast.Name) and n.targets[0].id not in out:
                used = {x.id for x in ast.walk(n.value) if isinstance(x, ast.Name) and x.id in td}
                if used and used <= out:
                    out.add(n.targets[0].id)
                    changed = True
    return out


def rule_client(ctx):
    p = ctx.p
    ctx.rule("C20.CLI", "client: a command built from the password is sent with censor_after == len(non-secret prefix); command() logs the full string only when censor_after is falsy")
    login = p.method("Client", "login")
    cmdm = p.method("BaseClient", "command")
    # symbolic walk of every path through login(): the latest value expression of each local is substituted forward (rows of a
    # lookup table are tried one by one, the same row for all names unpacked from it), so at each command() call the command
    # string and the censor index are expressions over the parameters: a command containing the password must start with a
    # literal prefix and be sent with 0 < censor_after <= len(prefix)
    n_secret = 0
    seen_cases = set()

    class _Sub(ast.NodeTransformer):
        def __init__(self, env):
            self.env = env

        def visit_Name(self, node):
            if isinstance(node.ctx, ast.Load) and node.id in self.env:
                return copy.deepcopy(self.env[node.id])
            return node

    def subst(e, env):
        return _Sub(env).visit(copy.deepcopy(e))

    def check_call(c, env):
        nonlocal n_secret
        arg0 = subst(c.args[0], env)
        if not under_len_only(arg0, {"password"}):
            return
        n_secret += 1
        ca = kwarg(c, "censor_after", 3)
        prefix = None
        if isinstance(arg0, ast.BinOp) and isinstance(arg0.op, ast.Add):
            lp, rest_ = literal_prefix(p, arg0, None)
            if isinstance(lp, str) and lp and rest_ is not None:
                prefix = lp
        elif isinstance(arg0, ast.JoinedStr) and arg0.values and isinstance(arg0.values[0], ast.Constant) and isinstance(arg0.values[0].value, str):
            prefix = arg0.values[0].value
        cav = subst(ca, env) if ca is not None else None
        cst = None
        if isinstance(cav, ast.Constant):
            cst = cav.value
        elif isinstance(cav, ast.Call) and isinstance(cav.func, ast.Name) and cav.func.id == "len" and cav.args and isinstance(cav.args[0], ast.Constant) and isinstance(cav.args[0].value, str):
            cst = len(cav.args[0].value)
        key = (src(arg0), src(cav) if cav is not None else None)
        if key in seen_cases:
            return
        seen_cases.add(key)
        if ca is None:
            ctx.fail("C20.CLI", c, "command built from the password sent without censor_after", construct="login:command without censor_after")
            return
        if prefix is None:
            ctx.fail("C20.CLI", c, f"password command `{src(arg0)[:50]}` has no literal non-secret prefix the censor index could be checked against", construct="login:secret command form")
            return
        ok = isinstance(cst, int) and not isinstance(cst, bool) and 0 < cst <= len(prefix)
        ctx.ob("C20.CLI", c, f"password command `{src(arg0)[:40]}` (prefix {prefix!r}, length {len(prefix)}) is sent with censor_after = {src(cav)}", ok,
               f"password command has non-secret prefix {prefix!r} (length {len(prefix)}) but on some path through login() it is sent with censor_after = {src(cav)}: "
               "the first characters of the password (or all of it) are logged", construct=f"login:censor_after={cst}")

    def is_command_call(c):
        return isinstance(c, ast.Call) and isinstance(c.func, ast.Attribute) and c.func.attr == "command" and c.args

    def walk_path(evs, k, env, budget):
        while k < len(evs):
            e = evs[k]
            k += 1
            if e[0] == "branch":
                for c in walk_self(e[1]):
                    if is_command_call(c):
                        check_call(c, env)
                continue
            if e[0] != "stmt":
                continue
            n = e[1]
            for c in walk_self(n):
                if is_command_call(c):
                    check_call(c, env)
            if isinstance(n, ast.Assign) and len(n.targets) == 1:
                t, v = n.targets[0], n.value
                if isinstance(t, ast.Name):
                    env = dict(env)
                    env[t.id] = subst(v, env) if not isinstance(v, ast.Await) else ast.Name(id=f"<{t.id}>", ctx=ast.Load())
                elif isinstance(t, ast.Tuple) and all(isinstance(x, ast.Name) for x in t.elts):
                    sv = subst(v, env) if not isinstance(v, ast.Await) else v
                    alts = None if isinstance(v, ast.Await) else ([sv] if isinstance(sv, ast.Tuple) else value_alternatives(p, sv, login))
                    alts = [a_ for a_ in (alts or []) if isinstance(a_, (ast.Tuple, ast.List)) and len(a_.elts) == len(t.elts)]
                    if alts and budget > 0:
                        for a_ in alts:
                            env2 = dict(env)
                            for x, y in zip(t.elts, a_.elts):
                                env2[x.id] = subst(y, env)
                            walk_path(evs, k, env2, budget - 1)
                        return
                    env = dict(env)
                    for x in t.elts:
                        env[x.id] = ast.Name(id=f"<{x.id}>", ctx=ast.Load())
            elif isinstance(n, ast.AugAssign) and isinstance(n.target, ast.Name):
                env = dict(env)
                env[n.target.id] = ast.BinOp(left=env.get(n.target.id, ast.Name(id=n.target.id, ctx=ast.Load())), op=n.op, right=subst(n.value, env))
    login_paths = enum_paths(p, login, unroll=2)
    ctx.paths_enumerated = getattr(ctx, "paths_enumerated", 0) + len(login_paths)
    for evs, out in login_paths:
        walk_path(evs, 0, {}, 6)
    if n_secret < 1:
        ctx.floor_errors.append("rule=C20.CLI: no secret command site found in Client.login (floor 1)")
    tl = taint_names(login, {"password"})
    # other functions handling the password: context() forwards only to login; no logging of tainted values anywhere in client.py
    for cls in ("Client", "BaseClient"):
        for fn in p.methods(cls).values():
            params = {a.arg for a in fn.args.args + fn.args.kwonlyargs}
            if "password" not in params:
                continue
            tf = taint_names(fn, {"password"})
            for c in logger_calls(fn):
                used = set().union(*[under_len_only(a, tf) for a in sink_args(c)]) if sink_args(c) else set()
                ctx.ob("C20.CLI", c, f"{cls}.{fn.name}: log call does not depend on the password", not used,
                       f"{cls}.{fn.name} logs a value derived from the password ({sorted(used)})", construct=f"{fn.name}:log uses secret")
            for c in walk_no_nested(fn):
                if isinstance(c, ast.Raise) and c.exc is not None and under_len_only(c.exc, tf):
                    ctx.fail("C20.CLI", c, f"{cls}.{fn.name}: exception text built from the password", construct=f"{fn.name}:raise uses secret")
                if isinstance(c, ast.Call) and any(under_len_only(a, {"password"}) for a in list(c.args) + [k.value for k in c.keywords]):
                    fname = last_attr(c.func)
                    ok = fname in ("login", "command", "str", "len") or (fn.name == "login" and fname in ("command",))
                    if not ok and not (isinstance(c.func, ast.Name) and c.func.id in ("len", "str", "bool", "isinstance")):
                        ctx.fail("C20.CLI", c, f"{cls}.{fn.name}: the password is passed to `{src(c.func)}`", construct=f"{fn.name}:password passed to {src(c.func)}")
    # inside command() - and inside helpers of the same class that command() hands the command string to (one level)
    params = [a.arg for a in cmdm.args.args]
    cmdp = params[1] if len(params) > 1 else "command"
    units = [(cmdm, cmdp, "censor_after", "command()")]
    bcm = p.methods("BaseClient")
    tc0 = taint_names(cmdm, {cmdp})
    for c in walk_no_nested(cmdm):
        if is_self_call(c) and c.func.attr in bcm and c.func.attr not in ("parse_response", "check_codes", "parse_line"):
            h = bcm[c.func.attr]
            hp = [a.arg for a in h.args.args]
            if hp and hp[0] in ("self", "cls"):
                hp = hp[1:]
            h_cmd = h_cens = None
            for i_, a in enumerate(c.args):
                if i_ < len(hp) and under_len_only(a, tc0):
                    h_cmd = hp[i_]
                if i_ < len(hp) and isinstance(a, ast.Name) and a.id == "censor_after":
                    h_cens = hp[i_]
            for k in c.keywords:
                if k.arg in hp and under_len_only(k.value, tc0):
                    h_cmd = k.arg
                if k.arg in hp and isinstance(k.value, ast.Name) and k.value.id == "censor_after":
                    h_cens = k.arg
            if h_cmd is not None:
                # the call itself must be on the path where the command exists, and pass censor_after through
                units.append((h, h_cmd, h_cens, f"{h.name}()"))
                ctx.ob("C20.CLI", c, f"command() hands the command string to {h.name}() together with censor_after", h_cens is not None,
                       f"command() passes the command string to {h.name}() without censor_after", construct=f"command:{h.name} without censor_after")
    n_sites = 0
    for fn_, cmdp_, censor_p, label in units:
        tc = taint_names(fn_, {cmdp_})
        for c in logger_calls(fn_, nested=False):
            n_sites += 1
            args = sink_args(c)
            used = set().union(*[under_len_only(a, tc) for a in args]) if args else set()
            if not used:
                ctx.ob("C20.CLI", c, f"{label}: log `{src(c)[:40]}` depends on the command at most through len()", True)
                continue
            guards = all_guards(p, c, fn_)
            in_plain = censor_p is not None and any((not pol) and isinstance(t, ast.Name) and t.id == censor_p for t, pol in guards)
            in_cens = censor_p is not None and any(pol and isinstance(t, ast.Name) and t.id == censor_p for t, pol in guards)
            if in_plain:
                ctx.ob("C20.CLI", c, f"{label}: the full command is logged only when censor_after is falsy", True)
                continue
            if in_cens:
                bad = set()
                for a in args:
                    for nm in under_len_only(a, tc):
                        ds = [v for k, v, _ in local_defs(fn_, nm) if k == "assign"]
                        fine = nm != cmdp_ and ds and all(isinstance(v, ast.Subscript) and isinstance(v.slice, ast.Slice) and v.slice.lower is None and v.slice.step is None
                                                          and isinstance(v.slice.upper, ast.Name) and v.slice.upper.id == censor_p and isinstance(v.value, ast.Name) and v.value.id == cmdp_ for v in ds)
                        if not fine:
                            bad.add(nm)
                ctx.ob("C20.CLI", c, f"{label}: the censored branch logs only the prefix slice command[:censor_after] and len()-only values", not bad,
                       f"{label}: censored branch logs {sorted(bad)} beyond the non-secret prefix", construct="command:censored branch leaks")
            else:
                ctx.fail("C20.CLI", c, f"{label} logs {sorted(used)} regardless of censor_after", construct="command:unconditional log")
        for n in walk_no_nested(fn_):
            if censor_p and isinstance(n, ast.Assign) and any(isinstance(t_, ast.Name) and t_.id == censor_p for t_ in n.targets):
                ctx.fail("C20.CLI", n, f"censor_after is reassigned inside {label}", construct="command:censor_after reassigned")
    if n_sites < 1:
        ctx.floor_errors.append(f"rule=C20.CLI: {n_sites} log sites in command() and its helpers (floor 2)")


def rule_new(ctx):
    p = ctx.p
    ctx.rule("C20.NEW", "every logging sink of the package is enumerated; none outside the functions above receives the line, argument, command or password")
    total = 0
    secret_names = {"password", "passwd", "pwd_secret"}
    for mod in ("server.py", "client.py", "common.py", "pathio.py", "__main__.py"):
        if mod not in p.trees:
            continue
        for c in logger_calls(p.trees[mod]):
            total += 1
            fn = p.enclosing_function(c)
            names = {x.id for a in sink_args(c) for x in ast.walk(a) if isinstance(x, ast.Name)}
            attrs = {x.attr for a in sink_args(c) for x in ast.walk(a) if isinstance(x, ast.Attribute)}
            bad = (names | attrs) & secret_names
            ctx.ob("C20.NEW", c, f"{mod}:{p.fn_of(c)} `{src(c)[:50]}` mentions no password-named value", not bad,
                   f"log call mentions {sorted(bad)}", construct=f"{p.fn_of(c)}:{src(c)[:60]}")
    ctx.floor("C20.NEW", 11, "logging sites")
    # __repr__ of User must not be logged with the password: User.__repr__ includes password! any log of a user object leaks it
    for mod in ("server.py",):
        for c in logger_calls(p.trees[mod]):
            for a in sink_args(c):
                for x in ast.walk(a):
                    if isinstance(x, ast.Attribute) and x.attr == "user" and not isinstance(p.parent.get(x), ast.Attribute):
                        ctx.fail("C20.NEW", c, "a User object is logged; User.__repr__ prints the password", construct=f"{p.fn_of(c)}:logs user object")
                    if isinstance(x, ast.Name) and x.id in ("user", "users", "connection") and isinstance(x.ctx, ast.Load) and not isinstance(p.parent.get(x), ast.Attribute):
                        ctx.fail("C20.NEW", c, f"`{x.id}` (holds User objects whose repr prints the password) is logged", construct=f"{p.fn_of(c)}:logs {x.id}")


def _user_objects(p, fn):
    """names in fn that hold User objects: parameters named user, loop variables over self.users, values assigned from them or from <session>.user"""
    names = {a.arg for a in fn.args.args if a.arg == "user"}
    changed = True
    while changed:
        changed = False
        for n in walk_no_nested(fn):
            if isinstance(n, (ast.For, ast.comprehension)) and isinstance(n.target, ast.Name) and last_attr(n.iter) == "users" and n.target.id not in names:
                names.add(n.target.id)
                changed = True
            if isinstance(n, ast.Assign) and isinstance(n.targets[0], ast.Name) and n.targets[0].id not in names:
                v = n.value
                if (isinstance(v, ast.Name) and v.id in names) or (isinstance(v, ast.Attribute) and v.attr == "user"):
                    names.add(n.targets[0].id)
                    changed = True
            if isinstance(n, ast.Assign) and isinstance(n.targets[0], ast.Tuple) and isinstance(n.value, ast.Await) and isinstance(n.value.value, ast.Call) and is_method_call(n.value.value, "get_user"):
                e = n.targets[0].elts
                if len(e) == 3 and isinstance(e[1], ast.Name) and e[1].id not in names:
                    names.add(e[1].id)
                    changed = True
    return names


def rule_repr(ctx):
    p = ctx.p
    ctx.rule("C20.REPR", "no User object is rendered into text (User.__repr__ prints the password; reply texts and exception messages are logged)")
    n_sites = 0
    for mod in ("server.py",):
        for fn in [f for f in ast.walk(p.trees[mod]) if isinstance(f, FuncT)]:
            if fn.name == "__repr__":
                continue
            users = _user_objects(p, fn)

            def is_user(e):
                if isinstance(e, ast.IfExp):
                    return is_user(e.body) or is_user(e.orelse)
                if isinstance(e, ast.BoolOp):
                    return any(is_user(v) for v in e.values)
                if isinstance(e, ast.Name):
                    return e.id in users
                if isinstance(e, ast.Attribute):
                    return e.attr == "user"
                return False
            for x in walk_no_nested(fn):
                rendered = []
                if isinstance(x, ast.FormattedValue):
                    rendered.append(x.value)
                elif isinstance(x, ast.Call) and isinstance(x.func, ast.Name) and x.func.id in ("str", "repr", "format", "ascii") and x.args:
                    rendered.append(x.args[0])
                elif isinstance(x, ast.Call) and isinstance(x.func, ast.Attribute) and x.func.attr == "format":
                    rendered += list(x.args) + [k.value for k in x.keywords]
                elif isinstance(x, ast.BinOp) and isinstance(x.op, ast.Mod) and isinstance(x.left, (ast.Constant, ast.JoinedStr)):
                    rendered += list(x.right.elts) if isinstance(x.right, ast.Tuple) else [x.right]
                for e in rendered:
                    n_sites += 1
                    bad = is_user(e)
                    ctx.ob("C20.REPR", x, f"{p.qualname(fn)}: rendered value `{src(e)[:40]}` is not a User object", not bad,
                           f"{p.qualname(fn)}: a User object (`{src(e)[:50]}`) is rendered into text; User.__repr__ prints the password and this text reaches a reply / log / exception message",
                           construct=f"{p.qualname(fn)}:renders user:{src(e)[:50]}")
    if n_sites < 10:
        ctx.floor_errors.append(f"rule=C20.REPR: {n_sites} rendering sites (floor 10)")


def rule_line_exc(ctx):
    p = ctx.p
    ctx.rule("C20.LINE", "no exception raised on the way of a control line (StreamIO.readline/read, Server.parse_command) carries the line's content: whatever is raised there is logged by the "
                         "dispatcher's logger.exception() before the censor has seen the line")
    sites = [("StreamIO", "readline"), ("StreamIO", "read"), ("ThrottleStreamIO", "readline"), ("ThrottleStreamIO", "read"), ("Server", "parse_command")]
    n = 0
    for cls, name in sites:
        fn = p.methods(cls).get(name) if cls in p.classes else None
        if fn is None:
            continue
        n += 1
        seeds = set()
        for x in walk_no_nested(fn):
            if isinstance(x, ast.Assign) and isinstance(x.value, ast.Await) and isinstance(x.value.value, ast.Call) and isinstance(x.value.value.func, ast.Attribute) \
                    and x.value.value.func.attr in ("readline", "read", "readexactly", "readuntil"):
                seeds |= {t.id for t in x.targets if isinstance(t, ast.Name)}
        t = taint_names(fn, seeds) if seeds else set()
        bad = [r for r in walk_no_nested(fn) if isinstance(r, ast.Raise) and r.exc is not None and under_len_only(r.exc, t)]
        ctx.ob("C20.LINE", bad[0] if bad else fn, f"{cls}.{name}: no raised exception is built from the data just read", not bad,
               f"{cls}.{name} raises `{src(bad[0].exc)[:60] if bad else ''}` built from the bytes it read: a truncated `PASS <password>` line reaches the server log through "
               "the dispatcher's logger.exception()", construct=f"line:{cls}.{name}:raise carries data")
    if n < 3:
        ctx.floor_errors.append(f"rule=C20.LINE: {n} control-line read functions (floor 3)")


RULES = [rule_server, rule_client, rule_new, rule_repr, rule_line_exc]
