"""C08 File and directory names mean the same thing in every command and reply"""
import ast
from ..model import *
from ..util import *
from ..facts import *
from .c06 import flat_concat

EXPLANATION = (
    "Transformation whitelist along the name's dataflow. For each decoder used between aioftp peers (server "
    "parse_command argument; client MLSx name, unix LIST name, 257 directory) the chain of string operations from the "
    "decoded line to the returned name is extracted by walking definitions backwards; only position-preserving "
    "operations may touch the part that becomes the name: slicing, partition at the FIRST separator, index-based cuts, "
    "and one line-level rstrip() that removes CR/LF; strip/lstrip on the name part, lower/upper/replace/split+join, "
    "rpartition/rsplit (cut at the LAST separator - a name containing the separator is truncated) are violations. "
    "Quoting agreement: the client's 257 decoder un-doubles quotes, so every server reply embedding a path between "
    "double quotes must double embedded quotes. Every path-taking client command is built as '<VERB> ' + str(path) with "
    "a verb of the server's table; server writers put the name last after the separator the decoder cuts at."
)
NOT_DECIDED = [
    "identity of the whole composition for all Unicode names (encode/decode symmetry is trusted)",
    "the 257 decoder's character-level state machine on names ending in quotes",
    "the LIST fallback's name field (known finding: strip() on the name, kept for foreign servers)",
]

TRIM_L = {"lstrip", "strip"}
TRIM_R = {"rstrip", "strip"}
OTHER_TF = {"lower", "upper", "replace", "split", "rsplit", "title", "casefold", "expandtabs", "translate", "capitalize", "swapcase", "removeprefix", "removesuffix", "encode", "format", "join", "zfill", "center"}
LAST_SEP = {"rpartition", "rsplit", "rindex", "rfind"}


def ops_of(e):
    """operations applied on top of a base expression: list of (op, node) innermost first, and the base"""
    out = []
    while True:
        if isinstance(e, ast.Call) and isinstance(e.func, ast.Attribute):
            a = e.func.attr
            if a in TRIM_L | TRIM_R | OTHER_TF:
                out.append((a, e))
            elif a in ("decode",):
                out.append(("decode", e))
            e = e.func.value
            continue
        if isinstance(e, ast.Subscript):
            if isinstance(e.slice, ast.Slice):
                out.append(("cut_head" if e.slice.lower is not None else "cut_tail", e))
            e = e.value
            continue
        if isinstance(e, ast.Call) and isinstance(e.func, ast.Name) and e.func.id == "str" and e.args:
            e = e.args[0]
            continue
        break
    return list(reversed(out)), e


def chain(p, fn, expr, before_line=10 ** 9, depth=0):
    """chain of operations from the decoded line to `expr` (resolving names backwards in source order)"""
    if depth > 12:
        return [("unknown", expr)]
    ops, base = ops_of(expr)
    if isinstance(base, ast.Name):
        cands = []
        for n in walk_no_nested(fn):
            if isinstance(n, ast.Assign) and n.lineno < before_line:
                for t in n.targets:
                    if isinstance(t, ast.Name) and t.id == base.id:
                        cands.append((n, None))
                    if isinstance(t, ast.Tuple):
                        for i, x in enumerate(t.elts):
                            if isinstance(x, ast.Name) and x.id == base.id:
                                cands.append((n, i))
            if isinstance(n, ast.AugAssign) and n.lineno < before_line and isinstance(n.target, ast.Name) and n.target.id == base.id:
                cands.append((n, "aug"))
        if cands:
            d, idx = sorted(cands, key=lambda c: c[0].lineno)[-1]
            if idx == "aug":
                return [("aug", d)] + ops
            v = d.value
            if idx is not None:
                if isinstance(v, ast.Call) and isinstance(v.func, ast.Attribute) and v.func.attr in ("partition", "rpartition"):
                    inner = chain(p, fn, v.func.value, d.lineno, depth + 1)
                    op = "cut_head" if idx == 2 else "cut_tail" if idx == 0 else "sep"
                    extra = [(v.func.attr, v)] if v.func.attr in LAST_SEP else []
                    return inner + extra + [(op, v)] + ops
                if isinstance(v, ast.Tuple) and len(v.elts) > idx:
                    return chain(p, fn, v.elts[idx], d.lineno, depth + 1) + ops
                return [("unknown", v)] + ops
            if isinstance(v, ast.IfExp):
                return chain(p, fn, v.body, d.lineno, depth + 1) + chain(p, fn, v.orelse, d.lineno, depth + 1) + ops
            return chain(p, fn, v, d.lineno, depth + 1) + ops
    return ops


def analyse_chain(ctx, label, fn, ch, node, allow_known=False):
    trims_r = 0
    ok_all = True
    # once a partition has isolated the name as the LAST field (index 2), any further cut goes into the name itself
    iso = [i for i, (op, n) in enumerate(ch) if op == "cut_head" and isinstance(n, ast.Call) and isinstance(n.func, ast.Attribute) and n.func.attr == "partition"]
    if iso:
        for op, n in ch[iso[-1] + 1:]:
            if op in ("cut_head", "cut_tail"):
                ok_all = False
                ctx.fail("C08.CARRY", n, f"{label}: `{src(n)[:40]}` cuts characters off the name after it was isolated as the last field (e.g. 'compat' quote stripping): "
                         "the relative and absolute spellings of such a name denote different objects", construct=f"{label}:cut into name")
    for i, (op, n) in enumerate(ch):
        later_cut_head = any(o == "cut_head" for o, _ in ch[i + 1:])
        if op in OTHER_TF:
            ok_all = False
            ctx.fail("C08.CARRY", n, f"{label}: `{op}()` is applied to the text that becomes the name", construct=f"{label}:{op}")
        if op in TRIM_L and not later_cut_head:
            ok_all = False
            ctx.fail("C08.CARRY", n, f"{label}: `{op}()` is applied to the name field itself (no further field is cut off after it): names with leading spaces are altered",
                     construct=f"{label}:{op} on name")
        if op in TRIM_R:
            trims_r += 1
            if trims_r > 1 and op != "strip":
                ok_all = False
                ctx.fail("C08.CARRY", n, f"{label}: second right-trim on the text that becomes the name", construct=f"{label}:second rstrip")
        if op in ("unknown", "aug"):
            ok_all = False
            ctx.fail("C08.CARRY", n, f"{label}: the name is produced by `{src(n)[:50]}`, an operation outside the position-preserving whitelist", construct=f"{label}:unknown op")
    if ok_all:
        ctx.ob("C08.CARRY", node, f"{label}: operations on the name's dataflow are {[o for o, _ in ch]} (all position-preserving)", True)


def rule_quote(ctx):
    p = ctx.p
    ctx.rule("C08.QUOTE", "every server reply embedding a path between double quotes doubles embedded quotes (the client's 257 decoder un-doubles them)")
    n = 0
    for verb, name, fn in p.handlers():
        for js in [x for x in walk_no_nested(fn) if isinstance(x, ast.JoinedStr)]:
            vals = js.values
            for i, v in enumerate(vals):
                if isinstance(v, ast.FormattedValue) and 0 < i < len(vals) - 1 and isinstance(vals[i - 1], ast.Constant) and str(vals[i - 1].value).endswith('"') \
                        and isinstance(vals[i + 1], ast.Constant) and str(vals[i + 1].value).startswith('"'):
                    n += 1
                    e = expand(p, v.value, fn)
                    doubled = False
                    for c in ast.walk(e):
                        if isinstance(c, ast.Call) and is_method_call(c, "replace") and len(c.args) >= 2 and isinstance(c.args[0], ast.Constant) and c.args[0].value == '"' \
                                and isinstance(c.args[1], ast.Constant) and c.args[1].value == '""':
                            doubled = True
                    pathish = any(isinstance(x, ast.Attribute) and x.attr in ("current_directory",) or isinstance(x, ast.Name) and "path" in x.id for x in ast.walk(e))
                    if not pathish and not doubled and v.conversion == 114:
                        continue   # {x!r} of a non-path value
                    ctx.ob("C08.QUOTE", js, f"{name}: the quoted value `{src(v.value)}` has its double quotes doubled", doubled,
                           f"{verb.upper()} embeds `{src(v.value)}` between double quotes without doubling embedded quotes, but the client's 257 decoder un-doubles them: "
                           "a name containing '\"' is reported truncated", construct=f"{name}:quotes not doubled")
    ctx.floor("C08.QUOTE", 1, "quoted path replies")
    # decoder side: un-doubling present
    pd = p.method("BaseClient", "parse_directory_response")
    ok = any(isinstance(x, ast.Compare) and isinstance(x.comparators[0], ast.Constant) and x.comparators[0].value == 2 for x in ast.walk(pd))
    ctx.ob("C08.QUOTE", pd, "the 257 decoder treats a doubled quote as one literal quote", ok, "the 257 decoder no longer un-doubles quotes", construct="parse_directory_response:undouble")
    gcd = p.method("Client", "get_current_directory")
    ok = any(is_self_call(c, {"parse_directory_response"}) and c.args and isinstance(c.args[0], ast.Subscript) and src(c.args[0].slice) == "-1" for c in walk_no_nested(gcd))
    ctx.ob("C08.QUOTE", gcd, "PWD's last reply line is decoded", ok, "get_current_directory does not decode the last reply line", construct="pwd:line")


def rule_carry(ctx):
    p = ctx.p
    ctx.rule("C08.CARRY", "only position-preserving operations on the part of the line that becomes the name")
    bc = p.methods("BaseClient")
    for fname in ("parse_mlsx_line", "parse_list_line_unix"):
        fn = bc[fname]
        rets = [n for n in walk_no_nested(fn) if isinstance(n, ast.Return) and isinstance(n.value, ast.Tuple)]
        if not rets:
            raise AnalysisError(f"anchor={fname} return pair not found")
        for r in rets:
            e = r.value.elts[0]
            if isinstance(e, ast.Call) and e.args and last_attr(e.func) in ("PurePosixPath", "PurePath", "Path"):
                e = e.args[0]
            analyse_chain(ctx, fname, fn, chain(p, fn, e, r.lineno + 1), r)
    # MLSx: facts/name split at the FIRST space
    pm = bc["parse_mlsx_line"]
    parts = [c for c in walk_no_nested(pm) if isinstance(c, ast.Call) and isinstance(c.func, ast.Attribute) and c.func.attr in ("partition", "rpartition", "split", "rsplit")
             and c.args and isinstance(c.args[0], ast.Constant) and " " in str(c.args[0].value)]
    ok = len(parts) == 1 and parts[0].func.attr == "partition" and parts[0].args[0].value == " "
    ctx.ob("C08.CARRY", pm, "the MLSx line is split into facts and name at the first single space", ok,
           f"the MLSx line is split with `{src(parts[0])[:40] if parts else None}`: names containing the separator are altered", construct="parse_mlsx_line:split")
    pc = p.method("Server", "parse_command")
    rets = [n for n in walk_no_nested(pc) if isinstance(n, ast.Return) and isinstance(n.value, ast.Tuple) and len(n.value.elts) == 2]
    if not rets:
        raise AnalysisError("anchor=parse_command return pair not found")
    analyse_chain(ctx, "parse_command", pc, chain(p, pc, rets[-1].value.elts[1], rets[-1].lineno + 1), rets[-1])
    # handlers do not transform `rest` before resolving it
    for verb, name, fn in p.handlers():
        conn, rest = p.handler_params(fn)
        for c in ast.walk(fn):
            if isinstance(c, ast.Call) and (dotted(c.func) or "").endswith(".get_paths") and len(c.args) == 2:
                a = c.args[1]
                ops, base = ops_of(a)
                bad = [o for o, _ in ops if o in TRIM_L | TRIM_R | OTHER_TF | LAST_SEP]
                ctx.ob("C08.CARRY", c, f"{name}: the path argument reaches the resolver unmodified", not bad,
                       f"{name}: the argument is transformed with {bad} before it is resolved", construct=f"{name}:arg {bad}")
    for deco in ("PathConditions", "PathPermissions"):
        w = p.wrapper_of(deco)
        for c in walk_no_nested(w):
            if isinstance(c, ast.Call) and (dotted(c.func) or "").endswith(".get_paths") and len(c.args) == 2:
                ops, base = ops_of(c.args[1])
                bad = [o for o, _ in ops if o in TRIM_L | TRIM_R | OTHER_TF | LAST_SEP]
                ctx.ob("C08.CARRY", c, f"{deco}: the path argument reaches the resolver unmodified", not bad, f"{deco}: argument transformed with {bad}", construct=f"{deco}:arg {bad}")
    ctx.floor("C08.CARRY", 15)


def rule_send(ctx):
    p = ctx.p
    ctx.rule("C08.SEND", "every path-taking client command is '<VERB> ' + str(path) with a verb of the server's table")
    table, _ = p.command_table()
    verbs = {v.upper() for v in table}
    cl = p.trees["client.py"]
    n_sites = 0
    for n in ast.walk(cl):
        if not isinstance(n, (ast.BinOp, ast.JoinedStr)) or isinstance(p.parent.get(n), (ast.BinOp, ast.JoinedStr, ast.FormattedValue)):
            continue
        prefix, r = literal_prefix(p, n)
        if prefix is None or r is None or prefix.strip().upper() not in verbs or prefix != prefix.upper():
            continue
        verb = prefix.strip()
        if verb in ("PASS", "USER", "TYPE", "REST", "ACCT"):
            continue
        n_sites += 1
        ok = isinstance(r, ast.Call) and isinstance(r.func, ast.Name) and r.func.id == "str" and len(r.args) == 1 and isinstance(r.args[0], (ast.Name, ast.Attribute)) \
            and prefix == verb + " "
        ctx.ob("C08.SEND", n, f"{verb}: command is {verb!r}+' '+str(path)", ok, f"path argument of {verb} is transformed before sending: `{src(n)}`", construct=f"{verb}:{src(r)[:50]}")
    # the whole-command .strip() in the lister only removes the space after the verb when the path is empty
    for n in ast.walk(cl):
        if isinstance(n, ast.Call) and isinstance(n.func, ast.Attribute) and n.func.attr in ("strip", "lstrip", "lower", "upper", "replace") and isinstance(n.func.value, (ast.BinOp, ast.JoinedStr)) \
                and (literal_prefix(p, n.func.value)[0] or "").strip().upper() in verbs:
            verb = literal_prefix(p, n.func.value)[0].strip()
            ok = n.func.attr == "strip" and not n.args
            ctx.ob("C08.SEND", n, f"{verb}: whole-command strip() (drops the trailing space of an argument-less command; names have no trailing whitespace by the property's domain)", ok,
                   f"{verb}: the command is transformed with `{n.func.attr}` after the path was appended", construct=f"{verb}:command {n.func.attr}")
    ctx.floor("C08.SEND", 9, "path-taking command sites")
    # CDUP stands for exactly the argument '..': any other path that merely ends in '..' is sent to the server as it is
    cd = p.method("Client", "change_directory")
    for iff in [x for x in walk_no_nested(cd) if isinstance(x, (ast.If, ast.IfExp))]:
        bt = iff.body if isinstance(iff, ast.If) else [iff.body]
        bf = iff.orelse if isinstance(iff, ast.If) else [iff.orelse]
        in_t = any(isinstance(c, ast.Constant) and c.value == "CDUP" for s_ in bt for c in ast.walk(s_))
        in_f = any(isinstance(c, ast.Constant) and c.value == "CDUP" for s_ in bf for c in ast.walk(s_))
        if in_t == in_f:
            continue
        t = deep_expand(p, iff.test, cd)
        neg = in_f
        while isinstance(t, ast.UnaryOp) and isinstance(t.op, ast.Not):
            t, neg = t.operand, not neg
        whole = isinstance(t, ast.Compare) and len(t.ops) == 1 and isinstance(t.ops[0], ast.NotEq if neg else ast.Eq) and \
            any(isinstance(x, ast.Name) for x in (t.left, t.comparators[0])) and \
            any((isinstance(x, ast.Constant) and x.value == "..") or (isinstance(x, ast.Call) and x.args and isinstance(x.args[0], ast.Constant) and x.args[0].value == "..")
                for x in (t.left, t.comparators[0]))
        if isinstance(t, ast.Compare) and isinstance(t.left, ast.Call) and isinstance(t.left.func, ast.Name) and t.left.func.id == "str":
            whole = len(t.ops) == 1 and isinstance(t.ops[0], ast.NotEq if neg else ast.Eq) and isinstance(t.comparators[0], ast.Constant) and t.comparators[0].value == ".."
        ctx.ob("C08.SEND", iff, "change_directory sends CDUP only when the whole path is '..'", whole,
               f"change_directory sends CDUP when `{src(iff.test)[:50]}` holds, which is not 'the path is exactly ..': '/a/b/..' is never sent to the server and the client "
               "ends up in the parent of its current directory instead of in /a", construct="CDUP:not the whole path")
    # make_directory(parents=True) walks path.parents; names must be passed whole
    # change_directory: "CWD " + str(path) or "CDUP"


def rule_sep(ctx):
    p = ctx.p
    ctx.rule("C08.SEP", "server writers put the name last, after exactly the separator the decoder cuts at")
    S = p.methods("Server")
    bm = S["build_mlsx_string"]
    pathp = [a.arg for a in bm.args.args][-1]
    ok = False
    for n in walk_no_nested(bm):
        e = n.value if isinstance(n, (ast.AugAssign, ast.Return, ast.Assign)) and getattr(n, "value", None) is not None else None
        if e is None:
            continue
        parts = flat_concat(e)
        if len(parts) >= 2 and src(parts[-1]) == f"{pathp}.name" and isinstance(parts[-2], ast.Constant) and parts[-2].value in (" ", "; ", ";" + " "):
            ok = True
    ctx.ob("C08.SEP", bm, "MLSx: facts end with ';' and the name follows after exactly one space, unmodified", ok, "MLSx writer does not end the line with ' ' + path.name", construct="mlsx:name sep")
    # facts themselves contain no space: names of facts are constants without spaces
    facts = S["_build_mlsx_facts_from_stats"]
    keys = [k.value for d in walk_no_nested(facts) if isinstance(d, ast.Dict) for k in d.keys if isinstance(k, ast.Constant)]
    ctx.ob("C08.SEP", facts, f"fact names {keys} contain no space/semicolon/equals", all(isinstance(k, str) and not set(k) & set(" ;=") for k in keys), "a fact name contains a separator character", construct="mlsx:fact names")
    bl = S["build_list_string"]
    from .c07 import list_fields
    fields = list_fields(p, bl)
    lp = [a.arg for a in bl.args.args][-1]
    ok = bool(fields) and src(fields[-1]) == f"{lp}.name"
    ctx.ob("C08.SEP", bl, "LIST: the name is the last field, unmodified", ok, "LIST writer does not put path.name last", construct="list:name last")
    # listing lines: (s + END_OF_LINE).encode(encoding) written whole
    for h, w in p.workers():
        for n in walk_no_nested(w):
            if isinstance(n, ast.Assign) and isinstance(n.value, ast.Call) and is_method_call(n.value, "encode"):
                v = n.value.func.value
                ok = isinstance(v, ast.BinOp) and isinstance(v.op, ast.Add) and src(v.right) == "END_OF_LINE" and isinstance(v.left, ast.Name)
                ctx.ob("C08.SEP", n, f"{w.name}: each listing line is the built string + END_OF_LINE, encoded", ok, f"{w.name}: listing line is `{src(v)}`", construct=f"{w.name}:line form")


def rule_shared_names(ctx):
    from .c19 import rule_nodrop
    from .c06 import rule_cmd, rule_enc
    ctx.rule("C08.LINK", "the ' -> ' separator of a LIST line is searched only where the line is a link, with a raising search (a file named 'a -> b' keeps its name; shared with C19.NODROP)")
    ctx.borrow(rule_nodrop, {"C19.NODROP": "C08.LINK"})
    ctx.rule("C08.CMD", "the server takes the command argument verbatim after the first blank (leading blanks of a name survive; shared with C06.CMD)")
    ctx.borrow(rule_cmd, {"C06.CMD": "C08.CMD"})
    ctx.rule("C08.REPLY", "reply texts (257 path, MLST facts line) are framed without being split or re-joined (shared with C06.ENC)")
    ctx.borrow(rule_enc, {"C06.ENC": "C08.REPLY"})


def rule_listed_dir(ctx):
    from .c18 import rule_listed
    from .c06 import rule_support
    ctx.rule("C08.LISTED", "a directory is listed under exactly its name: the filesystem listers do not read the name as a glob pattern (shared with C18.FS)")
    rule_listed(ctx, "C08.LISTED")
    ctx.borrow(rule_support, {"C06.SUPPORT": "C08.REPLY"}, only=lambda fn: "wrap_with_container" in fn)


def rule_codec(ctx):
    p = ctx.p
    ctx.rule("C08.CODEC", "both sides turn wire bytes into text and back with the one configured codec: every `.encode(...)` / `.decode(...)` in the client and the server "
                          "passes `self.encoding` (a default-utf-8 or literal codec on one path only mangles non-ASCII names whenever another encoding is configured)")
    n = 0
    for mod, classes in (("server.py", ("Server",)), ("client.py", ("BaseClient", "Client"))):
        for cn in classes:
            for name, m in p.methods(cn).items():
                for fx in [m] + p.nested_functions(m):
                    for c in walk_no_nested(fx):
                        if isinstance(c, ast.Call) and isinstance(c.func, ast.Attribute) and c.func.attr in ("encode", "decode"):
                            enc = next((k.value for k in c.keywords if k.arg == "encoding"), c.args[0] if c.args else None)
                            got = src(deep_expand(p, enc, fx)) if enc is not None else None
                            n += 1
                            ctx.ob("C08.CODEC", c, f"{p.qualname(fx)}: `{src(c)[:50]}` uses self.encoding", got == "self.encoding",
                                   f"{p.qualname(fx)}: `{src(c)[:60]}` converts with {got or 'the default codec (utf-8)'} instead of the configured `self.encoding`: with any other "
                                   "encoding configured on both sides, non-ASCII names on this path are mangled or undecodable", construct=f"codec:{p.qualname(fx)}:{c.func.attr}:{got}")
    ctx.floor("C08.CODEC", 8, "encode/decode sites")


def rule_prefix_names(ctx):
    from .c04 import rule_near
    ctx.rule("C08.PREFIX", "a name that merely starts with another name is a different object for every layer: the permission table matches whole path components "
                           "(`/pub lic` is not inside `/pub`; shared with C04.NEAR)")
    ctx.borrow(rule_near, {"C04.NEAR": "C08.PREFIX"}, only=lambda fn: "is_parent" in fn)


def rule_resolution(ctx):
    from .c02 import rule_res
    ctx.rule("C08.RES", "the server resolves a name component by component and treats only the exact component '..' specially: '...', '.x', 'a..b', names with backslashes "
                        "are ordinary names (shared with C02.RES, the abstract interpretation of get_paths)")
    ctx.borrow(rule_res, {"C02.RES": "C08.RES"})


def rule_memory_names(ctx):
    from .c18 import rule_index
    ctx.rule("C08.RENAME", "what was renamed is reachable under the new name only, what was removed is gone under its name: the in-memory backend removes / replaces the entry "
                           "whose name matched and renames it after taking it out of its old directory (shared with C18.INDEX)")
    ctx.borrow(rule_index, {"C18.INDEX": "C08.RENAME"}, only=lambda fn: "rename" in fn or "rmdir" in fn or "unlink" in fn)


RULES = [rule_memory_names, rule_resolution, rule_codec, rule_quote, rule_carry, rule_send, rule_sep, rule_shared_names, rule_listed_dir, rule_prefix_names]
