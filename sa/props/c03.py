"""C03 Nothing is served before a completed login; re-USER drops the old login"""
import ast
from ..model import *
from ..util import *
from ..facts import *
from ..paths import Cfg, evaluated

EXPLANATION = (
    "Exhaustive over the command table (plus greeting): an effect summary {backend, resolver, cwd-read, cwd-write, listener, "
    "data-connection, spawn} is computed for every handler body (nested workers and unguarded callees included) and "
    "for every wrapper; any sensitive effect must lie inside a ConnectionConditions(login_required) guard, checked "
    "from the outermost decorator inwards. The guard wrapper itself is analysed path by path (delegates only when "
    "every required future is done, otherwise replies once and returns). Who-may-write rule for the authenticated "
    "flag (two writers, each dominated by OK from get_user / truthy authenticate(connection.user, rest)); USER drops "
    "`logged` and `user` on every path before its first suspension point; the session constructor presets no guard "
    "field; MemoryUserManager grants OK only without password and authenticate is an equality never disjoined; "
    "dispatch only through the command table."
)
NOT_DECIDED = [
    "reply codes per history (C05)",
    "custom user managers (only MemoryUserManager is analysed)",
    "run-time semantics of asyncio.wait_for/shield/gather inside the guard beyond the modelled TimeoutError edge",
]


def is_home(expr):
    return isinstance(expr, ast.Attribute) and expr.attr == "home_path"


def sensitive_effects(p, fn, depth=0, seen=None):
    """effects of a function body (incl. nested defs) that require an authenticated session"""
    seen = seen if seen is not None else set()
    eff = set()
    if fn in seen or depth > 3:
        return eff
    seen.add(fn)
    login = field_names(p)["login_required"]
    for n in ast.walk(fn):
        if isinstance(n, ast.Attribute):
            if n.attr in ("path_io",):
                eff.add("backend")
            if n.attr == "current_directory":
                if isinstance(n.ctx, ast.Load):
                    eff.add("cwd-read")
                else:
                    st = p.enclosing_stmt(n)
                    if not (isinstance(st, ast.Assign) and is_home(st.value)):
                        eff.add("cwd-write")
            if n.attr in ("data_connection", "passive_server") and not _only_done_test(p, n) and not _closing_use(p, n):
                eff.add("data-channel")
            if n.attr in ("rename_from", "transfer_type") and isinstance(n.ctx, ast.Store):
                eff.add("session-state:" + n.attr)
        if isinstance(n, ast.Call):
            d = dotted(n.func) or ""
            if d.endswith(".get_paths"):
                eff.add("resolver")
            if d.endswith("start_server"):
                eff.add("listener")
            if is_method_call(n, "add", "extra_workers"):
                eff.add("spawn")
            if d in ("open",) or d.startswith("os.") or d.startswith("shutil.") or d.startswith("pathlib.Path"):
                eff.add("filesystem:" + d)
            if is_self_call(n):
                callee = p.methods("Server").get(n.func.attr)
                if callee is not None and callee is not fn:
                    guarded = any(is_guard(d_, login) for d_ in p.decorators(callee))
                    if not guarded:
                        eff |= {e.split("@")[0] + "@" + callee.name for e in handler_total_effects(p, callee, depth + 1, seen)}
    return eff


def _closing_use(p, n):
    """`<conn>.<field>.close()` / `del <conn>.<field>`: shutting a channel down is not serving anything"""
    par = p.parent.get(n)
    if isinstance(n.ctx, ast.Del):
        return True
    return isinstance(par, ast.Attribute) and par.attr == "close" and isinstance(p.parent.get(par), ast.Call)


def _only_done_test(p, n):
    """`<conn>.future.<field>.done()` is a presence test, not a use"""
    par = p.parent.get(n)
    return isinstance(par, ast.Attribute) and par.attr == "done" and isinstance(n.value, ast.Attribute) and n.value.attr == "future"


def handler_total_effects(p, fn, depth=0, seen=None):
    eff = sensitive_effects(p, fn, depth, seen)
    for d in p.decorators(fn):
        if d.name in p.classes and d.name != "ConnectionConditions":
            try:
                eff |= sensitive_effects(p, p.wrapper_of(d.name), depth + 1, None)
            except AnalysisError:
                pass
    return eff


def rule_guard(ctx):
    p = ctx.p
    ctx.rule("C03.GUARD", "every handler with a sensitive effect is inside ConnectionConditions(login_required), outermost before any wrapper with an effect")
    fields = field_names(p)
    login, userf = fields["login_required"], fields["user_required"]
    ms = p.methods("Server")
    entries = [(v, n, f) for v, n, f in p.handlers()] + [("<greeting>", "greeting", ms["greeting"])] if "greeting" in ms else p.handlers()
    for verb, name, fn in entries:
        guarded = False
        problems = []
        for d in p.decorators(fn):
            if is_guard(d, login):
                guarded = True
                continue
            try:
                w = p.wrapper_of(d.name)
            except AnalysisError:
                continue
            eff = sensitive_effects(p, w)
            if eff and not guarded:
                problems.append((d, eff))
        for d, eff in problems:
            ctx.fail("C03.GUARD", d.node, f"verb {verb!r}: decorator {d.name} has effects {sorted(eff)} before any login_required guard "
                     "(it touches the backend / resolver for an unauthenticated session)", construct=f"{name}:@{d.name}", function=p.qualname(fn))
        eff = sensitive_effects(p, fn)
        ctx.ob("C03.GUARD", fn, f"verb {verb!r} -> {name}: effects {sorted(eff) or 'none'}; login guard {'present' if guarded else 'absent'}",
               guarded or not eff,
               f"verb {verb!r}: handler has effects {sorted(eff)} without login_required guard", construct=f"{name}:body", function=p.qualname(fn))
    ctx.floor("C03.GUARD", 26, "handlers")
    # reads of the session user need user_required/login_required or a .done() test
    for verb, name, fn in p.handlers():
        conn, rest = p.handler_params(fn)
        if any(d.name == "ConnectionConditions" and ({login, userf} & deco_fields(d)) for d in p.decorators(fn)):
            continue
        for n in walk_no_nested(fn):
            if isinstance(n, ast.Attribute) and n.attr == userf and isinstance(n.ctx, ast.Load) and isinstance(n.value, ast.Name) and n.value.id == conn:
                guards = all_guards(p, n, fn)
                ok = any(pol and (is_done(t, conn, userf) or is_done(t, conn, login)) for t, pol in guards)   # a completed login implies an identified user
                ctx.ob("C03.GUARD", n, f"{name}: read of the session user is dominated by a presence test", ok,
                       f"{name}: read of the session user without user/login guard or done() test", function=p.qualname(fn),
                       construct=f"{name}:user read:{src(p.enclosing_stmt(n))[:60]}")


def is_done(t, conn, field):
    return (isinstance(t, ast.Call) and isinstance(t.func, ast.Attribute) and t.func.attr == "done"
            and isinstance(t.func.value, ast.Attribute) and t.func.value.attr == field and src(t.func.value.value) == f"{conn}.future")


def rule_wrap(ctx):
    p = ctx.p
    ctx.rule("C03.WRAP", "the ConnectionConditions wrapper delegates only when every required future is done; otherwise it replies once and returns")
    w, conn, paths = check_wrapper(ctx, "ConnectionConditions", "C03.WRAP", count_replies=False)
    # the set of awaited futures is built from *all* of self.fields: a comprehension over self.fields, or a loop over it that
    # unconditionally stores one key per entry
    comp = None        # the comprehension node, if that form is used
    coll_name = None   # the local the collection is bound to
    key = None
    names = set()
    for n in walk_no_nested(w):
        if isinstance(n, (ast.DictComp, ast.ListComp, ast.SetComp, ast.GeneratorExp)):
            for g in n.generators:
                if src(g.iter) == "self.fields" and not g.ifs:
                    comp = n
                    key = n.key if isinstance(n, ast.DictComp) else n.elt
                    names = {x.id for g_ in n.generators for x in ast.walk(g_.target) if isinstance(x, ast.Name)}
                    par = p.parent.get(n)
                    if isinstance(par, ast.Assign) and len(par.targets) == 1 and isinstance(par.targets[0], ast.Name):
                        coll_name = par.targets[0].id
        if isinstance(n, ast.For) and src(n.iter) == "self.fields" and not n.orelse:
            for st in n.body:   # top level of the loop body only: unconditional
                if isinstance(st, ast.Assign) and len(st.targets) == 1 and isinstance(st.targets[0], ast.Subscript) and isinstance(st.targets[0].value, ast.Name):
                    coll_name, key = st.targets[0].value.id, st.targets[0].slice
                elif isinstance(st, ast.Expr) and isinstance(st.value, ast.Call) and isinstance(st.value.func, ast.Attribute) and st.value.func.attr in ("append", "add") \
                        and isinstance(st.value.func.value, ast.Name) and st.value.args:
                    coll_name, key = st.value.func.value.id, st.value.args[0]
            if key is not None:
                comp = n
                names = {x.id for x in ast.walk(n.target) if isinstance(x, ast.Name)}
    ctx.ob("C03.WRAP", w, "the guard awaits one future per entry of self.fields (the whole decorator argument list)", comp is not None,
           "the guard no longer derives the awaited futures from all of self.fields", construct="wrapper:fields comprehension")
    key_ok = False
    if comp is not None:
        key_ok = isinstance(key, ast.Subscript) and isinstance(key.value, ast.Name) and key.value.id == conn and isinstance(key.slice, ast.Name) and key.slice.id in names
    ctx.ob("C03.WRAP", comp if comp is not None else w, "each awaited future is <session>[<field name>] (the presence future, not its value)", key_ok,
           "the guard does not await the session's presence futures", construct="wrapper:future lookup")
    # the aggregate that is awaited covers the whole collection, and the await is wait_for(shield(aggregate), timeout)
    waits = [c for c in walk_no_nested(w) if isinstance(c, ast.Call) and (dotted(c.func) or "") in ("asyncio.wait_for", "wait_for")]
    ok = False
    for c in waits:
        arg = c.args[0] if c.args else None
        inner = arg.args[0] if isinstance(arg, ast.Call) and (dotted(arg.func) or "").endswith("shield") and arg.args else arg
        inner = expand(p, inner, w)
        if isinstance(inner, ast.Call) and (dotted(inner.func) or "").endswith("gather") and inner.args and isinstance(inner.args[0], ast.Starred):
            star = inner.args[0].value
            coll = expand(p, star, w)
            if (coll is comp and comp is not None) or (isinstance(star, ast.Name) and star.id == coll_name):
                ok = True
    ctx.ob("C03.WRAP", w, "the awaited aggregate is gather(*<all required futures>)", ok,
           "the guard's awaited aggregate does not cover all required futures", construct="wrapper:aggregate")
    # on the TimeoutError path: every reply is preceded by a `not <future>.done()` test over the same collection; a path on which some
    # future was found not done never delegates
    for replies, delegated, out, ev in paths:
        via_timeout = any(e[0] == "exc" and e[1] == "TimeoutError" for e in ev)
        if out[0] in ("cut", "raise"):
            continue
        if not via_timeout:
            if delegated:
                # a delegation that is not the timeout path must come after the awaited aggregate completed
                waited = any(any(c is w_ for w_ in waits for c in walk_self(n_)) for n_ in evaluated(ev))
                ctx.ob("C03.WRAP", w, "delegation without a timeout happens only after the awaited aggregate of all required futures completed", waited,
                       "the guard calls the wrapped handler on a path that neither awaited the required futures nor tested each of them with done() "
                       "(a membership / truthiness test on the session is not the presence future)", construct="wrapper:delegation without waiting")
            continue
        tests = []
        for e in ev:
            if e[0] == "branch":
                t, pol = e[1], e[2]
                if isinstance(t, ast.UnaryOp) and isinstance(t.op, ast.Not):
                    t, pol = t.operand, not pol
                if isinstance(t, ast.Call) and isinstance(t.func, ast.Attribute) and t.func.attr == "done":
                    tests.append(pol)
        if replies:
            ok = bool(tests) and tests[-1] is False or (False in tests)
            ctx.ob("C03.WRAP", replies[0], "refusal on the timeout path is taken because a required future is not done", ok,
                   "the guard refuses on a branch that is not `not <future>.done()`", construct="wrapper:refusal test")
        if delegated:
            walked = any(e[0] == "loopexit" and isinstance(e[1], ast.For) for e in ev)  # the refusal loop ran to its end
            ok = False not in tests and walked
            ctx.ob("C03.WRAP", w, "delegation after a timeout happens only if every required future was found done", ok,
                   "the guard calls the wrapped handler although a required future was found missing (or without testing any)",
                   construct="wrapper:delegation after timeout")
    # the loop over futures iterates the whole collection
    for l in [n for n in walk_no_nested(w) if isinstance(n, ast.For) and n is not comp]:
        it = l.iter
        base = it.func.value if isinstance(it, ast.Call) and isinstance(it.func, ast.Attribute) and it.func.attr in ("items", "keys") else it
        whole = (expand(p, base, w) is comp and comp is not None) or (isinstance(base, ast.Name) and base.id == coll_name) or src(base) == "self.fields"
        ctx.ob("C03.WRAP", l, "the refusal loop inspects every required future", whole,
               f"the refusal loop iterates `{src(it)}`, not the whole collection of required futures", construct=f"wrapper:loop over {src(it)[:40]}")


def rule_init(ctx):
    p = ctx.p
    ctx.rule("C03.INIT", "the session constructor presets no field that a guard tests")
    ctor = p.session_ctor()
    fields = field_names(p)
    kv = session_kwargs(p)
    bad = set(kv) & set(fields.values())
    star = [kv["**"]] if "**" in kv else []
    ctx.ob("C03.INIT", ctor, f"Connection(...) keywords are disjoint from the guard fields {sorted(fields.values())}", not bad and not star,
           f"session constructed with guard fields preset: {sorted(bad)}" if bad else "session constructed with **kwargs the analysis cannot see",
           construct="Connection(" + ",".join(sorted(bad)) + ")")
    # stores of guard fields `logged`/`user` outside handlers (e.g. in the dispatcher)
    d = p.dispatcher()
    for f_ in (fields["login_required"], fields["user_required"]):
        for stmt, tgt in attr_stores(d, f_):
            if not isinstance(stmt, ast.Delete):
                ctx.fail("C03.INIT", stmt, f"the dispatcher itself sets the guard field {f_!r}", construct=f"dispatcher sets {f_}")


def rule_write(ctx):
    p = ctx.p
    ctx.rule("C03.WRITE", "the authenticated flag is set only under OK from get_user (USER) or a truthy authenticate(connection.user, rest) (PASS)")
    fields = field_names(p)
    login, userf = fields["login_required"], fields["user_required"]
    table, _ = p.command_table()
    srv = p.trees["server.py"]
    writers = 0
    for stmt, tgt in attr_stores(srv, login):
        if isinstance(stmt, ast.Delete):
            continue
        writers += 1
        fn = p.enclosing_function(stmt)
        if fn is None or p.enclosing_class(fn) is None or p.enclosing_class(fn).name != "Server" or fn.name not in table.values():
            ctx.fail("C03.WRITE", stmt, "authenticated flag set outside a command handler", construct=f"{p.fn_of(stmt)}:sets {login}")
            continue
        conn, rest = p.handler_params(fn)
        ok = False
        why = ""
        for t, pol in all_guards(p, stmt, fn):
            if not pol:
                continue
            if isinstance(t, ast.Await) and isinstance(t.value, ast.Call) and isinstance(t.value.func, ast.Attribute) and t.value.func.attr == "authenticate" \
                    and last_attr(t.value.func.value) == "user_manager":
                a = [src(x) for x in t.value.args]
                if a == [f"{conn}.{userf}", rest] and not t.value.keywords:
                    ok = True
            if isinstance(t, ast.Compare) and len(t.ops) == 1 and isinstance(t.ops[0], ast.Eq) and dsrc(p, t.comparators[0], fn).endswith("GetUserResponse.OK") \
                    and isinstance(t.left, ast.Name):
                # the compared state is the first component of the awaited get_user(...) result
                for k, v, x in local_defs(fn, t.left.id):
                    if k == "unpack" and x == 0 and isinstance(v, ast.Await) and isinstance(v.value, ast.Call) and is_method_call(v.value, "get_user", "user_manager"):
                        ok = True
        ctx.ob("C03.WRITE", stmt, f"{fn.name}: `{src(stmt)}` is dominated by a successful authentication", ok,
               f"{fn.name}: authenticated flag set at a site not dominated by a truthy authenticate(session user, argument) / state == OK from get_user",
               construct=f"{fn.name}:{src(stmt)}:{sorted(src(t) + '=' + str(pol) for t, pol in all_guards(p, stmt, fn))}"[:200])
    # indirect writes: <conn>[<login>] / future.<login>.set_result
    for n in ast.walk(srv):
        if isinstance(n, ast.Subscript) and isinstance(n.slice, ast.Constant) and n.slice.value == login:
            ctx.fail("C03.WRITE", n, "authenticated flag reached through the dictionary interface of the session", construct=f"{p.fn_of(n)}:subscript {login}")
        if isinstance(n, ast.Call) and isinstance(n.func, ast.Attribute) and n.func.attr in ("set_result", "setdefault", "update") \
                and any(isinstance(x, ast.Attribute) and x.attr == login for x in ast.walk(n.func.value)):
            ctx.fail("C03.WRITE", n, "authenticated flag future completed directly", construct=f"{p.fn_of(n)}:set_result {login}")
        if isinstance(n, ast.Call) and isinstance(n.func, ast.Attribute) and n.func.attr == "update" and any(k.arg == login for k in n.keywords):
            ctx.fail("C03.WRITE", n, "authenticated flag set through update()", construct=f"{p.fn_of(n)}:update {login}")
    if writers < 2:
        raise AnalysisError(f"rule=C03.WRITE: only {writers} writers of the authenticated flag found (floor 2)")
    # PASS on an already authenticated session does not call authenticate (out of sequence)
    if "pass" in table:
        ph = p.method("Server", table["pass"])
        conn, rest = p.handler_params(ph)
        g = any(is_guard(d, userf) or is_guard(d, login) for d in p.decorators(ph))
        ctx.ob("C03.WRITE", ph, "PASS requires a previously identified user (user_required)", g,
               "PASS handler is not guarded by user_required: authenticate() would be called without a user", construct="pass:no user guard")


def rule_drop(ctx):
    p = ctx.p
    ctx.rule("C03.DROP", "USER deletes `logged` and `user` on every path before its first suspension point and before get_user is awaited")
    fields = field_names(p)
    login, userf = fields["login_required"], fields["user_required"]
    table, _ = p.command_table()
    if "user" not in table:
        raise AnalysisError("anchor=USER handler not in the command table")
    ufn = p.method("Server", table["user"])
    conn, rest = p.handler_params(ufn)
    paths = enum_paths(p, ufn)
    ctx.paths_enumerated += len(paths)
    found_get = False
    verdicts = {login: True, userf: True}
    suspended_early = None
    for ev, out in paths:
        dropped = set()
        for n in evaluated(ev):
            if isinstance(n, FuncT):
                continue
            if isinstance(n, ast.Delete):
                for t in n.targets:
                    if isinstance(t, ast.Attribute) and isinstance(t.value, ast.Name) and t.value.id == conn:
                        dropped.add(t.attr)
                    if isinstance(t, ast.Attribute) and isinstance(t.value, ast.Attribute) and t.value.attr == "future" and src(t.value.value) == conn:
                        dropped.add(t.attr)
            is_get = any(isinstance(c, ast.Call) and is_method_call(c, "get_user", "user_manager") for c in walk_self(n))
            if is_get:
                found_get = True
                for f_ in (login, userf):
                    if f_ not in dropped:
                        verdicts[f_] = False
                break
            if not ({login, userf} <= dropped) and may_suspend_node(p, n, ufn):
                suspended_early = n
                break
    if not found_get:
        raise AnalysisError("rule=C03.DROP: await user_manager.get_user(...) not found on any path of the USER handler")
    for f_ in (login, userf):
        ctx.ob("C03.DROP", ufn, f"USER unconditionally deletes session field {f_!r} before looking the new user up", verdicts[f_],
               f"USER does not unconditionally delete session field {f_!r} before looking the new user up: the old login stays valid for the new name",
               construct=f"missing del {f_}")
    ctx.ob("C03.DROP", suspended_early if suspended_early is not None else ufn, "no suspension point before the previous login is dropped", suspended_early is None,
           "suspension point before the previous login is dropped: commands interleaved there still run as the old user",
           construct="suspend before drop")
    # the user stored is the one get_user returned, and only when state is not ERROR (shared with C10.ENUM)
    for stmt, tgt in attr_stores(ufn, userf, nested=False):
        if isinstance(stmt, ast.Assign):
            v = stmt.value
            ok = False
            if isinstance(v, ast.Name):
                ok = any(k == "unpack" and isinstance(val, ast.Await) and isinstance(val.value, ast.Call) and is_method_call(val.value, "get_user", "user_manager")
                         for k, val, x in local_defs(ufn, v.id))
            ctx.ob("C03.DROP", stmt, "the session user is the object returned by get_user for this USER command", ok,
                   "the session user is not the object returned by get_user", construct=f"user store:{src(stmt)}")


def rule_mgr(ctx):
    p = ctx.p
    ctx.rule("C03.MGR", "MemoryUserManager: OK only for users without login/password; authenticate is an equality of stored and supplied password, never disjoined")
    gu = p.method("MemoryUserManager", "get_user")
    n_ok = 0
    for n in walk_no_nested(gu):
        if isinstance(n, ast.Assign) and dsrc(p, n.value, gu).endswith("GetUserResponse.OK"):
            n_ok += 1
            guards = all_guards(p, n, gu)
            ok = any(pol and isinstance(t, ast.Compare) and len(t.ops) == 1 and isinstance(t.ops[0], ast.Is)
                     and isinstance(t.left, ast.Attribute) and t.left.attr in ("login", "password")
                     and isinstance(t.comparators[0], ast.Constant) and t.comparators[0].value is None for t, pol in guards)
            ctx.ob("C03.MGR", n, "state OK (no password needed) is dominated by `login is None` / `password is None`", ok,
                   "get_user answers OK (logged in without password) for a user that may have a password", construct=f"get_user:OK:{[src(t) for t, pol in guards if pol]}"[:160])
    if n_ok < 1:
        raise AnalysisError("rule=C03.MGR: no OK assignment found in MemoryUserManager.get_user")
    # the user that is returned is selected by login equality or is the anonymous one
    for n in walk_no_nested(gu):
        if isinstance(n, ast.Assign) and isinstance(n.targets[0], ast.Name) and n.targets[0].id == "user" and not (isinstance(n.value, ast.Constant)):
            guards = all_guards(p, n, gu)
            ok = any(pol and isinstance(t, ast.Compare) and len(t.ops) == 1 and (
                (isinstance(t.ops[0], ast.Eq) and {last_attr(t.left), last_attr(t.comparators[0])} == {"login"}) or
                (isinstance(t.ops[0], ast.Is) and last_attr(t.left) == "login")) for t, pol in guards)
            ctx.ob("C03.MGR", n, "a user is selected only by login equality or as the anonymous entry", ok,
                   "get_user selects a user by something else than login equality / anonymous entry", construct=f"get_user:select:{[src(t) for t, pol in guards if pol]}"[:160])
    au = p.method("MemoryUserManager", "authenticate")
    params = [a.arg for a in au.args.args]
    rets = [n for n in walk_no_nested(au) if isinstance(n, ast.Return)]
    if not rets:
        ctx.fail("C03.MGR", au, "authenticate has no return", construct="authenticate:no return")
    for r in rets:
        v = r.value
        if v is None:
            continue
        v = expand(p, v, au)
        if isinstance(v, ast.Constant) and not v.value:
            ctx.ob("C03.MGR", r, "authenticate: constant refusal", True)
            continue
        if isinstance(v, ast.Constant) and v.value is True:
            def _is_eq(x):
                return isinstance(x, ast.Compare) and len(x.ops) == 1 and isinstance(x.ops[0], ast.Eq) and {src(x.left), src(x.comparators[0])} == {f"{params[1]}.password", params[2]}
            g = all_guards(p, r, au)
            ok = any(pol and _is_eq(t) for t, pol in g) or any((not pol) and isinstance(t, ast.Compare) and isinstance(t.ops[0], ast.NotEq)
                                                                and {src(t.left), src(t.comparators[0])} == {f"{params[1]}.password", params[2]} for t, pol in g)
            ctx.ob("C03.MGR", r, "authenticate: `return True` only where stored and supplied password were found equal", ok,
                   "authenticate returns True on a path where the passwords were not compared equal", construct="authenticate:return True unguarded")
            continue
        parts = v.values if isinstance(v, ast.BoolOp) and isinstance(v.op, ast.And) else [v]

        def is_eq(x):
            if isinstance(x, ast.Compare) and len(x.ops) == 1 and isinstance(x.ops[0], ast.Eq):
                return {src(x.left), src(x.comparators[0])} == {f"{params[1]}.password", params[2]}
            if isinstance(x, ast.Call) and (dotted(x.func) or "").endswith("compare_digest") and len(x.args) == 2:
                names = {y.id for a in x.args for y in ast.walk(a) if isinstance(y, ast.Name)}
                attrs = {y.attr for a in x.args for y in ast.walk(a) if isinstance(y, ast.Attribute)}
                return {params[1], params[2]} <= names and "password" in attrs
            return False
        ok = any(is_eq(x) for x in parts)
        ctx.ob("C03.MGR", r, "authenticate returns equality of stored and supplied password (possibly conjoined, never disjoined)", ok,
               "authenticate does not return an equality of stored and supplied password: a wrong password may authorise",
               construct=f"authenticate:{src(v)[:80]}")
    ctx.floor("C03.MGR", 3)


def rule_table(ctx):
    p = ctx.p
    ctx.rule("C03.TABLE", "dispatch only through <table>.get(cmd); no getattr on wire-derived names")
    disp = p.dispatcher()
    attr = p.command_table_attr()
    scope = [disp] + [m for m in p.methods("Server").values() if m is not disp and any(is_self_call(c, {m.name}) for c in ast.walk(disp))]   # helpers of the dispatcher
    gets = [c for f_ in scope for c in ast.walk(f_) if isinstance(c, ast.Call) and is_method_call(c, "get", attr)]
    subs = [c for f_ in scope for c in ast.walk(f_) if isinstance(c, ast.Subscript) and last_attr(c.value) == attr]
    if not (gets or subs):
        raise AnalysisError("anchor=dispatch lookup (<table>.get(cmd) / <table>[cmd]) not found in the dispatcher or the methods it calls")
    ctx.ob("C03.TABLE", disp, "dispatcher looks the verb up with <table>.get(cmd) / <table>[cmd]", True)
    for f_ in scope:
        for c in calls_in(f_, lambda c: isinstance(c.func, ast.Name) and c.func.id in ("getattr", "eval", "exec", "globals", "locals", "vars")):
            # a getattr whose name is a literal reads one fixed attribute: not a dispatch on wire data
            if c.func.id == "getattr" and len(c.args) >= 2 and isinstance(c.args[1], ast.Constant) and isinstance(c.args[1].value, str):
                continue
            ctx.fail("C03.TABLE", c, f"dynamic lookup `{src(c)[:50]}` in the dispatcher: handlers outside the table become reachable", construct=f"dispatcher:{src(c)[:50]}")
    # the table is only assigned in __init__
    for fn in p.methods("Server").values():
        if fn.name == "__init__":
            continue
        for stmt, tgt in attr_stores(fn, attr):
            ctx.fail("C03.TABLE", stmt, f"command table modified in {fn.name}", construct=f"{fn.name}:table store")
        for n in ast.walk(fn):
            if isinstance(n, ast.Subscript) and last_attr(n.value) == attr and isinstance(n.ctx, (ast.Store, ast.Del)):
                ctx.fail("C03.TABLE", n, f"command table modified in {fn.name}", construct=f"{fn.name}:table item store")


def rule_late(ctx):
    from .c04 import rule_same
    ctx.rule("C03.LATE", "what a command does is decided under the login that was checked for it: the path is resolved (against that user's base directory) in the handler, "
                         "not in a deferred worker that may run after a re-login (shared with C04.SAME)")
    ctx.borrow(rule_same, {"C04.SAME": "C03.LATE"}, only=lambda fn: True)


def rule_cli_user(ctx):
    p = ctx.p
    ctx.rule("C03.CLI", "the command-line server protects the account it was given a password for: every `User(...)` built in __main__ receives the --pass value, whatever "
                        "other options are set (a user built without it is served on USER alone)")
    tree = p.trees.get("__main__.py")
    if tree is None:
        ctx.ob("C03.CLI", p.trees["server.py"], "no __main__ module in this tree", True)
        return
    calls = [c for c in ast.walk(tree) if isinstance(c, ast.Call) and last_attr(c.func) == "User"]

    def is_pw(e):
        return isinstance(e, ast.Attribute) and e.attr in ("password", "pass_", "passwd") and isinstance(e.value, ast.Name)
    for c in calls:
        ok = (len(c.args) >= 2 and is_pw(c.args[1])) or any(k.arg == "password" and is_pw(k.value) for k in c.keywords)
        if not ok:
            # **options: the dict must get the password at module level, unconditionally
            for k in [k for k in c.keywords if k.arg is None and isinstance(k.value, ast.Name)]:
                d = k.value.id
                for st in tree.body:
                    if isinstance(st, ast.Assign) and any(isinstance(t, ast.Name) and t.id == d for t in st.targets):
                        v = st.value
                        if isinstance(v, ast.Dict) and any(isinstance(kk, ast.Constant) and kk.value == "password" and is_pw(vv) for kk, vv in zip(v.keys, v.values)):
                            ok = True
                        if isinstance(v, ast.Call) and isinstance(v.func, ast.Name) and v.func.id == "dict" and any(kw.arg == "password" and is_pw(kw.value) for kw in v.keywords):
                            ok = True
                    if isinstance(st, ast.Expr) and isinstance(st.value, ast.Call) and is_method_call(st.value, "update") and src(st.value.func.value) == d \
                            and any(kw.arg == "password" and is_pw(kw.value) for kw in st.value.keywords):
                        ok = True
                    if isinstance(st, ast.Assign) and isinstance(st.targets[0], ast.Subscript) and src(st.targets[0].value) == d and isinstance(st.targets[0].slice, ast.Constant) \
                            and st.targets[0].slice.value == "password" and is_pw(st.value):
                        ok = True
        ctx.ob("C03.CLI", c, f"__main__: `{src(c)[:60]}` is given the configured password", ok,
               f"__main__ builds `{src(c)[:70]}` without the --pass value on some configuration: that account is logged in by USER alone", construct=f"cli:user without password:{src(c)[:40]}")
    ctx.floor("C03.CLI", 1, "User(...) constructions in __main__")


RULES = [rule_cli_user, rule_guard, rule_wrap, rule_init, rule_write, rule_drop, rule_mgr, rule_table, rule_late]
