"""C13 Backend failures are contained: 451, data channel closed, session lives on"""
import ast
from ..model import *
from ..util import *
from ..facts import *
from ..lifecycle import check_detach
from ..paths import Cfg, evaluated
from .c05 import handler_entries, handler_path_sigs

EXPLANATION = (
    "Exhaustive backend x operation table (3 shipped backends x the abstract operations + the three listers): every "
    "concrete implementation has the error converter (universal_exception) as its OUTERMOST decorator and the converter "
    "turns every Exception except its three pass-through classes into PathIOError. The dispatcher maps PathIOError of "
    "any finished task to exactly one 451 and continues; nobody else catches PathIOError. A backend await never "
    "follows a success (2xx/3xx) reply on any handler/worker path. All backend access of server.py goes through "
    "<session>.path_io.<op>. After a transfer worker detaches the data stream, the first suspending construct is the "
    "stream's own context, so any later backend failure unwinds through it and the peer sees EOF."
)
NOT_DECIDED = [
    "behaviour for each fault position at run time; other sessions' transcripts",
    "executor threads of AsyncPathIO that finish after a timeout",
    "user-supplied backends",
]


def rule_univ(ctx):
    p = ctx.p
    ctx.rule("C13.UNIV", "every concrete backend coroutine and lister __anext__ has the error converter as outermost decorator; the converter covers Exception")
    ops = [n.name for n in p.cls("AbstractPathIO").body if isinstance(n, ast.AsyncFunctionDef)]
    if len(ops) < 13:
        raise AnalysisError(f"rule=C13.UNIV: {len(ops)} abstract coroutine operations (floor 13)")
    backends = p.backends()
    if len(backends) < 3:
        raise AnalysisError(f"rule=C13.UNIV: {len(backends)} backends (floor 3)")
    # the converter: by role = the decorator whose wrapper raises PathIOError
    conv_name = None
    for (mod, name), fn in p.module_funcs.items():
        if mod == "pathio.py" and any(isinstance(r, ast.Raise) and r.exc is not None and "PathIOError" in src(r.exc) for r in ast.walk(fn)):
            conv_name = name
    if conv_name is None:
        raise AnalysisError("anchor=backend error converter (decorator raising PathIOError) not found in pathio.py")
    for b in backends:
        ms = p.methods(b)
        for op in ops:
            if op not in ms:
                inherited = any(op in p.methods(c) for c in p.mro(b)[1:] if c != "AbstractPathIO")
                ctx.ob("C13.UNIV", p.cls(b), f"{b} implements {op}", inherited, f"{b} does not implement {op}", construct=f"{b}.{op}:missing")
                continue
            ds = p.decorators(ms[op])
            outer = ds[0].name if ds else None
            ctx.ob("C13.UNIV", ms[op], f"{b}.{op}: outermost decorator is the converter ({outer})", outer == conv_name,
                   f"{b}.{op}: outermost decorator is {outer}; backend errors (incl. timeouts raised by inner wrappers) escape as raw exceptions and end the session",
                   construct=f"{b}.{op}:outermost={outer}")
        if "list" in ms:
            try:
                lister = p.nested(ms["list"], "__anext__")
                ds = p.decorators(lister)
                outer = ds[0].name if ds else None
                ctx.ob("C13.UNIV", lister, f"{b}.list.__anext__: outermost decorator is the converter ({outer})", outer == conv_name,
                       f"{b}.list.__anext__: outermost decorator is {outer}", construct=f"{b}.Lister.__anext__:outermost={outer}")
            except AnalysisError:
                ctx.fail("C13.UNIV", ms["list"], f"{b}.list: lister __anext__ not found", construct=f"{b}.list:no __anext__")
    wr = p.wrapper_of(conv_name)
    tries = [t for t in walk_no_nested(wr) if isinstance(t, ast.Try)]
    ok = False
    passthrough = []
    for t in tries:
        covers = any(isinstance(x, ast.Await) for s in t.body for x in walk_self(s))
        for h in t.handlers:
            raises_conv = any(isinstance(r, ast.Raise) and r.exc is not None and "PathIOError" in src(r.exc) for s in h.body for r in walk_self(s))
            if raises_conv:
                if covers and h.type is not None and hnames(p, h) in (["Exception"], ["BaseException"]):
                    ok = True
                break
            if h.type is not None and len(h.body) == 1 and isinstance(h.body[0], ast.Raise) and h.body[0].exc is None:
                passthrough += hnames(p, h)
            else:
                passthrough.append("?" + src(h.type or ""))
    ctx.ob("C13.UNIV", wr, f"the converter turns every Exception into PathIOError (pass-through: {passthrough})", ok,
           "the backend error converter no longer catches every Exception around the awaited operation", construct="universal_exception:catch class")
    allowed = {"CancelledError", "NotImplementedError", "StopAsyncIteration"}
    ctx.ob("C13.UNIV", wr, "pass-through classes are limited to CancelledError / NotImplementedError / StopAsyncIteration", set(passthrough) <= allowed,
           f"the converter lets {sorted(set(passthrough) - allowed)} pass unconverted", construct=f"universal_exception:passthrough {sorted(set(passthrough) - allowed)}")
    # the converter does nothing but run the operation: no statement of its own before the try (one that raises or returns would skip the operation -
    # e.g. the close() of a file while the task is being cancelled)
    body = [s_ for s_ in wr.body if not (isinstance(s_, ast.Expr) and isinstance(s_.value, ast.Constant))]
    pre = [s_ for s_ in body if not isinstance(s_, ast.Try)]
    tries_ = [s_ for s_ in body if isinstance(s_, ast.Try)]
    if len(tries_) == 1:
        ti = body.index(tries_[0])
        assigned = {t.id for n_ in tries_[0].body if isinstance(n_, ast.Assign) for t in n_.targets if isinstance(t, ast.Name)}
        # after the try: nothing but `return <the value the try bound>`
        pre = body[:ti] + [s_ for s_ in body[ti + 1:] if not (isinstance(s_, ast.Return) and isinstance(s_.value, ast.Name) and s_.value.id in assigned)]
    ctx.ob("C13.UNIV", pre[0] if pre else wr, "the converter's wrapper consists of the try around the awaited operation only", not pre and len(tries_) == 1,
           f"the backend error converter executes `{src(pre[0])[:50] if pre else ''}` before (or instead of) the operation: an operation can be skipped - a close() that never runs leaves the file open",
           construct="universal_exception:extra statement")
    ctx.floor("C13.UNIV", 42, "backend operations")
    # PathIOError itself must be an Exception subclass that the dispatcher's handler names
    ctx.ob("C13.UNIV", p.cls("PathIOError"), "PathIOError is an ordinary Exception subclass", p.issub("PathIOError", "Exception"),
           "PathIOError is not an Exception subclass", construct="PathIOError base")


def rule_451(ctx):
    p = ctx.p
    ctx.rule("C13.451", "the dispatcher maps PathIOError from any finished task to exactly one 451 and continues the loop; no other function catches it")
    disp = p.dispatcher()
    conn = p.session_var()
    ok = False
    for t in [n for n in walk_no_nested(disp) if isinstance(n, ast.Try)]:
        covers = any(is_method_call(c, "result") for s in t.body for c in walk_self(s) if isinstance(c, ast.Call))
        for h in t.handlers:
            if h.type is None or not covers:
                continue
            if not any(p.issub("PathIOError", hn) and hn not in ("Exception", "BaseException") for hn in handler_names(h)):
                continue
            good = True
            for n_ in h.body:   # nothing in the handler may depend on the exception object (rendering it can raise or inject line breaks into the reply)
                for c_ in walk_self(n_):
                    if is_reply(c_, conn) and not all(isinstance(a_, ast.Constant) for a_ in c_.args):
                        good = False
                    if h.name and isinstance(c_, ast.Name) and c_.id == h.name and not any(isinstance(q_, ast.Call) and isinstance(q_.func, ast.Attribute) and isinstance(q_.func.value, ast.Name)
                                                                                      and "log" in q_.func.value.id.lower() for q_ in _anc(p, c_)):
                        good = False
            for ev, out in Cfg(lambda n: [], p.issub).seq(h.body):
                codes = [c.args[0].value if c.args and isinstance(c.args[0], ast.Constant) else None for n in evaluated(ev) for c in walk_self(n) if is_reply(c, conn)]
                if codes != ["451"] or out[0] not in ("continue", "fall"):
                    good = False
            # the try must protect ONE task's result: its innermost enclosing loop iterates the finished tasks and the
            # result() call is on that loop's variable (a batch-wide try drops the other results of the same wake-up)
            in_loop = False
            q = p.parent.get(t)
            while q is not None and q is not disp:
                if isinstance(q, (ast.For, ast.While)):
                    if isinstance(q, ast.For) and isinstance(q.target, ast.Name):
                        calls = [c for s_ in t.body for c in walk_self(s_) if isinstance(c, ast.Call) and is_method_call(c, "result")]
                        in_loop = bool(calls) and all(isinstance(c.func.value, ast.Name) and c.func.value.id == q.target.id for c in calls) \
                            and not any(isinstance(x, (ast.ListComp, ast.GeneratorExp, ast.SetComp, ast.DictComp, ast.For)) for s_ in t.body for x in ast.walk(s_))
                    break
                q = p.parent.get(q)
            ok = ok or (good and in_loop)
    ctx.ob("C13.451", disp, "dispatcher: PathIOError from each finished task's result() -> one 451, the remaining results are still handled", ok,
           "dispatcher does not map PathIOError of a single finished task to exactly one 451 and continue with the other finished tasks "
           "(a batch-wide handler drops the results - e.g. the next parsed command - that completed in the same wake-up)", construct="dispatcher:451")
    n = 0
    for mod in ("server.py",):
        for h in ast.walk(p.trees[mod]):
            if isinstance(h, ast.ExceptHandler) and h.type is not None and any(hn in ("PathIOError", "AIOFTPException") for hn in handler_names(h)):
                fn = p.enclosing_function(h)
                n += 1
                ctx.ob("C13.451", h, f"PathIOError handler in {p.fn_of(h)}", fn is disp,
                       f"{p.fn_of(h)} catches PathIOError itself: the failure is no longer answered by the dispatcher's 451", construct=f"{p.fn_of(h)}:catches PathIOError")
    # broad handlers inside handlers/workers that would swallow PathIOError
    for verb, name, fn in p.handlers():
        for h in ast.walk(fn):
            if isinstance(h, ast.ExceptHandler) and (h.type is None or any(hn in ("Exception", "BaseException") for hn in handler_names(h))):
                reraises = any(isinstance(r, ast.Raise) and r.exc is None for s in h.body for r in walk_self(s))
                t = p.parent.get(h)
                touches = any(isinstance(x, ast.Attribute) and x.attr == "path_io" for s in t.body for x in ast.walk(s))
                if touches:
                    ctx.ob("C13.451", h, f"{name}: broad handler around a backend call re-raises", reraises,
                           f"{name}: a broad except around a backend call swallows PathIOError (no 451)", construct=f"{name}:broad except")


def _anc(p, n):
    q = p.parent.get(n)
    while q is not None:
        yield q
        q = p.parent.get(q)


def rule_nosuccess(ctx):
    p = ctx.p
    ctx.rule("C13.NOSUCCESS", "on every path of a handler/worker no backend access follows a 2xx/3xx reply")
    fns = [(fn, p.handler_params(fn)[0]) for verb, name, fn in p.handlers()] + [(w, [a.arg for a in w.args.args][1]) for h, w in p.workers()]
    for fn, conn in fns:
        bad = None
        paths = enum_paths(p, fn)
        ctx.paths_enumerated += len(paths)
        for ev, out in paths:
            pf = PathFacts(p, fn, conn, ev, out)
            if pf.infeasible:
                continue
            if pf.backend_after_success is not None:
                bad = pf.backend_after_success
            open_backend = []
            for e in ev:
                if e[0] == "enter" and _is_backend_file(p, e[1], fn):
                    open_backend.append(src(e[1]))
                elif e[0] == "exit" and src(e[1]) in open_backend:
                    open_backend.remove(src(e[1]))
                elif e[0] == "stmt" and open_backend:
                    for c in walk_self(e[1]):
                        if is_reply(c, conn) and c.args and str(const_values(p, c.args[0], fn)[0] or "")[:1] in ("2", "3"):
                            bad = c   # the context exit (backend close/flush) still follows this success reply
        ctx.ob("C13.NOSUCCESS", bad if bad is not None else fn, f"{p.qualname(fn)}: no backend access after a success reply", bad is None,
               f"{fn.name}: backend access after a success reply (a failure there would follow the success reply with a 451)",
               construct=f"{fn.name}:backend-after-success")
    ctx.floor("C13.NOSUCCESS", 29, "handlers and workers")


def _is_backend_file(p, expr, fn):
    e = expr
    if isinstance(e, ast.Name):
        f, ds = closure_lookup(p, fn, e.id)
        e = next((v for k, v, _ in ds if k == "assign"), e)
    return isinstance(e, ast.Call) and isinstance(e.func, ast.Attribute) and e.func.attr == "open" and last_attr(e.func.value) == "path_io"


def rule_calls(ctx):
    p = ctx.p
    ctx.rule("C13.CALLS", "all backend access in server.py goes through <session>.path_io.<op> of the resolved interface")
    ops = set(p.backend_ops()) | {"open", "list"}
    n = 0
    for c in ast.walk(p.trees["server.py"]):
        if isinstance(c, ast.Attribute) and c.attr == "path_io" and isinstance(c.ctx, ast.Load):
            par = p.parent.get(c)
            if isinstance(par, ast.Attribute):
                n += 1
                ctx.ob("C13.CALLS", par, f"backend operation `{par.attr}` is part of the abstract interface", par.attr in ops,
                       f"server uses backend attribute `{par.attr}` which is not an operation of AbstractPathIO (not covered by the converter)",
                       construct=f"{p.fn_of(c)}:path_io.{par.attr}")
            elif isinstance(par, ast.Call) and isinstance(par.func, ast.Name) and par.func.id == "getattr":
                n += 1
                # names come from the PathConditions condition tuples
                names = set()
                for a in p.cls("PathConditions").body:
                    if isinstance(a, ast.Assign) and isinstance(a.value, ast.Tuple) and a.value.elts and isinstance(a.value.elts[0], ast.Constant):
                        names.add(a.value.elts[0].value)
                ctx.ob("C13.CALLS", par, f"getattr(path_io, name) ranges over the constant table {sorted(names)}", bool(names) and names <= ops,
                       "getattr(path_io, <name>) is not limited to operations of the abstract interface", construct=f"{p.fn_of(c)}:getattr(path_io)")
    ctx.floor("C13.CALLS", 15, "backend accesses")
    # private backend internals
    for c in ast.walk(p.trees["server.py"]):
        if isinstance(c, ast.Attribute) and isinstance(c.value, ast.Attribute) and c.value.attr == "path_io" and c.attr.startswith("_"):
            ctx.fail("C13.CALLS", c, f"server calls the backend's private `{c.attr}` directly", construct=f"{p.fn_of(c)}:path_io.{c.attr}")


def rule_close(ctx):
    """a failure of the backend's close() must reach the worker (451), not be swallowed by the file context"""
    from .c12 import rule_file
    ctx.borrow(rule_file, {"C12.FILE": "C13.CLOSE"})


def rule_data(ctx):
    ctx.rule("C13.DATA", "a backend failure at any await after the data stream was detached unwinds through the stream's context (peer sees EOF)")
    check_detach(ctx, "C13.DATA")


def rule_borrowed_r4(ctx):
    from .c16 import rule_label
    ctx.rule("C13.TIMEOUT", "a backend call that exceeds path_timeout fails with TimeoutError (converted to PathIOError -> 451), not with CancelledError (which the abort guard "
                            "answers 426/226 and the dispatcher re-raises): with_timeout is `wait_for(f(...), <timeout attribute>)` (shared with C16.LABEL)")
    ctx.borrow(rule_label, {"C16.LABEL": "C13.TIMEOUT"}, only=lambda fn: "with_timeout" in fn)


RULES = [rule_univ, rule_451, rule_nosuccess, rule_calls, rule_data, rule_close, rule_borrowed_r4]
