"""C12 A session that ends - at any point, for any reason - releases everything it held"""
import ast
from ..model import *
from ..util import *
from ..facts import *
from ..lifecycle import check_detach, data_field
from ..paths import Cfg, evaluated

EXPLANATION = (
    "Release table: the session fields that are ever assigned a closable (a listener from _start_passive_server / "
    "start_server, a ThrottleStreamIO) are computed from the stores in server.py; for each the dispatcher's `finally` "
    "must contain close() guarded only by that field's presence (and the loop-still-open test); the control stream "
    "is closed, every task of pending | extra_workers is cancelled and then awaited, the table entry is popped "
    "unconditionally; the try covers everything after the first task creation and the table insert. Detached data "
    "stream protection (first suspending construct after capture is the stream's own context). Every other `del` of a "
    "closable field is dominated by close(). Every create_task flows into a session-owned collection that the cleanup "
    "cancels and awaits, or is awaited by a construct that propagates cancellation (gather/await/TaskGroup; "
    "asyncio.wait does not). Server.close closes the listener, cancels every dispatcher and awaits them. Backend "
    "files are only used as `async with` items; AsyncPathIOContext.__aexit__ awaits close whenever open succeeded."
)
NOT_DECIDED = [
    "that nothing is left at run time (sockets, fds, tasks) for every cut position",
    "executor threads of AsyncPathIO finishing after a timeout",
    "asyncio internals (transport close on cancelled start_server)",
]

CLOSABLE_CTORS = ("ThrottleStreamIO", "StreamIO", "DataConnectionThrottleStreamIO")


def closable_fields(p):
    """session fields (attribute name -> [store stmts]) that get a closable assigned anywhere in server.py"""
    out = {}
    srv = p.trees["server.py"]
    conn_names = {p.session_var()} | {p.handler_params(fn)[0] for v, n, fn in p.handlers()}
    for n in ast.walk(srv):
        if isinstance(n, ast.Assign) and len(n.targets) == 1 and isinstance(n.targets[0], ast.Attribute) and isinstance(n.targets[0].value, ast.Name) \
                and n.targets[0].value.id in conn_names:
            v = n.value
            fn = p.enclosing_function(n)
            if isinstance(v, ast.Await):
                v = v.value
            v = expand(p, v, fn)
            if isinstance(v, ast.Await):
                v = v.value
            if isinstance(v, ast.Call):
                d = dotted(v.func) or ""
                fields = field_names(p)
                known = {fields.get("data_connection_made"), fields.get("passive_server_started")}
                if d.split(".")[-1] in CLOSABLE_CTORS or d.endswith("start_server") or d.endswith("_start_passive_server") or d.endswith("open_connection") \
                        or n.targets[0].attr in known:
                    out.setdefault(n.targets[0].attr, []).append(n)
    return out


def rule_fields(ctx):
    p = ctx.p
    ctx.rule("C12.FIELDS", "every closable session field is closed in the dispatcher cleanup, guarded only by its presence; tasks cancelled+awaited; control stream closed; table entry popped")
    d, tr = p.dispatcher_try()
    conn = p.session_var()
    fields = closable_fields(p)
    if len(fields) < 2:
        raise AnalysisError(f"rule=C12.FIELDS: closable session fields found: {sorted(fields)} (floor 2)")
    fin = tr.finalbody

    def only_presence(c, f_):
        conds = flat_conditions(p, c, d)
        pres = any(pol and is_done(t, conn, f_) for t, pol in conds)
        extra = [src(t) for t, pol in conds if not (pol and is_done(t, conn, f_)) and not (not pol and is_loop_closed(t))]
        return pres, extra
    for f_ in sorted(fields):
        ok = False
        why = "never closes it"
        for s in fin:
            for c in ast.walk(s):
                if isinstance(c, ast.Call) and is_method_call(c, "close") and src(c.func.value) == f"{conn}.{f_}":
                    pres, extra = only_presence(c, f_)
                    if pres and not extra:
                        ok = True
                    else:
                        why = f"closes it only under {extra or 'no presence test'}"
        ctx.ob("C12.FIELDS", tr, f"session field `{f_}` (holds a listener/stream) is closed by the cleanup when present", ok,
               f"session field `{f_}` can hold an open listener/stream but the dispatcher cleanup {why}", construct=f"finally:no close of {f_}", function=p.qualname(d))
    # control stream
    ctl = None
    for n in walk_no_nested(d):
        if isinstance(n, ast.Assign) and isinstance(n.value, ast.Call) and (dotted(n.value.func) or "").split(".")[-1] in CLOSABLE_CTORS:
            ctl = [t.id for t in n.targets if isinstance(t, ast.Name)]
    if not ctl:
        raise AnalysisError("anchor=control stream (stream constructed from the accepted reader/writer) not found in the dispatcher")
    closes = [c for s in fin for c in ast.walk(s) if isinstance(c, ast.Call) and is_method_call(c, "close") and isinstance(c.func.value, ast.Name) and c.func.value.id in ctl]
    ok = any(not [1 for t, pol in flat_conditions(p, c, d) if not (not pol and is_loop_closed(t))] for c in closes)
    ctx.ob("C12.FIELDS", tr, "the control stream is closed by the cleanup", ok, "dispatcher cleanup: control stream closed - missing", construct="finally:control stream closed", function=p.qualname(d))
    # tasks: loop over (the set the session loop waits on) cancelling each, collecting, then awaited
    waited = [c.args[0] for c in walk_no_nested(d) if isinstance(c, ast.Call) and (dotted(c.func) or "").endswith("asyncio.wait") and c.args
              and any(isinstance(x, ast.Attribute) and x.attr == "extra_workers" for x in ast.walk(c.args[0]))]
    if not waited:
        raise AnalysisError("anchor=session wait set (asyncio.wait(<pending> | <conn>.extra_workers)) not found")
    wanted = {src(x) for x in ast.walk(waited[0]) if isinstance(x, (ast.Name, ast.Attribute)) and not isinstance(p.parent.get(x), ast.Attribute)}
    want_all = {"all:" + w for w in wanted}
    cancel_ok = False
    for s in fin:
        for l in ast.walk(s):
            if isinstance(l, ast.For) and isinstance(l.target, ast.Name):
                cancels = any(is_method_call(c, "cancel") and isinstance(c.func.value, ast.Name) and c.func.value.id == l.target.id for c in ast.walk(l))
                if cancels and want_all <= elements_of(p, d, l.iter):
                    cancel_ok = True
    ctx.ob("C12.FIELDS", tr, f"every task of the session's wait set ({sorted(wanted)}) is cancelled by the cleanup", cancel_ok,
           "dispatcher cleanup: tasks cancelled - missing (not every task of pending | extra_workers is cancelled)", construct="finally:tasks cancelled", function=p.qualname(d))
    awaited = False
    for s in fin:
        for a in ast.walk(s):
            if isinstance(a, ast.Await) and isinstance(a.value, ast.Call) and (dotted(a.value.func) or "").split(".")[-1] in ("wait", "gather"):
                got = set()
                for z in a.value.args:
                    got |= elements_of(p, d, z)
                if want_all <= got:
                    awaited = True
    # ... and that await is reached whenever there is something to wait for: guarded by nothing but the truthiness of the awaited collection itself
    for s in fin:
        for a in ast.walk(s):
            if isinstance(a, ast.Await) and isinstance(a.value, ast.Call) and (dotted(a.value.func) or "").split(".")[-1] in ("wait", "gather"):
                arg_names = {x.id for z in a.value.args for x in ast.walk(z) if isinstance(x, ast.Name)}
                for t, pol in flat_conditions(p, a, d):
                    if not (pol and isinstance(t, ast.Name) and t.id in arg_names) and not (not pol and is_loop_closed(t)):
                        awaited = False
    ctx.ob("C12.FIELDS", tr, "the cancelled tasks are awaited before the dispatcher returns", awaited,
           "dispatcher cleanup: cancelled tasks awaited - missing (tasks may still run after the session is gone)", construct="finally:cancelled tasks awaited", function=p.qualname(d))
    # table entry popped at top level of the finally
    pops = [s for s in fin if isinstance(s, ast.Expr) and isinstance(s.value, ast.Call) and is_method_call(s.value, "pop", "connections")]
    dels = [s for s in fin if isinstance(s, ast.Delete) and any(isinstance(t, ast.Subscript) and last_attr(t.value) == "connections" for t in s.targets)]
    ctx.ob("C12.FIELDS", tr, "the session is removed from the server's connection table unconditionally", bool(pops or dels),
           "dispatcher cleanup: session removed from the table - missing or conditional", construct="finally:session removed from the table", function=p.qualname(d))
    # nothing that may raise/suspend precedes the releases in the finally (an await before them could be cancelled)
    first_await = None
    for i, s in enumerate(fin):
        if may_suspend_node(p, s, d):
            first_await = i
            break
    release_idx = [i for i, s in enumerate(fin) for c in ast.walk(s) if isinstance(c, ast.Call) and (is_method_call(c, "close") or is_method_call(c, "pop", "connections") or is_method_call(c, "cancel"))]
    ok = first_await is None or (release_idx and first_await > max(release_idx))
    ctx.ob("C12.FIELDS", tr, "no suspension point precedes the releases in the cleanup", ok,
           "the cleanup awaits before it has released everything: a cancellation (server shutdown) at that await skips the remaining releases",
           construct="finally:await before releases", function=p.qualname(d))
    # the try covers every statement after the first task creation / table insert
    idx_try = d.body.index(tr)
    first_task = next((i for i, s in enumerate(d.body) if any(isinstance(c, ast.Call) and (dotted(c.func) or "").split(".")[-1] in ("create_task", "ensure_future") for c in walk_self(s))), None)
    bad = None
    if first_task is not None and first_task < idx_try:
        for s in d.body[first_task + 1: idx_try]:
            if any(isinstance(x, ast.Await) for x in walk_self(s)):
                bad = s
    ctx.ob("C12.FIELDS", bad if bad is not None else tr, "no suspension point lies between the first task creation and the try/finally", bad is None,
           "a suspension point lies between task creation and the try/finally: a disconnect there leaks the tasks and the table entry",
           construct="gap before try", function=p.qualname(d))
    ctx.floor("C12.FIELDS", 7)


def is_done(t, conn, field):
    return (isinstance(t, ast.Call) and isinstance(t.func, ast.Attribute) and t.func.attr == "done"
            and isinstance(t.func.value, ast.Attribute) and t.func.value.attr == field and src(t.func.value.value) == f"{conn}.future")


def is_loop_closed(t):
    return isinstance(t, ast.Call) and isinstance(t.func, ast.Attribute) and t.func.attr == "is_closed"


def rule_detach(ctx):
    ctx.rule("C12.DETACH", "after a worker detaches the data stream, the first suspending construct is the stream's own context")
    check_detach(ctx, "C12.DETACH")


def rule_forget_closed(ctx):
    p = ctx.p
    ctx.rule("C12.FORGET", "a handler that closes a session's stream/listener also forgets it (`del <session>.<field>`): the presence future of a closed stream would make the "
                           "next accept callback close the NEW connection and the next transfer run on the closed one")
    fields = closable_fields(p)
    n = 0
    for verb, name, h in p.handlers():
        conn = p.handler_params(h)[0]
        for c in walk_no_nested(h):
            if isinstance(c, ast.Call) and is_method_call(c, "close") and isinstance(c.func.value, ast.Attribute) and isinstance(c.func.value.value, ast.Name) \
                    and c.func.value.value.id == conn and c.func.value.attr in fields:
                n += 1
                f_ = c.func.value.attr
                st = p.enclosing_stmt(c)
                blk = p.parent.get(st)
                body = next((getattr(blk, fld) for fld in ("body", "orelse", "finalbody") if st in getattr(blk, fld, [])), [])
                later = body[body.index(st) + 1:] if st in body else []
                ok = any(isinstance(x, ast.Delete) and any(src(t) == f"{conn}.{f_}" for t in x.targets) for x in later)
                ctx.ob("C12.FORGET", c, f"{name}: `{src(c)}` is followed by `del {conn}.{f_}`", ok,
                       f"{name} closes {conn}.{f_} but keeps its presence future: the session still 'has' a data connection - the next accepted one is closed by the accept callback "
                       "and the next transfer is attempted on the closed stream", construct=f"forget:{name}:{f_}")
    if n < 2:
        ctx.floor_errors.append(f"rule=C12.FORGET: {n} close sites in handlers (floor 2)")


def rule_replace(ctx):
    p = ctx.p
    ctx.rule("C12.REPLACE", "a closable session field is dropped only after close() (or captured by a worker); the accept callback closes a surplus connection")
    fields = closable_fields(p)
    srv = p.trees["server.py"]
    n_inst = 0
    for n in ast.walk(srv):
        if not isinstance(n, ast.Delete):
            continue
        for t in n.targets:
            if isinstance(t, ast.Attribute) and t.attr in fields and isinstance(t.value, ast.Name):
                fn = p.enclosing_function(n)
                n_inst += 1
                blk = p.parent[n]
                sibs = None
                for fld in ("body", "orelse", "finalbody"):
                    if n in getattr(blk, fld, []):
                        sibs = getattr(blk, fld)
                prev = sibs[:sibs.index(n)] if sibs else []
                closed = any(isinstance(c, ast.Call) and is_method_call(c, "close") and src(c.func.value) == src(t) for s in prev for c in walk_self(s))
                captured = any(isinstance(s, ast.Assign) and src(s.value) == src(t) for s in walk_no_nested(fn))
                ctx.ob("C12.REPLACE", n, f"{fn.name}: `del {src(t)}` is preceded by close() or the value was captured by the worker", closed or captured,
                       f"`{src(t)}` dropped from the session without being closed or captured: the socket stays open", construct=f"{fn.name}:del {t.attr} without close")
    # stores that overwrite a present closable field: must be guarded by absence (not done) or preceded by close
    for f_, stores in fields.items():
        for st in stores:
            fn = p.enclosing_function(st)
            tgt = st.targets[0]
            conn = tgt.value.id
            guards = all_guards(p, st, fn)
            absent = any((not pol) and is_done(t, conn, f_) for t, pol in guards)
            n_inst += 1
            ctx.ob("C12.REPLACE", st, f"{p.qualname(fn)}: `{src(tgt)}` is assigned only when the field is absent", absent,
                   f"{p.qualname(fn)}: `{src(tgt)}` is overwritten although a previous listener/stream may still be open there (it is never closed)",
                   construct=f"{p.qualname(fn)}:overwrite {f_}")
            # the absent-branch's sibling (present) in an accept callback must close the surplus writer
            if fn.name != p.dispatcher().name and len(fn.args.args) == 2 and p.enclosing_function(fn) is not None:
                w = fn.args.args[1].arg
                surplus = [c for c in walk_no_nested(fn) if isinstance(c, ast.Call) and is_method_call(c, "close") and isinstance(c.func.value, ast.Name) and c.func.value.id == w
                           and any(pol and is_done(t, conn, f_) for t, pol in all_guards(p, c, fn))]
                ctx.ob("C12.REPLACE", fn, f"{p.qualname(fn)}: a surplus accepted connection is closed", bool(surplus),
                       f"{p.qualname(fn)}: a second connection accepted while one is pending is neither stored nor closed", construct=f"{p.qualname(fn)}:surplus not closed")
    if n_inst < 4:
        ctx.floor_errors.append(f"rule=C12.REPLACE: {n_inst} instances (floor 4)")


def rule_tasks(ctx):
    p = ctx.p
    ctx.rule("C12.TASKS", "every create_task is owned by a collection the cleanup cancels and awaits, or awaited with cancellation propagation (gather/await), never only asyncio.wait")
    d = p.dispatcher()
    n = 0
    for mod in ("server.py", "common.py", "pathio.py"):
        for c in ast.walk(p.trees[mod]):
            if not (isinstance(c, ast.Call) and (dotted(c.func) or "") in ("asyncio.create_task", "asyncio.ensure_future", "loop.create_task")):
                continue
            n += 1
            fn = p.enclosing_function(c)
            q = p.enclosing_stmt(c)
            par = p.parent[c]
            var = None
            owner = None
            if isinstance(par, ast.Set):
                owner = "set-display"
                setstmt = p.enclosing_stmt(par)
                if isinstance(setstmt, ast.Assign) and isinstance(setstmt.targets[0], ast.Name):
                    var = setstmt.targets[0].id
            elif isinstance(par, ast.Call) and isinstance(par.func, ast.Attribute) and par.func.attr in ("add", "append") :
                owner = "added"
                var = src(par.func.value)
            elif isinstance(par, ast.List):
                owner = "list-display"
                st = p.enclosing_stmt(par)
                if isinstance(st, ast.Assign) and isinstance(st.targets[0], ast.Name):
                    var = st.targets[0].id
            elif isinstance(q, ast.Assign) and isinstance(q.targets[0], ast.Name) and q.value is c:
                t = q.targets[0].id
                for u in walk_no_nested(fn):
                    if isinstance(u, ast.Call) and isinstance(u.func, ast.Attribute) and u.func.attr in ("add", "append") and u.args and isinstance(u.args[0], ast.Name) and u.args[0].id == t:
                        owner = "added"
                        var = src(u.func.value)
                    if isinstance(u, (ast.List, ast.Set)) and any(isinstance(x, ast.Name) and x.id == t for x in u.elts):
                        st_ = p.enclosing_stmt(u)
                        if isinstance(st_, ast.Assign) and isinstance(st_.targets[0], ast.Name):
                            owner = "list-display"
                            var = st_.targets[0].id
            verdict, why = False, "task is neither owned by the session nor awaited"
            if owner is not None and var is not None:
                base = var.split(".")[-1]
                if base == "extra_workers" or (fn is d and _cleanup_covers(p, d, base)):
                    verdict, why = True, f"owned by session collection `{var}` which the cleanup cancels/awaits"
                else:
                    # local collection: how is it awaited?
                    awaits = [a for a in walk_no_nested(fn) if isinstance(a, ast.Await) and isinstance(a.value, ast.Call)
                              and any(isinstance(x, ast.Name) and x.id == base for z in a.value.args for x in ast.walk(z))]
                    kinds = {(dotted(a.value.func) or "").split(".")[-1] for a in awaits}
                    if "gather" in kinds or "TaskGroup" in src(fn):
                        verdict, why = True, "awaited with gather (propagates cancellation)"
                    elif "wait" in kinds:
                        members_cancelled = any(is_method_call(x, "cancel") for x in walk_no_nested(fn) if isinstance(x, ast.Call))
                        in_finally = any(isinstance(t, ast.Try) and t.finalbody and any(is_method_call(x, "cancel") for s in t.finalbody for x in ast.walk(s) if isinstance(x, ast.Call))
                                         for t in walk_no_nested(fn))
                        if fn.name == "close" and members_cancelled:
                            verdict, why = True, "Server.close cancels the dispatchers before waiting"
                        elif in_finally:
                            verdict, why = True, "cancelled in a finally"
                        else:
                            why = "child tasks are awaited with asyncio.wait(), which does not cancel them when the waiting coroutine is cancelled; they outlive the session"
            elif isinstance(par, ast.Await):
                verdict, why = True, "awaited directly"
            cons = f"{fn.name}:create_task+asyncio.wait" if "asyncio.wait()" in why else f"{fn.name}:orphan task:{src(c)[:50]}"
            ctx.ob("C12.TASKS", c, f"{p.qualname(fn)}: `{src(c)[:50]}` - {why}", verdict, f"{p.qualname(fn)}: {why}", construct=cons)
    ctx.floor("C12.TASKS", 8, "task creations")


def _cleanup_covers(p, d, name):
    """the dispatcher cleanup cancels+collects members of `name`, or appends to the awaited list `name`"""
    _, tr = p.dispatcher_try()
    for s in tr.finalbody:
        for l in ast.walk(s):
            if isinstance(l, ast.For) and any(isinstance(x, ast.Name) and x.id == name for x in ast.walk(l.iter)) and any(is_method_call(c, "cancel") for c in ast.walk(l) if isinstance(c, ast.Call)):
                return True
        for a in ast.walk(s):
            if isinstance(a, ast.Await) and isinstance(a.value, ast.Call) and any(isinstance(x, ast.Name) and x.id == name for z in a.value.args for x in ast.walk(z)):
                return True
    return False


def rule_close(ctx):
    p = ctx.p
    ctx.rule("C12.CLOSE", "Server.close closes the listening server, cancels every dispatcher of the table and awaits them all")
    cl = p.method("Server", "close")
    closes = any(is_method_call(c, "close", "server") for c in walk_no_nested(cl) if isinstance(c, ast.Call))
    ctx.ob("C12.CLOSE", cl, "the listening server is closed", closes, "Server.close: listening server closed - missing", construct="close:listening server closed")
    loop_ok = False
    for l in walk_no_nested(cl):
        if isinstance(l, ast.For) and isinstance(l.target, ast.Name):
            els = elements_of(p, cl, l.iter)
            over_conns = any(e.startswith("all:") and "connections" in e for e in els)
            over_disp = any(e.startswith(("each:", "item:")) and "_dispatcher" in e and "connections" in e for e in els)
            canc = [c for c in ast.walk(l) if isinstance(c, ast.Call) and is_method_call(c, "cancel")
                    and ((over_conns and last_attr(c.func.value) == "_dispatcher") or (over_disp and src(c.func.value) == l.target.id))]
            if canc and not any(isinstance(x, (ast.If, ast.Break, ast.Continue, ast.Try)) for x in ast.walk(l)):
                loop_ok = True
    ctx.ob("C12.CLOSE", cl, "every dispatcher in the connection table is cancelled", loop_ok, "Server.close: dispatchers cancelled - missing or conditional", construct="close:dispatchers cancelled")
    awaited = False
    for a in walk_no_nested(cl):
        if isinstance(a, ast.Await) and isinstance(a.value, ast.Call) and (dotted(a.value.func) or "").split(".")[-1] in ("wait", "gather"):
            got = set()
            for z in a.value.args:
                got |= elements_of(p, cl, z)
            # the dispatcher of every table entry: a comprehension over the table / an unconditional append inside a loop over it
            if any(e.startswith("each:") and "_dispatcher" in e and "connections" in e for e in got):
                awaited = True
    ctx.ob("C12.CLOSE", cl, "the cancelled dispatchers are awaited", awaited, "Server.close: dispatchers awaited - missing", construct="close:dispatchers awaited")
    wc = any(isinstance(c, ast.Call) and is_method_call(c, "wait_closed") for c in walk_no_nested(cl))
    ctx.ob("C12.CLOSE", cl, "close waits for the listening server to be closed (wait_closed)", wc, "Server.close no longer waits for the listener to close", construct="close:wait_closed")
    # the dispatcher registers itself: `_dispatcher=<current task>` in the session constructor, and inserts into the table before the try
    ctor = p.session_ctor()
    reg = any(k.arg == "_dispatcher" and isinstance(k.value, ast.Call) for k in ctor.keywords)
    ctx.ob("C12.CLOSE", ctor, "the session records its dispatcher task (so that close() can cancel it)", reg, "the session does not record its dispatcher task", construct="ctor:_dispatcher")


def rule_file(ctx):
    p = ctx.p
    ctx.rule("C12.FILE", "backend files are used only as `async with` items; AsyncPathIOContext.__aexit__ awaits close whenever __aenter__ opened")
    srv = p.trees["server.py"]
    n = 0
    for c in ast.walk(srv):
        if isinstance(c, ast.Call) and isinstance(c.func, ast.Attribute) and c.func.attr == "open" and last_attr(c.func.value) == "path_io":
            n += 1
            fn = p.enclosing_function(c)
            par = p.parent[c]
            ok = isinstance(par, ast.withitem)
            if isinstance(par, ast.Assign) and isinstance(par.targets[0], ast.Name):
                v = par.targets[0].id
                ok = any(isinstance(w, ast.AsyncWith) and any(isinstance(i.context_expr, ast.Name) and i.context_expr.id == v for i in w.items) for w in walk_no_nested(fn))
                ok = ok and not any(isinstance(a, ast.Await) and isinstance(a.value, ast.Name) and a.value.id == v for a in walk_no_nested(fn))
            ctx.ob("C12.FILE", c, f"{fn.name}: the opened backend file is managed by `async with`", ok,
                   f"{fn.name}: backend file is opened but not managed by `async with` (it is not closed when the transfer fails or is cancelled)",
                   construct=f"{fn.name}:open without async with")
    ctx.floor("C12.FILE", 2, "server open sites")
    ae = p.method("AsyncPathIOContext", "__aexit__")
    aen = p.method("AsyncPathIOContext", "__aenter__")
    awaits_close = [a for a in walk_no_nested(ae) if isinstance(a, ast.Await) and isinstance(a.value, ast.Call) and last_attr(a.value.func) == "close"]
    ok = bool(awaits_close)
    for a in awaits_close:
        guards = all_guards(p, a, ae)
        for t, pol in guards:
            is_presence = isinstance(t, ast.Compare) and last_attr(t.left) == "close" and isinstance(t.ops[0], (ast.IsNot, ast.Is))
            if not is_presence:
                ok = False
    for a in awaits_close:
        q = p.parent.get(a)
        while q is not None and q is not ae:
            if isinstance(q, ast.Try) and q.handlers:
                ok = False   # a close() failure would be swallowed or filtered
            q = p.parent.get(q)
    ctx.ob("C12.FILE", ae, "__aexit__ awaits close() guarded only by 'close was bound', outside any try/except (a close failure propagates)", ok,
           "AsyncPathIOContext.__aexit__ does not close the file on every exit (close missing or conditional on the exception)", construct="__aexit__:close")
    # in __aenter__: close bound after the open without a suspension point in between, and bound to the backend's close of that file
    stmts = aen.body
    open_i = next((i for i, s in enumerate(stmts) if any(isinstance(x, ast.Await) for x in walk_self(s)) and "_open" in src(s)), None)
    close_i = next((i for i, s in enumerate(stmts) if isinstance(s, ast.Assign) and last_attr(s.targets[0]) == "close"), None)
    ok = open_i is not None and close_i is not None and close_i > open_i and not any(may_suspend_node(p, s, aen) for s in stmts[open_i + 1: close_i + 1])
    ctx.ob("C12.FILE", aen, "__aenter__ binds close right after the open, with no suspension point in between", ok,
           "AsyncPathIOContext.__aenter__: a suspension point lies between opening the file and binding close (a cancellation there leaks the file)",
           construct="__aenter__:close binding")
    if close_i is not None:
        v = stmts[close_i].value
        good = isinstance(v, ast.Call) and (dotted(v.func) or "").endswith("partial") and len(v.args) == 2 and last_attr(v.args[0]) == "close" and last_attr(v.args[1]) == "file"
        ctx.ob("C12.FILE", stmts[close_i], "close is bound to the backend's close of the opened file", good,
               f"close is bound to `{src(v)}`, not to the backend's close of the opened file", construct="__aenter__:close target")


def rule_timeout_ends(ctx):
    from .c16 import rule_end
    ctx.rule("C12.TIMEOUT", "a timeout ends the session and runs the clean-up: the dispatcher does not swallow TimeoutError and carry on with a stalled peer's resources (shared with C16.END)")
    ctx.borrow(rule_end, {"C16.END": "C12.TIMEOUT"})


def rule_open_factory(ctx):
    p = ctx.p
    ctx.rule("C12.OPEN", "path_io.open() only builds the file context (all I/O happens when the context is entered): the transfer workers call it between detaching the data "
                         "stream and protecting it with `async with`, so it must not be able to fail - no backend overrides it, and the base implementation only constructs the context")
    base = p.methods("AbstractPathIO").get("open")
    if base is None:
        raise AnalysisError("anchor=AbstractPathIO.open not found")
    body = [s_ for s_ in base.body if not (isinstance(s_, ast.Expr) and isinstance(s_.value, ast.Constant))]
    ok = len(body) == 1 and isinstance(body[0], ast.Return) and isinstance(body[0].value, ast.Call) and last_attr(body[0].value.func) == "AsyncPathIOContext" \
        and not isinstance(base, ast.AsyncFunctionDef)
    ctx.ob("C12.OPEN", base, "AbstractPathIO.open is `return AsyncPathIOContext(self, args, kwargs)`", ok,
           "AbstractPathIO.open does more than constructing the context: it can fail after the worker detached the data connection and before the stream is protected",
           construct="open:base does I/O")
    for b in p.backends():
        over = p.methods(b).get("open")
        ctx.ob("C12.OPEN", over if over is not None else p.cls(b), f"{b} does not override open()", over is None,
               f"{b} overrides the synchronous open() factory: a failure there (missing file) happens after the worker took the data connection out of the session and before "
               "`async with stream, file` - nothing closes that socket any more (not even Server.close())", construct=f"open:{b} overrides")
    w = p.wrapper_of("universal_exception") if ("pathio.py", "universal_exception") in p.module_funcs else None
    if w is not None:
        from .c13 import rule_univ
        ctx.borrow(rule_univ, {"C13.UNIV": "C12.OPEN"}, only=lambda fn: "universal_exception" in fn)


def rule_borrowed_r4(ctx):
    from .c14 import rule_exit
    ctx.rule("C12.EXIT", "leaving a data stream's context only closes it: __aexit__ waits for nothing (a wait for the peer to drain the buffer never ends when the peer is gone - "
                         "the cancelled worker and Server.close() hang; shared with C14.EXIT)")
    ctx.borrow(rule_exit, {"C14.EXIT": "C12.EXIT"})


def rule_join(ctx):
    p = ctx.p
    ctx.rule("C12.JOIN", "the session end waits for the reply queue with `await <queue>.join()`: the writer marks every item it took as done whatever the write did "
                         "(task_done() on every path out of the iteration, the failing write included) - otherwise a reply that cannot be written leaves the dispatcher "
                         "in join() for ever, with the session's table entry, listener and slots")
    srv = p.trees["server.py"]
    # names that hold a queue: assigned from `<...>Queue(...)`, or the parameter such a name is passed to
    qnames = {t.id for a in ast.walk(srv) if isinstance(a, ast.Assign) and isinstance(a.value, ast.Call) and (dotted(a.value.func) or "").endswith("Queue")
              for t in a.targets if isinstance(t, ast.Name)}
    S = p.methods("Server")
    for c in ast.walk(srv):
        if isinstance(c, ast.Call) and is_self_call(c, set(S)):
            params = [a.arg for a in S[c.func.attr].args.args][1:]
            for k, a in enumerate(c.args):
                if isinstance(a, ast.Name) and a.id in qnames and k < len(params):
                    qnames.add(params[k])

    def is_queue(e):
        return src(e) in qnames or "queue" in src(e).lower()
    joins = [c for c in ast.walk(srv) if isinstance(c, ast.Call) and is_method_call(c, "join") and not c.args and isinstance(p.parent.get(c), ast.Await)
             and is_queue(c.func.value)]
    consumers = []
    for fn in ast.walk(srv):
        if isinstance(fn, ast.AsyncFunctionDef):
            gets = [c for c in walk_no_nested(fn) if isinstance(c, ast.Call) and is_method_call(c, "get") and not c.args and is_queue(c.func.value)]
            if gets:
                consumers.append((fn, gets))
    if not joins:
        ctx.ob("C12.JOIN", srv, "no `await <queue>.join()` in server.py: nothing waits for the writer through the queue counter", True)
        return
    if not consumers:
        raise AnalysisError("anchor=reply queue consumer (`await <queue>.get()`) not found")

    def may_raise(n):
        return ["*"] if any(isinstance(x, ast.Await) for x in ast.walk(n)) else []
    for fn, gets in consumers:
        q = src(gets[0].func.value)
        loops = [l for l in walk_no_nested(fn) if isinstance(l, ast.While) and any(g is x for g in gets for x in ast.walk(l))]
        body = loops[0].body if loops else fn.body
        n_paths = bad = 0
        worst = None
        for ev, out in Cfg(may_raise, p.issub, unroll=1, bonus=False).seq(body):
            seen_get = done = False
            for e in ev:
                if e[0] == "stmt":
                    calls = [c for c in walk_self(e[1]) if isinstance(c, ast.Call)]
                    if any(c is g for c in calls for g in gets):
                        seen_get = True
                    elif seen_get and any(is_method_call(c, "task_done") and src(c.func.value) == q for c in calls):
                        done = True
            if not seen_get:
                continue
            n_paths += 1
            if not done:
                bad += 1
                worst = worst or (out, next((e[2] for e in reversed(ev) if e[0] == "exc"), None))
        how = ""
        if worst:
            out, at = worst
            how = f"leaves by {out[0]}" + (f" from `{src(at)[:50]}`" if at is not None else "")
        ctx.ob("C12.JOIN", fn, f"{p.fn_of(gets[0])}: every path after `{q}.get()` reaches `{q}.task_done()` ({n_paths} paths, exceptional ones included)", n_paths > 0 and not bad,
               f"{p.fn_of(gets[0])}: {bad} of {n_paths} paths after `{q}.get()` never call `{q}.task_done()` ({how}): when the write fails the queue counter stays up and "
               f"`await {src(joins[0].func.value)}.join()` at line {joins[0].lineno} never returns - the session is never cleaned up", construct=f"join:{fn.name}:item not marked done")


def rule_close_cannot_fail(ctx):
    p = ctx.p
    ctx.rule("C12.NOFAIL", "closing a stream cannot fail: StreamIO.close() does nothing before `writer.close()` (the dispatcher's clean-up closes the control stream BEFORE it returns "
                           "the slots and leaves the table - a close() that raises on a reset socket skips all of that)")
    cl = p.method("StreamIO", "close")
    body = [s_ for s_ in cl.body if not (isinstance(s_, ast.Expr) and isinstance(s_.value, ast.Constant))]
    closes = [k for k, s_ in enumerate(body) if isinstance(s_, ast.Expr) and isinstance(s_.value, ast.Call) and is_method_call(s_.value, "close") and src(s_.value.func.value) == "self.writer"]
    before = [x for s_ in (body[:closes[0]] if closes else body) for x in ast.walk(s_) if isinstance(x, (ast.Call, ast.Await, ast.Raise))]
    ctx.ob("C12.NOFAIL", cl, "StreamIO.close() calls writer.close() first", bool(closes) and not before,
           f"StreamIO.close() runs `{src(before[0])[:50] if before else ''}` before (or instead of) `writer.close()`: on a connection the peer has reset this raises inside the "
           "dispatcher's `finally`, and the session's slots, table entry and listener are never released", construct="close:work before writer.close()")
    for sub in [c for c in p.classes if c != "StreamIO" and "StreamIO" in p.mro(c)]:
        over = p.methods(sub).get("close")
        ctx.ob("C12.NOFAIL", over if over is not None else p.cls(sub), f"{sub} does not override close()", over is None, f"{sub} overrides close()", construct=f"close:{sub} overrides")


RULES = [rule_join, rule_close_cannot_fail, rule_fields, rule_detach, rule_replace, rule_tasks, rule_close, rule_file, rule_timeout_ends, rule_open_factory, rule_borrowed_r4, rule_forget_closed]
