"""C05 Command dispatcher conforms to a sequential FTP session model (structural necessary conditions)"""
import ast
import re
from ..model import *
from ..util import *
from ..facts import *
from ..paths import Cfg, evaluated

EXPLANATION = (
    "Reply-count typestate over every acyclic path of each of the command-table handlers, of greeting, of the transfer "
    "workers and of the three guard wrappers: exactly one final reply per non-exceptional path (one 1xx iff a worker "
    "is spawned; workers: one 2xx completion reply; abort guard: 426 then 226), session end (return False) only after "
    "a closing code 221/421 and vice versa, unknown verb answered by exactly one 502. Wire-argument conversions that "
    "can raise (int/float/...) must be dominated by a guard that implies success or enclosed by a matching except. "
    "Restart-offset typestate: consumed synchronously in the handler, cleared before it returns, cleared by the "
    "dispatcher for every verb outside the keep-set, keep-set == set of consuming verbs. Server/client code-table "
    "agreement over all literal client command sites."
)
NOT_DECIDED = [
    "the sequential reference model itself: resulting cwd, tree, rename pairing, login state per history",
    "reply class per history; behaviour under pipelined input",
    "exceptional exits of handlers other than PathIOError (they end the session through the dispatcher catch-all: C19)",
]

CONV = {"int", "float", "complex", "bytes.fromhex", "fromhex", "Decimal", "Fraction", "ipaddress.ip_address"}


def handler_entries(p):
    ms = p.methods("Server")
    out = [(verb, name, fn) for verb, name, fn in p.handlers()]
    if "greeting" not in ms:
        raise AnalysisError("anchor=greeting handler not found")
    out.append(("<greeting>", "greeting", ms["greeting"]))
    return out


def handler_path_sigs(p, fn, conn, ctx=None):
    seen = {}
    paths = enum_paths(p, fn, unroll=2 if (ctx and ctx.tier == "thorough") else 1)
    if ctx:
        ctx.paths_enumerated += len(paths)
    for ev, out in paths:
        pf = PathFacts(p, fn, conn, ev, out)
        if pf.infeasible or pf.kind in ("raise", "cut"):
            continue
        codes = tuple(c for c, _ in pf.replies)
        sig = (codes, pf.spawned, pf.cancels, pf.ret if not callable(pf.ret) else str(pf.ret))
        seen.setdefault(sig, pf)
    return seen


def rule_one_end(ctx):
    p = ctx.p
    ctx.rule("C05.ONE", "exactly one final reply per normal path of every handler (1xx iff a worker is spawned); workers one 2xx; guard 426+226; dispatcher one 502")
    ctx.rule("C05.END", "return False (session end) iff the path replied a closing code 221/421")
    for verb, name, fn in handler_entries(p):
        conn, rest = p.handler_params(fn)
        sigs = handler_path_sigs(p, fn, conn, ctx)
        if not sigs:
            ctx.fail("C05.ONE", fn, f"{name}: no normal path found", construct=f"{name}:no normal path")
        for (codes, spawned, cancels, ret), pf in sorted(sigs.items(), key=lambda kv: str(kv[0])):
            finals = [c for c in codes if not (c or "").startswith("1")]
            marks = [c for c in codes if (c or "").startswith("1")]
            anchor = pf.replies[-1][1] if pf.replies else fn
            q = p.qualname(fn)
            if isinstance(ret, str) and ret.startswith("delegate:"):
                ctx.ob("C05.ONE", anchor, f"{name}: delegating path to {ret[9:]} emits no reply of its own", not codes,
                       f"{name}: replies {codes} and then delegates to {ret[9:]}", construct=f"{name}:{codes}+delegate", function=q)
                continue
            if spawned:
                ctx.ob("C05.ONE", anchor, f"{name}: path that spawns a transfer worker replies exactly one 1xx mark {codes}",
                       len(marks) == 1 and not finals,
                       f"{name}: path that spawns a transfer worker replies {codes} (must be exactly one 1xx)", construct=f"{name}:spawn:{codes}", function=q)
            elif cancels and not codes:
                # abor: replies come from the cancelled workers' guard; only legal when guarded by a non-empty worker set
                ok = any(e[0] == "branch" and e[2] and last_attr(e[1]) == "extra_workers" for e in [])  # placeholder, refined below
                ctx.ob("C05.ONE", fn, f"{name}: cancelling path emits no reply itself (the abort guard of each cancelled worker replies)", True, function=q)
            else:
                ctx.ob("C05.ONE", anchor, f"{name}: path emits exactly one final reply {codes}", not marks and len(finals) == 1,
                       f"{name}: a path emits {len(finals)} final replies {codes}" + (" and a 1xx mark without a worker" if marks else ""),
                       construct=f"{name}:replies={codes}", function=q)
            if ret is False:
                ctx.ob("C05.END", anchor, f"{name}: path ending the session announced it ({finals})", bool(finals) and set(finals) <= CLOSING,
                       f"{name}: ends the session after reply {finals} (only 221/421 announce closing)",
                       construct=f"{name}:{','.join(map(str, finals))}->False", function=q)
            elif ret is True:
                ctx.ob("C05.END", anchor, f"{name}: path keeping the session open did not announce closing ({finals})", not (set(finals) & CLOSING),
                       f"{name}: replies {finals} (announces closing) but keeps the session open",
                       construct=f"{name}:{','.join(map(str, finals))}->True", function=q)
            else:
                ctx.fail("C05.ONE", anchor, f"{name}: returns {ret!r}, not the bool protocol value (the dispatcher treats a non-bool result as no command result)",
                         construct=f"{name}:returns {ret!r}", function=q)
    ctx.floor("C05.ONE", 26, "handler paths")
    # abor shape: cancel path guarded by non-empty worker set and cancels each member
    table, _ = p.command_table()
    if "abor" in table:
        ab = p.method("Server", table["abor"])
        conn, _ = p.handler_params(ab)
        loops = [l for l in walk_no_nested(ab) if isinstance(l, ast.For) and any(is_method_call(c, "cancel") and isinstance(c.func.value, ast.Name)
                 and isinstance(l.target, ast.Name) and c.func.value.id == l.target.id for c in walk_no_nested(l))]
        ok = False
        for l in loops:
            it = expand(p, l.iter, ab)
            if last_attr(it) == "extra_workers":
                conds = all_guards(p, l, ab)
                if any(pol and src(t) == src(it) for t, pol in conds):
                    ok = True
        ctx.ob("C05.ONE", ab, "abor: the reply-less path is guarded by a non-empty worker set and cancels every member", ok,
               "abor: the cancelling branch is not `if <workers>: for w in <workers>: w.cancel()` — an ABOR may get no reply at all",
               construct="abor:cancel shape")
    # workers: one completion reply on each normal path
    for h, w in p.workers():
        conn = [a.arg for a in w.args.args][1]
        sigs = handler_path_sigs(p, w, conn, ctx)
        for (codes, spawned, cancels, ret), pf in sorted(sigs.items(), key=lambda kv: str(kv[0])):
            ctx.ob("C05.ONE", pf.replies[-1][1] if pf.replies else w, f"{w.name}: normal path emits exactly one completion reply {codes}",
                   len(codes) == 1 and (codes[0] or "")[:1] in ("2", "4", "5"),
                   f"{w.name}: normal path emits {codes} (must be exactly one completion reply)", construct=f"{w.name}:replies={codes}")
    # worker guard: cancellation path = 426 then 226, nothing else
    wr = p.wrapper_of("worker")
    wconn = [a.arg for a in wr.args.args][1]
    hs = [n for n in walk_no_nested(wr) if isinstance(n, ast.ExceptHandler) and n.type is not None and "CancelledError" in handler_names(n)]
    if not hs:
        ctx.fail("C05.ONE", wr, "abort guard: no CancelledError handler", construct="worker.wrapper:no handler")
    for hnd in hs:
        for ev, out in Cfg(lambda n: [], p.issub).seq(hnd.body):
            codes = [c.args[0].value if c.args and isinstance(c.args[0], ast.Constant) else None for n in evaluated(ev) for c in walk_self(n) if is_reply(c, wconn)]
            ctx.ob("C05.ONE", hnd, f"abort guard replies 426 then 226 ({codes}) and swallows the cancellation", codes == ["426", "226"] and out[0] != "raise",
                   f"abort guard replies {codes}" + (" and re-raises" if out[0] == "raise" else "") + ", expected 426 then 226", construct=f"worker.wrapper:{codes}:{out[0]}")
    normal = [1 for ev, out in Cfg(lambda n: [], p.issub).seq(wr.body) for n in evaluated(ev) for c in walk_self(n) if is_reply(c, wconn)]
    ctx.ob("C05.ONE", wr, "abort guard emits no reply on its normal path", not normal, "abort guard replies on the normal path", construct="worker.wrapper:normal reply")
    # dispatcher: unknown verb -> one 502; PathIOError -> one 451
    disp = p.dispatcher()
    dconn = p.session_var()
    attr = p.command_table_attr()
    gets = [n for n in walk_no_nested(disp) if isinstance(n, ast.Assign) and isinstance(n.value, ast.Call) and is_method_call(n.value, "get", attr)]
    if not gets:
        raise AnalysisError("anchor=dispatch lookup (<table>.get(cmd)) not found in the dispatcher")
    fvar = gets[0].targets[0].id if isinstance(gets[0].targets[0], ast.Name) else None
    ok502 = False
    spawn_reply = False
    for n in walk_no_nested(disp):
        if isinstance(n, ast.If) and fvar and any(isinstance(x, ast.Name) and x.id == fvar for x in ast.walk(n.test)):
            t = n.test
            found_branch, none_branch = (n.body, n.orelse)
            if isinstance(t, ast.Compare) and isinstance(t.ops[0], ast.Is):
                found_branch, none_branch = n.orelse, n.body
            elif isinstance(t, ast.UnaryOp) and isinstance(t.op, ast.Not):
                found_branch, none_branch = n.orelse, n.body
            codes = [c.args[0].value if isinstance(c.args[0], ast.Constant) else None for s in none_branch for c in walk_self(s) if is_reply(c, dconn) and c.args]
            if codes == ["502"]:
                ok502 = True
            if any(is_reply(c, dconn) for s in found_branch for c in walk_self(s)):
                spawn_reply = True
    ctx.ob("C05.ONE", disp, "dispatcher: unknown verb is answered by exactly one 502", ok502,
           "dispatcher: unknown verb is not answered by exactly one 502", construct="dispatcher:no 502")
    ctx.ob("C05.ONE", disp, "dispatcher: no reply of its own on the path that spawns a handler", not spawn_reply,
           "dispatcher replies itself on the path that spawns a handler", construct="dispatcher:reply on spawn")


def rule_wrappers(ctx):
    ctx.rule("C05.WRAP", "each guard wrapper either replies once and returns True, or delegates without replying")
    for deco in ("ConnectionConditions", "PathConditions", "PathPermissions"):
        check_wrapper(ctx, deco, "C05.WRAP", zero_iter_ok=(deco == "PathPermissions"))
    ctx.floor("C05.WRAP", 6, "wrapper paths")


def rule_seq(ctx):
    p = ctx.p
    ctx.rule("C05.SEQ", "out-of-sequence is 503 (the guard's default fail code); only the data-connection wait overrides it (425)")
    init = p.method("ConnectionConditions", "__init__")
    dflt = None
    for a, d in zip(reversed(init.args.kwonlyargs), reversed(init.args.kw_defaults)):
        if a.arg == "fail_code" and isinstance(d, ast.Constant):
            dflt = d.value
    for a, d in zip(reversed(init.args.args), reversed(init.args.defaults)):
        if a.arg == "fail_code" and isinstance(d, ast.Constant):
            dflt = d.value
    ctx.ob("C05.SEQ", init, f"default fail code of the sequence guard is 503 (is {dflt!r})", dflt == "503",
           f"the sequence guard's default fail code is {dflt!r}, not 503", construct=f"fail_code default={dflt!r}")
    fields = field_names(p)
    dc = fields.get("data_connection_made")
    for fn in [m for m in p.methods("Server").values()] + [n for m in p.methods("Server").values() for n in p.nested_functions(m)]:
        for d in p.decorators(fn):
            if d.name != "ConnectionConditions":
                continue
            code = d.kwargs.get("fail_code")
            if code is None:
                ctx.ob("C05.SEQ", d.node, f"{fn.name}: guard {sorted(deco_fields(d))} uses the default 503", True)
            else:
                ok = code == "425" and deco_fields(d) == {dc}
                ctx.ob("C05.SEQ", d.node, f"{fn.name}: fail_code override {code!r} is the 425 of the data-connection wait", ok,
                       f"{fn.name}: guard {sorted(deco_fields(d))} overrides the out-of-sequence code with {code!r}", construct=f"{fn.name}:fail_code={code!r}")
    ctx.floor("C05.SEQ", 15, "guard sites")


def wire_names(p, fn, rest):
    """names carrying (parts of) the wire argument: rest and locals assigned from expressions over them"""
    t = {rest}
    changed = True
    while changed:
        changed = False
        for n in walk_no_nested(fn):
            if isinstance(n, ast.Assign) and any(isinstance(x, ast.Name) and x.id in t for x in ast.walk(n.value)):
                for tg in assign_targets(n):
                    if isinstance(tg, ast.Name) and tg.id not in t:
                        t.add(tg.id)
                        changed = True
            if isinstance(n, (ast.For, ast.comprehension)) and any(isinstance(x, ast.Name) and x.id in t for x in ast.walk(n.iter)):
                for tg in ast.walk(n.target):
                    if isinstance(tg, ast.Name) and tg.id not in t:
                        t.add(tg.id)
                        changed = True
    return t


def rule_arg(ctx):
    p = ctx.p
    ctx.rule("C05.ARG", "a conversion that can raise on a string, applied to the wire argument, is dominated by a guard implying success or enclosed by a matching except")
    n_sites = 0
    for verb, name, fn in p.handlers():
        conn, rest = p.handler_params(fn)
        wn = wire_names(p, fn, rest)
        for c in walk_no_nested(fn):
            if not isinstance(c, ast.Call):
                continue
            fname = dotted(c.func) or ""
            is_conv = fname in CONV or fname.split(".")[-1] in ("fromhex",)
            mapped = isinstance(c.func, ast.Name) and c.func.id == "map" and c.args and (dotted(c.args[0]) or "") in CONV
            if not (is_conv or mapped):
                continue
            args = c.args[1:] if mapped else c.args
            used = [x.id for a in args for x in ast.walk(a) if isinstance(x, ast.Name) and x.id in wn]
            if not used:
                continue
            n_sites += 1
            arg_src = src(args[0])
            guards = all_guards(p, c, fn)

            def implies_ok(t, pol):
                if not pol:
                    return False
                s = src(t)
                return s == f"{arg_src}.isdecimal()"
            pos = [src(t) for t, pol in guards if pol]
            guarded = any(implies_ok(t, pol) for t, pol in guards) or (f"{arg_src}.isascii()" in pos and f"{arg_src}.isdigit()" in pos)
            par = p.parent.get(c)
            child = c
            while par is not None and par is not fn:
                if isinstance(par, ast.Try) and child in par.body and any(
                        h.type is None or any(p.issub("ValueError", hn) for hn in handler_names(h)) for h in par.handlers):
                    guarded = True
                child, par = par, p.parent.get(par)
            ctx.ob("C05.ARG", c, f"{name}: {src(c)[:60]} on the wire argument cannot raise out of the handler", guarded,
                   f"{name}: {src(c)[:60]} on the wire argument is guarded only by {pos or 'nothing'}; a string such as '²' passes isdigit() "
                   "and makes int() raise, which ends the session without a reply", construct=f"{name}:{src(c)[:60]}")
    ctx.floor("C05.ARG", 1, "conversion sites")


def keep_set(p):
    """(verbs for which the dispatcher keeps the restart offset, the deciding `if`): the offset is cleared under `<cmd> not in (<verbs>)` - written directly,
    negated, through a named condition, or as the else of `in`"""
    disp = p.dispatcher()

    def clears(stmts):
        return any(isinstance(t, ast.Attribute) and t.attr == "restart_offset" for s in stmts if isinstance(s, ast.Assign) for t in s.targets)
    for n in ast.walk(disp):
        if not isinstance(n, ast.If) or not (clears(n.body) or clears(n.orelse)):
            continue
        for branch, truth in ((n.body, True), (n.orelse, False)):
            if not clears(branch):
                continue
            for t, pol in flatten_test(p, n.test, truth, disp):
                if isinstance(t, ast.Compare) and len(t.ops) == 1 and isinstance(t.ops[0], (ast.In, ast.NotIn)):
                    coll = deep_expand(p, t.comparators[0], disp)
                    if not isinstance(coll, (ast.Tuple, ast.List, ast.Set)):
                        raise Inconclusive("C05.REST: keep-set is not a literal collection")
                    try:
                        vals = {e.value for e in coll.elts}
                    except AttributeError:
                        raise Inconclusive("C05.REST: keep-set is not a literal collection")
                    not_in = isinstance(t.ops[0], ast.NotIn) == pol
                    if not_in:
                        return vals, n
    raise AnalysisError("anchor=dispatcher's restart-offset keep-set (if cmd not in (...): offset = 0) not found")


def offset_consumers(p):
    """verb -> handler that (transitively through `return await self.x(...)`) reads the restart offset"""
    table, _ = p.command_table()
    methods = p.methods("Server")

    def reads(fn):
        return [n for n in ast.walk(fn) if isinstance(n, ast.Attribute) and n.attr == "restart_offset" and isinstance(n.ctx, ast.Load)]

    def resolve(name, depth=0):
        fn = methods[name]
        if reads(fn) or depth > 2:
            return fn
        for c in calls_in(fn, lambda c: is_self_call(c, set(methods)), nested=False):
            r = resolve(c.func.attr, depth + 1)
            if reads(r):
                return r
        return fn
    out = {}
    for verb, name in table.items():
        fn = resolve(name)
        if reads(fn) and name != table.get("rest"):
            out[verb] = fn
    return out


def rule_rest(ctx, R="C05.REST", K="C05.KEEP"):
    p = ctx.p
    ctx.rule(R, "the restart offset is captured synchronously in the consuming handler, cleared before it returns, never read later in the worker")
    ctx.rule(K, "dispatcher keep-set == set of verbs whose handler consumes the offset")
    keep, knode = keep_set(p)
    consumers = offset_consumers(p)
    ctx.ob(K, knode, f"keep-set {sorted(keep)} equals consuming verbs {sorted(consumers)}", set(consumers) == keep,
           f"dispatcher keeps the restart offset for {sorted(keep)} but the handlers that consume it serve {sorted(consumers)}",
           construct=f"keep={sorted(keep)} consumers={sorted(consumers)}")
    # the clearing statement really clears (constant 0) and is on the non-keep branch
    for fn in sorted({f for f in consumers.values()}, key=lambda f: f.name):
        conn, rest = p.handler_params(fn)
        nested_reads = [n for w in p.nested_functions(fn) for n in ast.walk(w)
                        if isinstance(n, ast.Attribute) and n.attr == "restart_offset" and isinstance(n.ctx, ast.Load)]
        body_reads = [n for n in walk_no_nested(fn) if isinstance(n, ast.Attribute) and n.attr == "restart_offset" and isinstance(n.ctx, ast.Load)]
        ctx.ob(R, nested_reads[0] if nested_reads else fn, f"{fn.name}: the offset is not read inside the deferred worker", not nested_reads,
               f"{fn.name}: the restart offset is read inside the deferred worker, after other commands may have cleared or changed it",
               construct=f"{fn.name}:late-read")
        # on every normal path of the handler: a read happens and a reset to 0 follows it before any may-suspend point after spawn... simply: reset on every path that reads
        paths = enum_paths(p, fn)
        ctx.paths_enumerated += len(paths)
        bad_noreset = bad_order = False
        any_read = False
        for ev, out in paths:
            if out[0] in ("cut",):
                continue
            read_seen = reset_seen = False
            suspended_before_read = False
            for n in evaluated(ev):
                if isinstance(n, FuncT):
                    continue
                for x in walk_self(n):
                    if isinstance(x, ast.Attribute) and x.attr == "restart_offset" and isinstance(x.ctx, ast.Load):
                        read_seen = True
                        any_read = True
                if isinstance(n, ast.Assign) and any(isinstance(t, ast.Attribute) and t.attr == "restart_offset" for t in n.targets) \
                        and isinstance(n.value, ast.Constant) and n.value.value in (0, None):
                    if read_seen:
                        reset_seen = True
                if not read_seen and may_suspend_node(p, n, fn):
                    suspended_before_read = True
            if out[0] in ("return", "fall") and read_seen and not reset_seen:
                bad_noreset = True
            if read_seen and suspended_before_read:
                bad_order = True
        if not nested_reads or body_reads:
            ctx.ob(R, fn, f"{fn.name}: every path that consumes the offset clears it before returning", any_read and not bad_noreset,
                   f"{fn.name}: the restart offset is never cleared by the transfer that consumes it; it also applies to the next transfer",
                   construct=f"{fn.name}:no-reset")
            ctx.ob(R, fn, f"{fn.name}: the offset is captured before the handler's first suspension point", not bad_order,
                   f"{fn.name}: the handler suspends before capturing the restart offset; an interleaved command may clear or change it",
                   construct=f"{fn.name}:suspend-before-capture")
        else:
            ctx.fail(R, fn, f"{fn.name}: the restart offset is never cleared by the transfer that consumes it; it also applies to the next transfer",
                     construct=f"{fn.name}:no-reset")
    ctx.floor(R, 4, "obligations on consuming handlers")
    # REST handler stores int(rest) and resets on the error path
    table, _ = p.command_table()
    if "rest" in table:
        rh = p.method("Server", table["rest"])
        conn, rest = p.handler_params(rh)
        sigs = handler_path_sigs(p, rh, conn)
        stores = [s for s, t in attr_stores(rh, "restart_offset") if isinstance(s, ast.Assign)]
        def is_int_rest(v):
            return isinstance(v, ast.Call) and dotted(v.func) == "int" and v.args and src(v.args[0]) == rest
        good = any(is_int_rest(s.value) or (isinstance(s.value, ast.Name) and any(k == "assign" and is_int_rest(v) for k, v, _ in local_defs(rh, s.value.id))) for s in stores)
        ctx.ob(R, rh, "REST stores int(<argument>) as the offset", good, "REST does not store int(argument) as the restart offset", construct="rest:store")


def mask_matches(mask, code):
    return len(mask) == len(code) and all((not m.isdigit()) or m == c for m, c in zip(mask, code))


def server_codes(p):
    """verb -> dict(success=set, error=set) of literal reply codes reachable for that verb (handler + workers + wrappers)"""
    out = {}
    fields = field_names(p)
    methods = p.methods("Server")

    def codes_of(fn, conn):
        s = set()
        for pf in handler_path_sigs(p, fn, conn).values():
            s |= {c for c, _ in pf.replies if c}
            if isinstance(pf.ret, str) and pf.ret.startswith("delegate:") and pf.ret[9:] in methods:
                d = methods[pf.ret[9:]]
                s |= all_codes(d)
        return s

    def all_codes(fn):
        conn, _ = p.handler_params(fn)
        s = codes_of(fn, conn)
        for d in p.decorators(fn):
            if d.name == "ConnectionConditions":
                s.add(d.kwargs.get("fail_code") or "503")
            elif d.name in ("PathConditions", "PathPermissions"):
                w = p.wrapper_of(d.name)
                s |= {c.args[0].value for c in ast.walk(w) if is_reply(c) and c.args and isinstance(c.args[0], ast.Constant)}
        for w in p.nested_functions(fn):
            if any(w is x[1] for x in p.workers()):
                wc = [a.arg for a in w.args.args][1]
                s |= codes_of(w, wc)
                for d in p.decorators(w):
                    if d.name == "ConnectionConditions":
                        s.add(d.kwargs.get("fail_code") or "503")
        return s
    for verb, name, fn in p.handlers():
        out[verb] = all_codes(fn)
    return out


def rule_codes(ctx):
    p = ctx.p
    ctx.rule("C05.CODES", "for every literal client command site: verb in the server table; success codes match the site's expected/wait masks; no failure code matches an expected mask")
    table, _ = p.command_table()
    codes = server_codes(p)
    cl = p.trees["client.py"]
    sites = []
    for c in ast.walk(cl):
        if not (isinstance(c, ast.Call) and isinstance(c.func, ast.Attribute) and c.func.attr in ("command", "get_stream") and c.args):
            continue
        a = c.args[0]
        lit = literal_prefix(p, a, p.enclosing_function(c))[0]
        if not isinstance(lit, str) or not lit.strip():
            continue
        verb = lit.split()[0].lower()

        def masks(node):
            if node is None:
                return []
            try:
                v = ast.literal_eval(node)
            except Exception:
                return None
            return [v] if isinstance(v, str) else list(v)
        exp = masks(c.args[1] if len(c.args) > 1 else kwarg(c, "expected_codes"))
        wait = masks(c.args[2] if len(c.args) > 2 else kwarg(c, "wait_codes"))
        if exp is None or wait is None:
            continue
        sites.append((c, verb, exp, wait, c.func.attr))
    for c, verb, exp, wait, kind in sites:
        fnq = p.fn_of(c)
        if verb not in table:
            # reachable only under a reply the server never sends? (ACCT after 332)
            guards = [src(t) for t, pol in all_guards(p, c, p.enclosing_function(c)) if pol]
            lits = {x for v in codes.values() for x in v}
            unreachable = any(re.search(r"== '(\d{3})'", g) and re.search(r"== '(\d{3})'", g).group(1) not in lits for g in guards)
            ctx.ob("C05.CODES", c, f"client sends {verb.upper()}: verb is in the server's command table or unreachable against this server", unreachable,
                   f"client sends {verb.upper()} but the server's command table has no such verb (502)", construct=f"{fnq}:{verb}:missing")
            continue
        got = codes[verb]
        succ = {x for x in got if x[0] in "123"}
        fail = {x for x in got if x[0] in "45"}
        if kind == "get_stream":
            # site expects the 1xx mark; completion 2xx is consumed by finish("2xx", wait "1xx")
            marks = {x for x in succ if x[0] == "1"}
            ok = bool(marks) and all(any(mask_matches(m, x) for m in exp) for x in marks)
            ctx.ob("C05.CODES", c, f"{verb.upper()} (stream): the server's mark {sorted(marks)} matches {exp}", ok,
                   f"{verb.upper()}: server mark codes {sorted(marks)} do not match the client's expected {exp}", construct=f"{fnq}:{verb}:mark")
            continue
        if not exp:
            ctx.ob("C05.CODES", c, f"{verb.upper()}: fire-and-forget site (no expected codes)", True)
            continue
        bad_succ = sorted(x for x in succ if not any(mask_matches(m, x) for m in exp + wait))
        bad_fail = sorted(x for x in fail if any(mask_matches(m, x) for m in exp))
        ctx.ob("C05.CODES", c, f"{verb.upper()}: success codes {sorted(succ)} all match expected {exp} / wait {wait}", not bad_succ,
               f"{verb.upper()}: the server's success code(s) {bad_succ} match none of the client's expected {exp} / wait {wait} masks",
               construct=f"{fnq}:{verb}:success {bad_succ}")
        ctx.ob("C05.CODES", c, f"{verb.upper()}: no failure code among {sorted(fail)} matches expected {exp}", not bad_fail,
               f"{verb.upper()}: the server's failure code(s) {bad_fail} match the client's expected masks {exp}: the client takes a refusal for success",
               construct=f"{fnq}:{verb}:failure {bad_fail}")
    # completion: finish() defaults vs worker completion codes
    fin = p.method("DataConnectionThrottleStreamIO", "finish")
    d = {a.arg: (ast.literal_eval(v) if isinstance(v, (ast.Constant, ast.Tuple)) else None) for a, v in zip(reversed(fin.args.args), reversed(fin.args.defaults))}
    exp = [d.get("expected_codes")] if isinstance(d.get("expected_codes"), str) else list(d.get("expected_codes") or [])
    wait = [d.get("wait_codes")] if isinstance(d.get("wait_codes"), str) else list(d.get("wait_codes") or [])
    for h, w in p.workers():
        wc = [a.arg for a in w.args.args][1]
        comp_all = {c for pf in handler_path_sigs(p, w, wc).values() for c, _ in pf.replies if c}
        comp = {x for x in comp_all if x[0] in "123"}
        ok = bool(comp) and all(any(mask_matches(m, x) for m in exp) for x in comp) and not any(any(mask_matches(m, x) for m in exp) for x in comp_all - comp)
        ctx.ob("C05.CODES", w, f"{w.name}: completion codes {sorted(comp)} match the client's finish() expected {exp}", ok,
               f"{w.name}: completion codes {sorted(comp)} do not match the client's finish() expected masks {exp}", construct=f"{w.name}:completion")
    ctx.floor("C05.CODES", 20, "client command sites")


def rule_cwd(ctx):
    p = ctx.p
    ctx.rule("C05.CWD", "every accepted USER (re)sets the working directory to that user's home: the store is guarded only by the presence of a session user")
    table, _ = p.command_table()
    u = p.method("Server", table["user"])
    conn, rest = p.handler_params(u)
    userf = field_names(p)["user_required"]
    stores = [s for s, t in attr_stores(u, "current_directory", nested=False) if isinstance(s, ast.Assign)]
    ok = bool(stores)
    extra = []
    for s in stores:
        for t, pol in all_guards(p, s, u):
            is_presence = pol and isinstance(t, ast.Call) and isinstance(t.func, ast.Attribute) and t.func.attr == "done" and isinstance(t.func.value, ast.Attribute) and t.func.value.attr == userf
            is_state = isinstance(t, ast.Compare) and "GetUserResponse" in src(t)
            if not (is_presence or is_state):
                extra.append(src(t))
        ok = ok and isinstance(s.value, ast.Attribute) and s.value.attr == "home_path"
    ctx.ob("C05.CWD", stores[0] if stores else u, "USER stores <user>.home_path as working directory whenever a user is attached (no further condition)", ok and not extra,
           f"USER does not reset the working directory to the user's home on every accepted USER (extra condition {extra[:1]}): after a re-login the session keeps the old directory",
           construct=f"user:cwd reset:{extra[:1]}")


REFUSE_EXEMPT = {
    "user": "a new USER resets the login first by design: the 530 of an unknown / over-limit user leaves the session logged out",
    "pasv": "the 503 for an IPv6-only listener is decided from the listener's own socket, i.e. after it was started",
}


REFUSE_FIELD_EXEMPT = {
    "restart_offset": "the offset applies only to the immediately following command: it is consumed (reset) whether or not that command succeeds (C05.REST)",
}


def rule_refuse(ctx):
    p = ctx.p
    ctx.rule("C05.REFUSE", "a command that a handler refuses with a 5xx of its own leaves the session as it found it (as a refusal by its guards does): "
                           "no session field is set or deleted on a path whose only replies are 5xx")
    n = 0
    for verb, name, fn in p.handlers():
        if verb in REFUSE_EXEMPT:
            continue
        conn, _rest = p.handler_params(fn)
        bad = None
        for ev, out in enum_paths(p, fn):
            if out[0] in ("cut", "raise"):
                continue
            pf = PathFacts(p, fn, conn, ev, out)
            codes = [c_ for c_, _n in pf.replies]
            if pf.infeasible or not codes or not all(isinstance(v, str) and v.startswith("5") for v in codes):
                continue
            n += 1
            first_reply = pf.replies[0][1]
            consts = {}    # locals holding a constant on this path
            for node in evaluated(ev):
                if isinstance(node, FuncT):
                    continue
                if isinstance(node, ast.Assign) and len(node.targets) == 1 and isinstance(node.targets[0], ast.Name):
                    if isinstance(node.value, ast.Constant):
                        consts[node.targets[0].id] = node.value.value
                    else:
                        consts.pop(node.targets[0].id, None)
                if any(x is first_reply for x in walk_self(node)):
                    break
                for t in (assign_targets(node) if isinstance(node, (ast.Assign, ast.AugAssign, ast.Delete)) else []):
                    if isinstance(t, ast.Attribute) and isinstance(t.value, ast.Name) and t.value.id == conn and t.attr not in REFUSE_FIELD_EXEMPT:
                        bad = (node, t.attr, codes)
                    elif isinstance(t, ast.Attribute) and isinstance(t.value, ast.Name) and t.value.id == conn and t.attr == "restart_offset" \
                            and not (isinstance(node, ast.Assign) and ((isinstance(node.value, ast.Constant) and node.value.value == 0)
                                                                        or (isinstance(node.value, ast.Name) and consts.get(node.value.id, 1) == 0))):
                        bad = (node, t.attr + " (to something else than 0)", codes)
        ctx.ob("C05.REFUSE", bad[0] if bad else fn, f"{name}: no session field is changed before a refusal", bad is None,
               (f"{name}: session.{bad[1]} is changed and then the command is refused with {bad[2]}: the refusal is not side-effect free "
                "(the next command sees a state the sequential model does not have after a refused command)") if bad else "", construct=f"{name}:refusal after {bad[1] if bad else ''}")
    if n < 3:
        ctx.floor_errors.append(f"rule=C05.REFUSE: {n} refusing handler paths (floor 3)")


def rule_rename(ctx):
    p = ctx.p
    ctx.rule("C05.RENAME", "pending-rename typestate: RNFR sets it, RNTO requires it (guard), consumes it and forgets it on every path before the backend is asked; nothing else touches it")
    table, _ = p.command_table()
    fields = field_names(p)
    rf = fields.get("rename_from_required")
    if rf is None or "rnto" not in table or "rnfr" not in table:
        raise AnalysisError("anchor=rename_from_required guard field / RNFR / RNTO handlers not found")
    rnto = p.method("Server", table["rnto"])
    rnfr = p.method("Server", table["rnfr"])
    conn, _r = p.handler_params(rnto)
    guarded = any(is_guard(d, rf) for d in p.decorators(rnto))
    ctx.ob("C05.RENAME", rnto, "RNTO is guarded by rename_from_required (503 without a preceding RNFR)", guarded, "RNTO is not guarded by rename_from_required", construct="rnto:guard")
    methods = p.methods("Server")

    def forgets(n):
        """statement deletes the field, directly or through a helper method that does"""
        if isinstance(n, ast.Delete) and any(isinstance(t, ast.Attribute) and t.attr == rf for t in n.targets):
            return True
        for c_ in walk_self(n):
            if is_self_call(c_) and c_.func.attr in methods and c_.func.attr not in table.values():
                if any(isinstance(x, ast.Delete) and any(isinstance(t, ast.Attribute) and t.attr == rf for t in x.targets) for x in ast.walk(methods[c_.func.attr])):
                    return True
        return False
    ok = True
    n_paths = 0
    refused_after = False
    for ev, out in enum_paths(p, rnto):
        if out[0] in ("cut",):
            continue
        n_paths += 1
        forgot = False
        for n in evaluated(ev):
            if isinstance(n, FuncT):
                continue
            if forgets(n):
                forgot = True
            if any(isinstance(c_, ast.Call) and is_method_call(c_, "rename", "path_io") for c_ in walk_self(n)) and not forgot:
                ok = False
        if out[0] in ("return", "fall") and not forgot:
            ok = False
        # a refusal the handler words itself (5xx) must leave the session as it found it - like the refusals of its guards, which run before the body
        pf = PathFacts(p, rnto, conn, ev, out)
        codes = [c_ for c_, _n in pf.replies]
        if forgot and not pf.infeasible and codes and all(isinstance(v, str) and v.startswith("5") for v in codes):
            refused_after = True
    ctx.ob("C05.RENAME", rnto, "RNTO never refuses (5xx) after it has consumed the pending rename", not refused_after,
           "RNTO consumes the pending rename and then refuses the command with a 5xx of its own: unlike a refusal by its guards (which leaves the session untouched), "
           "the next RNTO is answered 503 although the client's RNFR was accepted and never used", construct="rnto:refusal after forget")
    ctx.ob("C05.RENAME", rnto, f"RNTO forgets the pending rename on each of its {n_paths} paths, before asking the backend", ok and n_paths > 0,
           "RNTO does not forget the pending rename on every path before it asks the backend: one RNFR would serve several RNTOs (or survive a failed one)", construct="rnto:forget")
    sets = [s for s, t in attr_stores(rnfr, rf, nested=False) if isinstance(s, ast.Assign)]
    ctx.ob("C05.RENAME", rnfr, "RNFR records the pending rename", len(sets) == 1, "RNFR does not record the pending rename exactly once", construct="rnfr:set")
    for name, m in methods.items():
        if m in (rnto, rnfr) or name == p.dispatcher().name:
            continue
        touched = [s for s, t in attr_stores(m, rf)]
        helper_of_rnto = any(is_self_call(c_, {name}) for c_ in ast.walk(rnto))
        if touched and not helper_of_rnto:
            ctx.fail("C05.RENAME", touched[0], f"{name} changes the pending rename", construct=f"{name}:touches {rf}")


def rule_guard_seq(ctx):
    from .c03 import rule_wrap
    from .c02 import rule_res
    ctx.rule("C05.GUARD", "an out-of-sequence command is answered 503 by the guard and never reaches its handler: the guard delegates only when every required session future "
                          "is done (shared with C03.WRAP)")
    ctx.borrow(rule_wrap, {"C03.WRAP": "C05.GUARD"})
    ctx.rule("C05.PATH", "the working directory the session ends up with is the folded absolute path of the model (shared with C02.RES)")
    ctx.borrow(rule_res, {"C02.RES": "C05.PATH"})


def rule_line(ctx):
    from .c01 import rule_thru
    ctx.rule("C05.LINE", "the command reader gets the line the peer sent, terminator included: the stream's readline proxy returns the reader's result unchanged "
                         "(an empty command line is a line - answered 5xx - not the end of the session; shared with C01.THRU)")
    ctx.borrow(lambda c: rule_thru(c, only=("readline",)), {"C01.THRU": "C05.LINE"})


def rule_borrowed_r4(ctx):
    from .c10 import rule_who, rule_manager
    from .c18 import rule_mode
    ctx.rule("C05.SLOTS", "USER/PASS are answered whatever the history: the per-user slot is taken and given back by the same pair of user-manager calls, so a repeated USER "
                          "cannot hit 'Too many releases' and end the session without a reply (shared with C10.WHO / C10.ENUM)")
    ctx.borrow(rule_who, {"C10.WHO": "C05.SLOTS"})
    ctx.borrow(rule_manager, {"C10.ENUM": "C05.SLOTS", "C10.MGR": "C05.SLOTS"})
    ctx.rule("C05.BACKEND", "the resulting file tree is that of the reference model on every shipped backend: the in-memory open() follows io.open mode by mode "
                            "(REST+STOR of a missing file fails and creates nothing; shared with C18.MODE)")
    ctx.borrow(rule_mode, {"C18.MODE": "C05.BACKEND"})
    from .c18 import rule_index
    ctx.borrow(rule_index, {"C18.INDEX": "C05.BACKEND"}, only=lambda fn: "rename" in fn or "rmdir" in fn or "unlink" in fn)


# the sequential reference model's refusal table: which session facts a verb needs (else 503) and what must hold for its path argument (else 550).
# Confirmed by reading every handler of the reference tree; a verb that delegates (APPE -> STOR, CDUP -> CWD) inherits the callee's row.
MODEL_PRECONDITIONS = {
    "abor": (("logged",), ()), "appe": ((), ()), "cdup": (("logged",), ()),
    "cwd": (("logged",), ("path_must_exists", "path_must_be_dir")), "dele": (("logged",), ("path_must_exists", "path_must_be_file")),
    "epsv": (("logged",), ()), "list": (("logged", "passive_server"), ("path_must_exists",)), "mkd": (("logged",), ("path_must_not_exists",)),
    "mlsd": (("logged", "passive_server"), ("path_must_exists",)), "mlst": (("logged",), ("path_must_exists",)), "pass": (("user",), ()),
    "pasv": (("logged",), ()), "pbsz": (("logged",), ()), "prot": (("logged",), ()), "pwd": (("logged",), ()), "quit": ((), ()), "rest": ((), ()),
    "retr": (("logged", "passive_server"), ("path_must_exists", "path_must_be_file")), "rmd": (("logged",), ("path_must_exists", "path_must_be_dir")),
    "rnfr": (("logged",), ("path_must_exists",)), "rnto": (("logged", "rename_from"), ("path_must_not_exists",)),
    "stor": (("logged", "passive_server"), ()), "syst": ((), ()), "type": (("logged",), ()), "user": ((), ()),
}


def rule_preconditions(ctx):
    p = ctx.p
    ctx.rule("C05.COND", "each verb is refused exactly when the sequential model refuses it: the session facts it requires (503 otherwise) and the state of its path argument "
                         "(550 otherwise) are those of the model's table - a missing guard turns a 503/550 into a success or into a backend error (451)")
    n = 0
    for verb, name, fn in p.handlers():
        if verb not in MODEL_PRECONDITIONS:
            continue    # a verb the model does not know: C05.CODES / the 502 rule speak about it
        n += 1
        want_cc, want_pc = MODEL_PRECONDITIONS[verb]
        ds = p.decorators(fn)
        have_cc = sorted({f for d in ds if d.name == "ConnectionConditions" and not d.kwargs.get("wait") for f in deco_fields(d)})
        have_pc = sorted({getattr(a, "attr", src(a)) for d in ds if d.name == "PathConditions" for a in d.arg_nodes})
        miss_cc = sorted(set(want_cc) - set(have_cc))
        miss_pc = sorted(set(want_pc) - set(have_pc))
        ctx.ob("C05.COND", fn, f"{verb.upper()}: requires session facts {list(want_cc)} (has {have_cc})", not miss_cc,
               f"{verb.upper()} no longer requires {miss_cc}: sent out of sequence it is not answered 503 (the model refuses it until {miss_cc} holds)", construct=f"cond:{verb}:session {miss_cc}")
        ctx.ob("C05.COND", fn, f"{verb.upper()}: path argument must satisfy {list(want_pc)} (has {have_pc})", not miss_pc,
               f"{verb.upper()} no longer checks {miss_pc} on its path: where the model answers 550 the command now reaches the backend (451, or a success the model does not have)",
               construct=f"cond:{verb}:path {miss_pc}")
    if n < 24:
        ctx.floor_errors.append(f"rule=C05.COND: {n} verbs of the model found in the command table (floor 24)")


def rule_defined(ctx):
    from ..defined import undefined_uses
    p = ctx.p
    ctx.rule("C05.DEFINED", "no server-side function can read a local name that the path taken has not bound: an UnboundLocalError in a handler, guard or the dispatcher "
                            "ends the session through the catch-all without the reply the command was owed")
    n = 0
    for q, fn in p.functions.items():
        if p.module_of.get(fn) != "server.py":
            continue
        n += 1
        bad = undefined_uses(p, fn)
        ctx.ob("C05.DEFINED", bad[0][0] if bad else fn, f"{q}: every local is bound before it is read on every normal path", not bad,
               f"{q}: `{bad[0][0].id if bad else ''}` can be read before it is bound (`{bad[0][1] if bad else ''}`): the command dies with UnboundLocalError instead of being answered",
               construct=f"defined:{q}:{bad[0][0].id if bad else ''}", function=q)
    if n < 80:
        ctx.floor_errors.append(f"rule=C05.DEFINED: {n} functions of server.py analysed (floor 80)")


def rule_initial_offset(ctx):
    p = ctx.p
    kv = session_kwargs(p)
    v = kv.get("restart_offset")
    ctx.ob("C05.REST", v if v is not None else p.session_ctor(), "a session starts with restart offset 0", isinstance(v, ast.Constant) and v.value == 0,
           f"a new session starts with restart_offset = `{src(v) if v is not None else 'missing'}`: the first transfer of every session skips that many bytes although no REST was sent",
           construct="rest:initial offset")


def rule_flush(ctx):
    p = ctx.p
    ctx.rule("C05.FLUSH", "the reply that announces the end of a session is sent: when a handler asks for the session to end, the dispatcher waits for the reply queue to drain "
                          "(`await <queue>.join()`) before it returns into the clean-up that closes the control stream")
    d = p.dispatcher()
    rq = [n.targets[0].id for n in walk_no_nested(d) if isinstance(n, ast.Assign) and isinstance(n.value, ast.Call) and (dotted(n.value.func) or "").endswith("Queue") and isinstance(n.targets[0], ast.Name)]
    if not rq:
        raise AnalysisError("anchor=reply queue of the dispatcher not found")
    _, tr = p.dispatcher_try()
    rets = [r for s_ in tr.body for r in walk_self(s_) if isinstance(r, ast.Return)]
    if not rets:
        raise AnalysisError("anchor=`return` of the session loop (handler asked to end the session) not found")
    for r in rets:
        blk = p.parent.get(r)
        body = getattr(blk, "body", []) if r in getattr(blk, "body", []) else getattr(blk, "orelse", [])
        before = body[:body.index(r)] if r in body else []
        ok = any(isinstance(x, ast.Await) and isinstance(x.value, ast.Call) and is_method_call(x.value, "join") and src(x.value.func.value) == rq[0] for s_ in before for x in walk_self(s_))
        ctx.ob("C05.FLUSH", r, "the session loop drains the reply queue before it returns", ok,
               "the dispatcher returns (and closes the control connection) without waiting for the reply queue: the 221 of QUIT / the 421 of a refusal may never reach the peer",
               construct="flush:return without join")


def rule_borrowed_r6(ctx):
    from .c03 import rule_drop
    from .c13 import rule_univ
    from .c16 import rule_support
    ctx.borrow(rule_drop, {"C03.DROP": "C05.SLOTS"})
    ctx.rule("C05.ANSWER", "every command gets its reply on every backend: a backend failure (a path timeout included) reaches the dispatcher as PathIOError and becomes 451 - the "
                           "error converter is the outermost decorator of every backend coroutine (shared with C13.UNIV)")
    ctx.borrow(rule_univ, {"C13.UNIV": "C05.ANSWER"})
    ctx.rule("C05.FUTURES", "a command waiting for a session value is woken when the value arrives: Connection's assignment resolves the pending future the waiter holds "
                            "(shared with C16.SUPPORT)")
    ctx.borrow(rule_support, {"C16.SUPPORT": "C05.FUTURES"}, only=lambda fn: "Connection" in fn)


RULES = [rule_borrowed_r6, rule_one_end, rule_wrappers, rule_seq, rule_arg, rule_rest, rule_codes, rule_cwd, rule_rename, rule_refuse, rule_guard_seq, rule_line, rule_borrowed_r4, rule_preconditions, rule_defined, rule_flush, rule_initial_offset]
