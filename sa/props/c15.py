"""C15 Speed limits bound the cumulative rate, compose, and cost nothing when off (structural necessary conditions)"""
import ast
from ..model import *
from ..util import *
from ..facts import *
from ..paths import Cfg, evaluated

EXPLANATION = (
    "Aliasing topology of throttle objects: the control stream's map binds server_global to the server's single object "
    "and server_per_connection to a fresh clone(); at login user_global is the per-user dictionary entry (created once, "
    "looked up and stored under the same key) and user_per_connection a fresh object; both passive accept callbacks "
    "give the data stream the control stream's throttle objects (identity or shallow copy of the map); the client uses "
    "one throttle for control and data streams. Direction tables: read-named limits go to the read slot, write-named to "
    "write, in every from_limits/constructor site; ThrottleStreamIO.read/readline use label 'read', write uses 'write' "
    "for both wait and append. Order: wait(label) -> start -> I/O -> append(label, <data moved>, start). Composition: "
    "ThrottleStreamIO.wait awaits EVERY throttle of the map whose limit is set (gathered), append feeds every throttle. "
    "Off: no suspension when no applicable limit is set. Dimension check {time, bytes, rate} of Throttle.wait/append; "
    "the reset branch folds elapsed*limit out of the sum without clamping."
)
NOT_DECIDED = [
    "the cumulative-rate inequality itself, float rounding, fairness among streams",
    "wall-clock behaviour; interplay with socket buffers",
    "the shared mutable default `throttles={}` is only checked to be never used by a construction site",
]


def kv_of(node):
    if isinstance(node, ast.Call) and isinstance(node.func, ast.Name) and node.func.id == "dict":
        return {k.arg: k.value for k in node.keywords if k.arg}
    if isinstance(node, ast.Dict):
        return {k.value: v for k, v in zip(node.keys, node.values) if isinstance(k, ast.Constant)}
    return None


def rule_share(ctx):
    p = ctx.p
    ctx.rule("C15.SHARE", "which throttle objects are shared and which are fresh per connection")
    d = p.dispatcher()
    thr = None
    for c in walk_no_nested(d):
        if isinstance(c, ast.Call) and last_attr(c.func) == "ThrottleStreamIO":
            thr = kwarg(c, "throttles")
    if thr is None:
        raise AnalysisError("anchor=control stream throttles (ThrottleStreamIO(..., throttles=...) in the dispatcher) not found")
    kv = kv_of(expand(p, thr, d))
    if kv is None:
        raise Inconclusive("C15.SHARE: control stream throttle map is not a dict literal / dict(...) call")
    g, pc = kv.get("server_global"), kv.get("server_per_connection")
    # the server-wide throttle: attribute assigned from_limits(read_speed_limit, write_speed_limit) in __init__
    init = p.method("Server", "__init__")
    glob_attr = perconn_attr = None
    for n in walk_no_nested(init):
        if isinstance(n, ast.Assign) and isinstance(n.value, ast.Call) and is_method_call(n.value, "from_limits") and isinstance(n.targets[0], ast.Attribute):
            args = [src(a) for a in n.value.args]
            if any("per_connection" in a for a in args):
                perconn_attr = n.targets[0].attr
            else:
                glob_attr = n.targets[0].attr
    ctx.ob("C15.SHARE", thr, f"server-wide slot is the server's single throttle object self.{glob_attr}", g is not None and src(g) == f"self.{glob_attr}",
           f"server-wide throttle slot is `{src(g) if g is not None else None}`, not the single shared object (a clone per connection multiplies the server-wide limit)",
           construct="share:server_global")
    ok = isinstance(pc, ast.Call) and isinstance(pc.func, ast.Attribute) and pc.func.attr == "clone" and src(pc.func.value) == f"self.{perconn_attr}"
    ctx.ob("C15.SHARE", thr, "per-connection slot is a fresh clone() of the per-connection template", ok,
           f"per-connection throttle slot is `{src(pc) if pc is not None else None}`: every connection must get a fresh clone, otherwise the per-connection limit is shared by all connections",
           construct="share:server_per_connection")
    # user level
    table, _ = p.command_table()
    u = p.method("Server", table["user"])
    upd = [c for c in walk_no_nested(u) if isinstance(c, ast.Call) and is_method_call(c, "update") and last_attr(c.func.value) == "throttles"]
    if not upd:
        ctx.fail("C15.SHARE", u, "USER no longer installs the user's throttles into the control stream's map", construct="share:user update missing")
    else:
        ukv = {k.arg: k.value for k in upd[0].keywords if k.arg}
        ug, upc = ukv.get("user_global"), ukv.get("user_per_connection")
        ok = isinstance(ug, ast.Subscript) and last_attr(ug.value) == "throttle_per_user"
        key = src(ug.slice) if ok else None
        ctx.ob("C15.SHARE", upd[0], f"user_global is the per-user dictionary entry (key {key})", ok,
               f"user_global is `{src(ug) if ug is not None else None}`, not the shared per-user entry", construct="share:user_global")
        if ok:
            stores = [n for n in walk_no_nested(u) if isinstance(n, ast.Assign) and isinstance(n.targets[0], ast.Subscript) and last_attr(n.targets[0].value) == "throttle_per_user"]
            tests = [n for n in walk_no_nested(u) if isinstance(n, ast.Compare) and isinstance(n.ops[0], (ast.In, ast.NotIn)) and last_attr(n.comparators[0]) == "throttle_per_user"]
            skeys = {src(n.targets[0].slice) for n in stores}
            tkeys = {src(n.left) for n in tests}
            same = skeys == {key} and tkeys == {key}
            ctx.ob("C15.SHARE", upd[0], f"the per-user throttle is created once: membership test, store and lookup use the same key (test {sorted(tkeys)}, store {sorted(skeys)}, lookup {key})", same,
                   f"per-user throttle: membership test uses {sorted(tkeys)}, store uses {sorted(skeys)}, lookup uses {key} - with different keys every login creates a fresh throttle "
                   "and the user-level limit is no longer shared by that user's connections", construct=f"share:user key {sorted(tkeys)}/{sorted(skeys)}/{key}")
            guarded = all(any(isinstance(t, ast.Compare) and isinstance(t.ops[0], ast.NotIn) and pol or isinstance(t, ast.Compare) and isinstance(t.ops[0], ast.In) and not pol
                              for t, pol in all_guards(p, n, u)) for n in stores)
            ctx.ob("C15.SHARE", upd[0], "the per-user throttle is stored only when absent", guarded and bool(stores), "the per-user throttle is overwritten at every login", construct="share:user store guard")
        ok = isinstance(upc, ast.Call) and is_method_call(upc, "from_limits")
        ctx.ob("C15.SHARE", upd[0], "user_per_connection is a fresh object per login", ok, f"user_per_connection is `{src(upc) if upc is not None else None}`, not a fresh throttle", construct="share:user_per_connection")
    # the per-user table only grows: removing an entry while other connections of that user still hold the old throttle splits the user-level limit
    for x in ast.walk(p.trees["server.py"]):
        rm = None
        if isinstance(x, ast.Call) and isinstance(x.func, ast.Attribute) and x.func.attr in ("pop", "popitem", "clear") and last_attr(x.func.value) == "throttle_per_user":
            rm = x
        if isinstance(x, ast.Delete) and any(isinstance(t, ast.Subscript) and last_attr(t.value) == "throttle_per_user" for t in x.targets):
            rm = x
        if isinstance(x, ast.Assign) and any(isinstance(t, ast.Attribute) and t.attr == "throttle_per_user" for t in x.targets) and p.fn_of(x) != "Server.__init__":
            rm = x
        if rm is not None:
            ctx.fail("C15.SHARE", rm, f"{p.fn_of(rm)}: an entry of the per-user throttle table is removed/reset (`{src(rm)[:50]}`): connections of that user that are still open keep the old "
                     "throttle object while the next login creates a new one, so the user-level limit no longer bounds their sum", construct=f"{p.fn_of(rm)}:throttle_per_user removed")
    # data streams share the control stream's throttle objects
    n_data = 0
    for verb in ("pasv", "epsv"):
        if verb not in table:
            continue
        h = p.method("Server", table[verb])
        conn = p.handler_params(h)[0]
        for c in ast.walk(h):
            if isinstance(c, ast.Call) and last_attr(c.func) == "ThrottleStreamIO":
                n_data += 1
                t = kwarg(c, "throttles")
                base = f"{conn}.command_connection.throttles"
                s_ = src(t) if t is not None else ""
                ok = s_ == base or s_ in (f"dict({base})", f"{base}.copy()", "{**" + base + "}")
                ctx.ob("C15.SHARE", c, f"{verb}: data stream throttles are the control stream's throttle objects (`{s_}`)", ok,
                       f"{verb}: data stream throttles are `{s_ or 'default'}`: the data channel must be limited by the same throttle objects as its control channel",
                       construct=f"share:{verb} data stream")
    if n_data < 2:
        ctx.floor_errors.append(f"rule=C15.SHARE: {n_data} data stream constructions (floor 2)")
    # client: one throttle for control and data
    bc = p.methods("BaseClient")
    ci = bc["__init__"]
    thr_attr = None
    for n in walk_no_nested(ci):
        if isinstance(n, ast.Assign) and isinstance(n.targets[0], ast.Attribute):
            v = expand(p, n.value, ci)      # the throttle may be built into a local first
            if isinstance(v, ast.Call) and is_method_call(v, "from_limits"):
                thr_attr = n.targets[0].attr
    sites = [c for c in ast.walk(p.trees["client.py"]) if isinstance(c, ast.Call) and last_attr(c.func) in ("ThrottleStreamIO", "DataConnectionThrottleStreamIO") and kwarg(c, "throttles") is not None]
    ok = bool(sites) and thr_attr is not None
    for c in sites:
        m = kv_of(expand(p, kwarg(c, "throttles"), p.enclosing_function(c)))   # a map kept in a local first is still that literal (never mutated in between: kv_of needs a literal)
        ok = ok and m is not None and len(m) == 1 and all(src(v) == f"self.{thr_attr}" for v in m.values())
    ctx.ob("C15.SHARE", ci, f"the client limits control and data streams by its single throttle self.{thr_attr} ({len(sites)} stream sites)", ok and len(sites) >= 2,
           "a client stream is built without the client's throttle (or with a copy of it)", construct="share:client")
    # clone() semantics: fresh objects, same limits
    cl = p.method("StreamThrottle", "clone")
    ok = any(isinstance(r, ast.Return) and isinstance(deep_expand(p, r.value, cl), ast.Call) and {k.arg: src(k.value) for k in deep_expand(p, r.value, cl).keywords} == {"read": "self.read.clone()", "write": "self.write.clone()"} for r in walk_no_nested(cl))
    if not ok:
        # each field cloned in field order: `read, write = (t.clone() for t in self)` (the tuple's fields are read, write) and passed on by name
        for r in walk_no_nested(cl):
            if isinstance(r, ast.Return) and isinstance(r.value, ast.Call) and last_attr(r.value.func) == "StreamThrottle":
                kw = {k.arg: k.value for k in r.value.keywords}
                if set(kw) == {"read", "write"} and all(isinstance(v, ast.Name) for v in kw.values()):
                    for n in walk_no_nested(cl):
                        if isinstance(n, ast.Assign) and isinstance(n.targets[0], ast.Tuple) and [src(e) for e in n.targets[0].elts] == [kw["read"].id, kw["write"].id] \
                                and isinstance(n.value, ast.GeneratorExp) and len(n.value.generators) == 1 and src(n.value.generators[0].iter) == "self" \
                                and not n.value.generators[0].ifs and isinstance(n.value.elt, ast.Call) and is_method_call(n.value.elt, "clone") \
                                and src(n.value.elt.func.value) == src(n.value.generators[0].target):
                            fields = None
                            for cdef, _m in [p.classes.get("StreamThrottle", (None, None))]:
                                for b in (cdef.bases if cdef is not None else []):
                                    if isinstance(b, ast.Call) and last_attr(b.func) == "namedtuple" and len(b.args) >= 2 and isinstance(b.args[1], ast.Constant):
                                        fields = b.args[1].value.replace(",", " ").split()
                            ok = fields == ["read", "write"]
    ctx.ob("C15.SHARE", cl, "StreamThrottle.clone() clones both directions into fresh Throttle objects", ok, "StreamThrottle.clone does not clone read->read, write->write", construct="clone:stream")
    tc = p.method("Throttle", "clone")
    ok = any(isinstance(r, ast.Return) and isinstance(deep_expand(p, r.value, tc), ast.Call) and last_attr(deep_expand(p, r.value, tc).func) == "Throttle"
             and {k.arg: src(k.value) for k in deep_expand(p, r.value, tc).keywords} == {"limit": "self._limit", "reset_rate": "self.reset_rate"} for r in walk_no_nested(tc))
    ctx.ob("C15.SHARE", tc, "Throttle.clone() returns a fresh Throttle with the same limit and reset rate", ok, "Throttle.clone does not return a fresh object with the same limit", construct="clone:throttle")


def rule_dir(ctx):
    p = ctx.p
    ctx.rule("C15.DIR", "read-named limits feed the read slot and write-named the write slot; stream methods use their own direction's label for wait and append")
    n = 0
    for mod in ("server.py", "client.py"):
        for c in ast.walk(p.trees[mod]):
            if isinstance(c, ast.Call) and is_method_call(c, "from_limits") and (len(c.args) == 2 or c.keywords):
                n += 1
                a = src(c.args[0]) if c.args else src(kwarg(c, "read_speed_limit") or ast.Constant(None))
                b = src(c.args[1]) if len(c.args) > 1 else src(kwarg(c, "write_speed_limit") or ast.Constant(None))
                ok = "read" in a and "write" not in a and "write" in b and "read" not in b
                ctx.ob("C15.DIR", c, f"{p.fn_of(c)}: from_limits(read<-{a}, write<-{b})", ok, f"from_limits(read, write) called with ({a}, {b})", construct=f"dir:{p.fn_of(c)}:{a},{b}")
    ctx.floor("C15.DIR", 5, "from_limits sites")
    fl = p.method("StreamThrottle", "from_limits")
    params = [a.arg for a in fl.args.args]
    ok = any(isinstance(r, ast.Return) and isinstance(r.value, ast.Call) and {k.arg: src(k.value) for k in r.value.keywords} ==
             {"read": f"Throttle(limit={params[1]})", "write": f"Throttle(limit={params[2]})"} for r in walk_no_nested(fl)) and "read" in params[1] and "write" in params[2]
    ctx.ob("C15.DIR", fl, "from_limits builds read=Throttle(limit=read limit), write=Throttle(limit=write limit)", ok, "from_limits crosses or drops a direction", construct="dir:from_limits body")
    st = p.cls("StreamThrottle")
    fields = None
    for b in st.bases:
        if isinstance(b, ast.Call) and last_attr(b.func) == "namedtuple" and len(b.args) == 2 and isinstance(b.args[1], ast.Constant):
            fields = b.args[1].value.split()
    ctx.ob("C15.DIR", st, f"StreamThrottle fields are (read, write) ({fields})", fields == ["read", "write"], f"StreamThrottle fields are {fields}", construct="dir:fields")
    T = p.methods("ThrottleStreamIO")
    for name, label in (("read", "read"), ("readline", "read"), ("write", "write")):
        fn = T[name]
        labels = [(c.func.attr, c.args[0].value if c.args and isinstance(c.args[0], ast.Constant) else src(c.args[0]) if c.args else None)
                  for c in sorted([c for c in walk_no_nested(fn) if is_self_call(c, {"wait", "append"})], key=lambda c: (c.lineno, c.col_offset))]
        ok = labels == [("wait", label), ("append", label)]
        ctx.ob("C15.DIR", fn, f"ThrottleStreamIO.{name}: wait/append labels are {labels}", ok,
               f"ThrottleStreamIO.{name} waits on / accounts to {labels}, must be wait({label!r}) and append({label!r})", construct=f"dir:{name}:{labels}")
    # wait/append resolve the label with getattr(throttle, name) over ALL throttles of the map
    for name in ("wait", "append"):
        fn = T[name]
        loops = [l for l in walk_no_nested(fn) if isinstance(l, ast.For)]
        ok = False
        for l in loops:
            it = l.iter
            whole = isinstance(it, ast.Call) and is_method_call(it, "values") and src(it.func.value) == "self.throttles"
            ga = any(isinstance(c, ast.Call) and isinstance(c.func, ast.Name) and c.func.id == "getattr" and len(c.args) == 2 and src(c.args[0]) == l.target.id
                     and src(c.args[1]) == fn.args.args[1].arg for c in walk_no_nested(l) if isinstance(l.target, ast.Name))
            brk = any(isinstance(x, (ast.Break, ast.Return)) for x in walk_no_nested(l))
            if whole and ga and not brk:
                ok = True
        ctx.ob("C15.DIR", fn, f"ThrottleStreamIO.{name} visits every throttle of the map and selects the direction named by its argument", ok,
               f"ThrottleStreamIO.{name} does not visit every throttle of the stream's map with the requested direction "
               "(a subset - e.g. only the tightest limit - lets the other limits be exceeded when several connections share them)", construct=f"dir:{name}:loop")


def rule_order(ctx):
    p = ctx.p
    ctx.rule("C15.ORDER", "each throttled I/O is wait(label) -> take start -> I/O -> append(label, <the data moved>, start)")
    T = p.methods("ThrottleStreamIO")
    for name in ("read", "readline", "write"):
        fn = T[name]
        seq = []
        for s in fn.body:
            for c in walk_self(s):
                if isinstance(c, ast.Call):
                    if is_self_call(c, {"wait"}):
                        seq.append("wait")
                    elif is_self_call(c, {"append"}):
                        seq.append("append")
                    elif isinstance(c.func, ast.Attribute) and isinstance(c.func.value, ast.Call) and isinstance(c.func.value.func, ast.Name) and c.func.value.func.id == "super":
                        seq.append("io")
                    elif (dotted(c.func) or "") == "_now":
                        seq.append("start")
        ok = seq == ["wait", "start", "io", "append"]
        ctx.ob("C15.ORDER", fn, f"ThrottleStreamIO.{name}: order is {seq}", ok, f"ThrottleStreamIO.{name}: order is {seq}, must be wait -> start -> I/O -> append", construct=f"order:{name}:{seq}")
        ap = [c for c in walk_no_nested(fn) if is_self_call(c, {"append"})]
        for c in ap:
            data_ok = len(c.args) == 3 and isinstance(c.args[1], ast.Name) and isinstance(c.args[2], ast.Name)
            if data_ok:
                dn = c.args[1].id
                if name == "write":
                    data_ok = dn == fn.args.args[1].arg
                else:
                    ds = local_defs(fn, dn)
                    data_ok = len(ds) == 1 and isinstance(ds[0][1], ast.Await)
                sd = local_defs(fn, c.args[2].id)
                data_ok = data_ok and len(sd) == 1 and isinstance(sd[0][1], ast.Call) and (dotted(sd[0][1].func) or "") == "_now"
            ctx.ob("C15.ORDER", c, f"ThrottleStreamIO.{name}: append accounts the data actually moved, with the start taken before the I/O", data_ok,
                   f"ThrottleStreamIO.{name}: append({', '.join(src(a) for a in c.args)}) does not account the moved data with its start time", construct=f"order:{name}:append args")
        waits = [c for c in walk_no_nested(fn) if is_self_call(c, {"wait"})]
        ok = all(isinstance(p.parent.get(c), ast.Await) for c in waits)
        ctx.ob("C15.ORDER", fn, f"ThrottleStreamIO.{name}: the wait is awaited", ok and bool(waits), f"ThrottleStreamIO.{name}: wait() is not awaited", construct=f"order:{name}:wait not awaited")


def rule_off(ctx):
    p = ctx.p
    ctx.rule("C15.OFF", "no delay when no applicable limit is set; every set limit is waited for (gathered)")
    w = p.method("ThrottleStreamIO", "wait")
    creates = [c for c in walk_no_nested(w) if isinstance(c, ast.Call) and (dotted(c.func) or "").endswith("create_task")]
    direct = [a for a in walk_no_nested(w) if isinstance(a, ast.Await) and isinstance(a.value, ast.Call) and is_method_call(a.value, "wait") and not is_self_call(a.value)
              and (dotted(a.value.func) or "") != "asyncio.wait"]
    sites = creates + [a.value for a in direct]
    ok = bool(sites)
    for c in sites:
        g = all_guards(p, c, w)
        lim = any(pol and (last_attr(t) == "limit" or (isinstance(t, ast.Compare) and last_attr(t.left) == "limit")) for t, pol in g)
        extra = [src(t) for t, pol in g if not (last_attr(t) == "limit" or (isinstance(t, ast.Compare) and last_attr(t.left) == "limit"))]
        ok = ok and lim and not extra
    ctx.ob("C15.OFF", w, "a throttle is waited for iff its limit is set (no other filter)", ok,
           "ThrottleStreamIO.wait does not wait for exactly the throttles whose limit is set", construct="off:wait filter")
    aw = [a for a in walk_no_nested(w) if isinstance(a, ast.Await) and isinstance(a.value, ast.Call) and (dotted(a.value.func) or "").split(".")[-1] in ("gather", "wait")]
    if creates:
        ok = False
        for a in aw:
            g = all_guards(p, a, w)
            coll = {x.id for z in a.value.args for x in ast.walk(z) if isinstance(x, ast.Name)}
            nonempty = any(pol and isinstance(t, ast.Name) and t.id in coll for t, pol in g)
            if nonempty:
                ok = True
        ctx.ob("C15.OFF", w, "the collected waits are awaited together, and only when there is at least one", ok,
               "ThrottleStreamIO.wait suspends although no limit is set (or does not await the collected waits)", construct="off:await")
    else:
        in_loop = all(any(isinstance(q, ast.For) for q in _anc(p, a)) for a in direct) and bool(direct)
        ctx.ob("C15.OFF", w, "each set throttle is awaited in turn", in_loop, "ThrottleStreamIO.wait does not await every set throttle", construct="off:await")
    tw = p.method("Throttle", "wait")
    sl = [a for a in walk_no_nested(tw) if isinstance(a, ast.Await)]
    ok = bool(sl)
    unknown = False
    for a in sl:
        for lim in (None, 0, 10):
            for st in (None, 1.0):
                r = reachable_under(p, a, tw, {"self._limit": lim, "self._start": st})
                if r is None:
                    unknown = True
                elif r != (lim == 10 and st == 1.0):
                    ok = False
    if unknown:
        raise Inconclusive("C15.OFF: guard of Throttle.wait's sleep is outside the table evaluator's vocabulary")
    ctx.ob("C15.OFF", tw, "Throttle.wait sleeps exactly when a positive limit is set and accounting has started (table over limit in {None,0,10} x start in {None,1.0})", ok,
           "Throttle.wait may sleep with no limit / before the first accounted I/O (or never sleeps)", construct="off:throttle wait guard")
    ta = p.method("Throttle", "append")
    muts = [n for n in walk_no_nested(ta) if isinstance(n, (ast.Assign, ast.AugAssign)) and any(isinstance(t, ast.Attribute) for t in assign_targets(n))]
    ok = bool(muts)
    for n in muts:
        for lim in (None, 0):
            r = reachable_under(p, n, ta, {"self._limit": lim, "self._start": None, "start": 5.0, "self.reset_rate": 10, "self._sum": 0})
            if r is None or r:
                ok = False
    acc = [n for n in muts if isinstance(n, ast.AugAssign) and isinstance(n.op, ast.Add) and src(n.target) == "self._sum"]
    for n in acc:
        r = reachable_under(p, n, ta, {"self._limit": 10, "self._start": 1.0, "start": 5.0, "self.reset_rate": 10, "self._sum": 0})
        if r is not True:
            ok = False
    ctx.ob("C15.OFF", ta, "Throttle.append accounts nothing when the limit is None or 0, and accounts when a limit is set", ok, "Throttle.append accounts although no limit is set (or not at all)", construct="off:append guard")


def _anc(p, n):
    q = p.parent.get(n)
    while q is not None:
        yield q
        q = p.parent.get(q)


def rule_dim(ctx):
    p = ctx.p
    ctx.rule("C15.DIM", "dimension check {time, bytes, rate} of Throttle.wait/append; the reset folds elapsed*limit out of the sum without clamping")
    ms = p.methods("Throttle")
    DIM = {"self._limit": "rate", "self.reset_rate": "time", "self._start": "time", "self._sum": "bytes", "start": "time", "now": "time", "end": "time", "value": "rate"}

    cur_fn = [None]

    def dim(e):
        s = src(e)
        if s in DIM:
            return DIM[s]
        if isinstance(e, ast.Name) and cur_fn[0] is not None:
            d_ = unique_def(cur_fn[0], e.id)
            if d_ is not None:
                return dim(d_)
        if isinstance(e, ast.Constant):
            return "zero" if e.value == 0 else ("none" if e.value is None else "num")
        if isinstance(e, ast.Call):
            d = dotted(e.func) or ""
            if d == "_now":
                return "time"
            if d == "len":
                return "bytes"
            if d in ("round", "int", "float", "abs"):
                return dim(e.args[0])
            if d in ("max", "min"):
                ds = {dim(a) for a in e.args} - {"zero"}
                return ds.pop() if len(ds) == 1 else "ERR:" + d + " of " + ",".join(sorted(ds))
            return "unknown"
        if isinstance(e, ast.BinOp):
            l, r = dim(e.left), dim(e.right)
            if isinstance(e.op, (ast.Add, ast.Sub)):
                if l == r or r == "zero":
                    return l
                if l == "zero":
                    return r
                return f"ERR:{l}{'+' if isinstance(e.op, ast.Add) else '-'}{r}"
            if isinstance(e.op, ast.Mult):
                if {l, r} == {"time", "rate"}:
                    return "bytes"
                return f"ERR:{l}*{r}"
            if isinstance(e.op, (ast.Div, ast.FloorDiv)):
                if (l, r) == ("bytes", "rate"):
                    return "time"
                if (l, r) == ("bytes", "time"):
                    return "rate"
                return f"ERR:{l}/{r}"
        if isinstance(e, ast.UnaryOp):
            return dim(e.operand)
        return "unknown"
    n_inst = 0
    for name in ("wait", "append"):
        fn = ms[name]
        cur_fn[0] = fn
        for n in walk_no_nested(fn):
            if isinstance(n, ast.Compare) and len(n.ops) == 1 and not isinstance(n.ops[0], (ast.Is, ast.IsNot)):
                n_inst += 1
                l, r = dim(n.left), dim(n.comparators[0])
                bad = "ERR" in l + r or (l != r and "zero" not in (l, r) and "unknown" not in (l, r))
                ctx.ob("C15.DIM", n, f"Throttle.{name}: comparison `{src(n)}` is {l} vs {r}", not bad, f"comparison between {l} and {r}", construct=f"Throttle.{name}:{src(n)}")
            if isinstance(n, ast.Call) and dotted(n.func) == "asyncio.sleep":
                n_inst += 1
                d = dim(n.args[0])
                ctx.ob("C15.DIM", n, f"Throttle.{name}: sleep argument is a {d}", d == "time", f"sleep argument has dimension {d}, not time", construct=f"Throttle.{name}:sleep({d})")
            tgt = val = None
            if isinstance(n, ast.Assign) and isinstance(n.targets[0], (ast.Name, ast.Attribute)):
                tgt, val = src(n.targets[0]), n.value
            if isinstance(n, ast.AugAssign):
                tgt, val = src(n.target), n.value
            if tgt is not None:
                n_inst += 1
                want, got = DIM.get(tgt), dim(val)
                ok = "ERR" not in got and not (want and got not in (want, "zero", "unknown"))
                ctx.ob("C15.DIM", n, f"Throttle.{name}: `{src(n)}` assigns a {got} to a {want}", ok,
                       f"dimensionally inconsistent arithmetic in `{src(n)}`: {got}" + (f" assigned to {want}" if want else ""), construct=f"Throttle.{name}:{src(n)}")
    if n_inst < 6:
        ctx.floor_errors.append(f"rule=C15.DIM: {n_inst} arithmetic sites (floor 6)")
    ap = ms["append"]
    data_p = ap.args.args[1].arg

    def terms(e, sign=1):
        """signed terms of a sum: a + b - c -> [(+,a), (+,b), (-,c)] (source text of each term, names expanded beforehand)"""
        if isinstance(e, ast.BinOp) and isinstance(e.op, (ast.Add, ast.Sub)):
            return terms(e.left, sign) + terms(e.right, sign if isinstance(e.op, ast.Add) else -sign)
        if isinstance(e, ast.UnaryOp) and isinstance(e.op, ast.USub):
            return terms(e.operand, -sign)
        return [(sign, src(e), e)]

    def sum_updates(fn):
        """every store to self._sum as (node, delta terms): `s += v`, `s -= v`, `s = s + v`; delta None if the old value is not kept"""
        out = []
        for n in walk_no_nested(fn):
            if isinstance(n, ast.AugAssign) and src(n.target) == "self._sum" and isinstance(n.op, (ast.Add, ast.Sub)):
                out.append((n, terms(deep_expand(p, n.value, fn, stop=("self._sum",)), 1 if isinstance(n.op, ast.Add) else -1)))
            elif isinstance(n, ast.AugAssign) and src(n.target) == "self._sum":
                out.append((n, None))
            elif isinstance(n, ast.Assign) and any(src(t) == "self._sum" for t in n.targets):
                ts = terms(deep_expand(p, n.value, fn, stop=("self._sum",)))
                keep = [t for t in ts if t[0] == 1 and t[1] == "self._sum"]
                out.append((n, [t for t in ts if t not in keep[:1]] if len(keep) == 1 else None))
        return out
    ups = sum_updates(ap)
    acc = [(n, d) for n, d in ups if d is not None and [(sg, tx) for sg, tx, _ in d] == [(1, f"len({data_p})")]]
    ok = len(acc) == 1 and not [1 for t, pol in all_guards(p, acc[0][0], ap) if "_limit" not in src(t)]
    ctx.ob("C15.DIM", ap, "the sum accumulates len(data) once per append, on every limited path", ok, "Throttle.append does not add len(data) exactly once", construct="Throttle.append:accumulate")
    resets = [(n, d) for n, d in ups if (n, d) not in acc]
    ok = len(resets) == 1 and resets[0][1] is not None and len(resets[0][1]) == 1 and resets[0][1][0][0] == -1
    if ok:
        v = resets[0][1][0][2]
        cur_fn[0] = ap
        ok = not any(isinstance(c, ast.Call) and isinstance(c.func, ast.Name) and c.func.id in ("max", "min", "abs") for c in ast.walk(v))
        inner = v.args[0] if isinstance(v, ast.Call) and isinstance(v.func, ast.Name) and v.func.id == "round" and len(v.args) == 1 else v
        ok = ok and isinstance(inner, ast.BinOp) and isinstance(inner.op, ast.Mult) and {dim(inner.left), dim(inner.right)} == {"time", "rate"}
        if ok:
            el = inner.left if dim(inner.left) == "time" else inner.right
            ok = sorted((sg, tx) for sg, tx, _ in terms(el)) == [(-1, "self._start"), (1, ap.args.args[-1].arg)]
    # the whole new value must not be clamped either (self._sum = max(0, ...))
    for n, d in ups:
        if d is None:
            ok = False
    ctx.ob("C15.DIM", resets[0][0] if resets else ap, "the reset folds (elapsed * limit) out of the sum and keeps the (possibly negative) credit", ok,
           "the reset branch does not subtract elapsed*limit from the sum unclamped: clamping at zero throws away credit earned while idle, so throttling adds delay the bound does not require",
           construct="Throttle.append:reset")
    rs = [n for n in walk_no_nested(ap) if isinstance(n, ast.Assign) and src(n.targets[0]) == "self._start"]
    ok = all(src(n.value) == "start" for n in rs) and len(rs) == 2
    ctx.ob("C15.DIM", ap, "the window start is (re)set to the I/O's own start time", ok, "Throttle.append sets the window start to something else than the I/O's start", construct="Throttle.append:start")
    tw = ms["wait"]
    sl = [c_ for c_ in walk_no_nested(tw) if isinstance(c_, ast.Call) and dotted(c_.func) == "asyncio.sleep"]
    ok = len(sl) == 1 and len(sl[0].args) == 1
    if ok:
        a = deep_expand(p, sl[0].args[0], tw)
        ok = isinstance(a, ast.Call) and isinstance(a.func, ast.Name) and a.func.id == "max" and len(a.args) == 2
        if ok:
            zero = [x for x in a.args if isinstance(x, ast.Constant) and x.value == 0]
            diff = [x for x in a.args if not (isinstance(x, ast.Constant) and x.value == 0)]
            ok = len(zero) == 1 and len(diff) == 1 and sorted((sg, tx) for sg, tx, _ in terms(diff[0])) == [(-1, "_now()"), (1, "self._start"), (1, "self._sum / self._limit")]
    ctx.ob("C15.DIM", tw, "Throttle.wait sleeps max(0, (start + sum / limit) - now)", ok,
           f"Throttle.wait sleeps `{src(sl[0].args[0]) if sl and sl[0].args else None}`, not max(0, start + sum/limit - now)", construct="Throttle.wait:sleep")
    st = [f for f in p.cls("Throttle").body if isinstance(f, FuncT) and f.name == "limit" and any(last_attr(d) == "setter" for d in f.decorator_list)]
    ctx.ob("C15.DIM", p.cls("Throttle"), "Throttle.limit has a setter (assigning a limit goes through the accounting reset)", bool(st),
           "Throttle.limit has no property setter any more: `throttle.limit = n` no longer stores the limit the accounting reads", construct="Throttle.limit.setter missing")
    if st:
        vals = {src(n.targets[0]): src(n.value) for n in walk_no_nested(st[0]) if isinstance(n, ast.Assign)}
        ok = vals.get("self._limit") == st[0].args.args[1].arg and vals.get("self._start") == "None" and vals.get("self._sum") == "0"
        ctx.ob("C15.DIM", st[0], "changing the limit restarts the accounting", ok, "the limit setter does not reset start/sum", construct="Throttle.limit.setter")


def rule_default(ctx):
    p = ctx.p
    ctx.rule("C15.DEFAULT", "every stream construction passes an explicit throttle map (the shared mutable default is never the map that USER mutates)")
    n = 0
    for mod in ("server.py", "client.py"):
        for c in ast.walk(p.trees[mod]):
            if isinstance(c, ast.Call) and last_attr(c.func) in ("ThrottleStreamIO", "DataConnectionThrottleStreamIO"):
                n += 1
                ctx.ob("C15.DEFAULT", c, f"{p.fn_of(c)}: stream built with an explicit throttles= map", kwarg(c, "throttles") is not None,
                       f"{p.fn_of(c)}: stream built with the shared default throttle map", construct=f"{p.fn_of(c)}:default throttles")
    ctx.floor("C15.DEFAULT", 4, "stream constructions")


def rule_support(ctx):
    p = ctx.p
    ctx.rule("C15.SUPPORT", "what the accounting relies on in its supporting code: a stream keeps THE throttle map it was given (USER installs the per-user throttles into the control "
                            "stream's map in place and the data streams are built on the same map), and _now() is the event loop's clock (the one asyncio.sleep() waits on)")
    ti = p.method("ThrottleStreamIO", "__init__")
    stores = [s_ for s_, t in attr_stores(ti, "throttles", nested=False) if isinstance(s_, ast.Assign)]
    if not stores:
        raise AnalysisError("anchor=ThrottleStreamIO.throttles store not found")
    params = {a.arg for a in ti.args.args + ti.args.kwonlyargs}
    for st in stores:
        ok = isinstance(st.value, ast.Name) and st.value.id in params
        ctx.ob("C15.SUPPORT", st, "self.throttles is the mapping object passed in", ok,
               f"ThrottleStreamIO keeps `{src(st.value)[:40]}`, a copy of the map it was given: the per-user throttles that USER adds to the control stream's map never reach a data "
               "stream built before the (re-)login - its transfers run without the user's limits", construct="support:throttles copied")
    now = p.module_funcs.get(("common.py", "_now"))
    if now is None:
        raise AnalysisError("anchor=common._now not found")
    rets = [r.value for r in walk_no_nested(now) if isinstance(r, ast.Return) and r.value is not None]
    ok = len(rets) == 1 and isinstance(rets[0], ast.Call) and isinstance(rets[0].func, ast.Attribute) and rets[0].func.attr == "time" and isinstance(rets[0].func.value, ast.Call) \
        and (dotted(rets[0].func.value.func) or "").split(".")[-1] in ("get_running_loop", "get_event_loop")
    ctx.ob("C15.SUPPORT", now, "_now() is <running loop>.time()", ok,
           f"_now() returns `{src(rets[0])[:40] if rets else None}`, not the event loop's own clock: the throttle measures on one clock and sleeps (asyncio.sleep) on another - "
           "on a loop whose time() is not the wall clock the delays no longer match the limit", construct="support:clock")


def rule_borrowed_r4(ctx):
    from .c01 import rule_thru
    ctx.rule("C15.THRU", "every byte is waited for and counted once: the stream's write/read proxies forward to the inner stream and do not call back into the throttled method (shared with C01.THRU)")
    ctx.borrow(rule_thru, {"C01.THRU": "C15.THRU"})


def rule_window(ctx):
    p = ctx.p
    ctx.rule("C15.WINDOW", "Throttle.append keeps its accounting window: the window start is set when (and only when) there is none yet, and the window is folded "
                           "when (and only when) more than reset_rate has elapsed since it started")
    ap = p.method("Throttle", "append")
    start_p = ap.args.args[-1].arg
    inits = [n for n in walk_no_nested(ap) if isinstance(n, ast.Assign) and src(n.targets[0]) == "self._start"]
    first = [n for n in inits if any(isinstance(t, ast.Compare) and isinstance(t.ops[0], (ast.Is, ast.IsNot)) and src(t.left) == "self._start" for t, pol in all_guards(p, n, ap))]
    ok = False
    for n in first:
        ok = any(((isinstance(t.ops[0], ast.Is) and pol) or (isinstance(t.ops[0], ast.IsNot) and not pol)) for t, pol in all_guards(p, n, ap)
                 if isinstance(t, ast.Compare) and isinstance(t.ops[0], (ast.Is, ast.IsNot)) and src(t.left) == "self._start")
    ctx.ob("C15.WINDOW", first[0] if first else ap, "the window start is initialised under `self._start is None`", ok,
           "Throttle.append does not set the window start exactly when it is None: with a start that is never set the elapsed time is computed from None (TypeError on the first "
           "counted block), with one that is reset on every block nothing is ever accumulated", construct="window:start init")
    resets = [n for n in walk_no_nested(ap) if isinstance(n, (ast.AugAssign, ast.Assign)) and src(assign_targets(n)[0]) == "self._sum"
              and any(pol is not None and isinstance(t, ast.Compare) and "reset_rate" in src(t) for t, pol in all_guards(p, n, ap))]
    ok = False
    for n in resets:
        for t, pol in all_guards(p, n, ap):
            if isinstance(t, ast.Compare) and len(t.ops) == 1 and "reset_rate" in src(t):
                t_ = deep_expand(p, t, ap)
                l_, r_ = t_.left, t_.comparators[0]
                elapsed_left = "reset_rate" in src(r_)
                gt = isinstance(t_.ops[0], (ast.Gt, ast.GtE)) if elapsed_left else isinstance(t_.ops[0], (ast.Lt, ast.LtE))
                el = l_ if elapsed_left else r_

                def sterms(e, sign=1):
                    if isinstance(e, ast.BinOp) and isinstance(e.op, (ast.Add, ast.Sub)):
                        return sterms(e.left, sign) + sterms(e.right, sign if isinstance(e.op, ast.Add) else -sign)
                    return [(sign, src(e))]
                oriented = sorted(sterms(el)) == [(-1, "self._start"), (1, start_p)]
                ok = bool(pol) == bool(gt) and oriented
    ctx.ob("C15.WINDOW", resets[0] if resets else ap, "the window is folded only when more than reset_rate has elapsed", ok,
           "Throttle.append folds the window under the opposite of `elapsed > reset_rate` (or without that test): the sum is rebased on every block - or never - and the delay computed "
           "from it no longer matches the configured rate", construct="window:reset test")


def rule_user_limits(ctx):
    p = ctx.p
    ctx.rule("C15.USER", "a user's four speed limits end up in the like-named attributes (read stays read, per-connection stays per-connection): USER builds the per-user throttles from them by name")
    ui = p.method("User", "__init__")
    n = 0
    for name in ("read_speed_limit", "write_speed_limit", "read_speed_limit_per_connection", "write_speed_limit_per_connection"):
        st = [s_ for s_, t in attr_stores(ui, name, nested=False) if isinstance(s_, ast.Assign)]
        n += len(st)
        ok = len(st) == 1 and isinstance(st[0].value, ast.Name) and st[0].value.id == name
        ctx.ob("C15.USER", st[0] if st else ui, f"User.{name} = {name}", ok, f"User.{name} is set from `{src(st[0].value) if st else None}`: the user's limits are crossed (a download limit throttles uploads)",
               construct=f"user:{name}")
    if n < 4:
        ctx.floor_errors.append(f"rule=C15.USER: {n} limit stores in User.__init__ (floor 4)")


RULES = [rule_share, rule_dir, rule_order, rule_off, rule_dim, rule_default, rule_support, rule_borrowed_r4, rule_window, rule_user_limits]
