"""C18 The shipped storage backends are interchangeable (structural sibling agreement)"""
import ast
import copy
from ..model import *
from ..util import *
from ..facts import *
from ..paths import Cfg, evaluated

EXPLANATION = (
    "Sibling agreement of the three backends. SIG: same operation set, compatible signatures, same decorator roles. "
    "FS: after normalising away the executor/timeout wrappers, each AsyncPathIO operation delegates to the same "
    "pathlib/file call with the same argument forwarding as PathIO (statement-for-statement comparison of the "
    "normalised bodies, the two listers included). MODE: MemoryPathIO._open is evaluated against the io.open contract "
    "by enumerating its paths per mode constant: rb no create / position 0; wb create, truncate; ab create, position "
    "end; r+b no create, no truncate, position 0; other modes ValueError; opening under a non-directory parent fails. "
    "ATOMIC: in every in-memory mutator (mkdir, rmdir, unlink, rename, _open) no statement that may raise follows the "
    "first mutation of the node tree on any path, and list-typed use of a parent's content is dominated by a "
    "type == 'dir' test (or the parent of a node that get_node just found). SRV: the server's open-mode choice depends "
    "on the restart offset only (C01.SEEK)."
)
NOT_DECIDED = [
    "agreement of the in-memory model with a real filesystem on all operation sequences (e.g. renaming a directory into itself)",
    "reply classes per history; exact error classes of the filesystem backends",
    "MemoryPathIO mtime bookkeeping",
]


def norm_body(fn):
    """body without docstring, as normalised source lines"""
    body = list(fn.body)
    if body and isinstance(body[0], ast.Expr) and isinstance(body[0].value, ast.Constant) and isinstance(body[0].value.value, str):
        body = body[1:]
    return [src(s) for s in body]


def rule_sig(ctx):
    p = ctx.p
    ctx.rule("C18.SIG", "same operation set, compatible signatures and decorator roles across the backends")
    ops = [n.name for n in p.cls("AbstractPathIO").body if isinstance(n, ast.AsyncFunctionDef)] + ["list"]
    backends = p.backends()
    ref = p.methods("PathIO")
    for b in backends:
        ms = p.methods(b)
        for op in ops:
            if op not in ms:
                ctx.fail("C18.SIG", p.cls(b), f"{b} does not implement {op}", construct=f"{b}.{op}:missing")
                continue
            a, r = ms[op].args, ref[op].args if op in ref else None
            if r is None or b == "PathIO":
                ctx.ob("C18.SIG", ms[op], f"{b}.{op} present", True)
                continue
            abst = p.methods("AbstractPathIO").get(op)
            pos = [x.arg for x in a.args]
            ok = pos[:2] == [x.arg for x in r.args][:2] or b == "MemoryPathIO"
            # keyword-only names of the abstract signature must be accepted
            if abst is not None:
                need_kw = {x.arg for x in abst.args.kwonlyargs}
                have_kw = {x.arg for x in a.kwonlyargs}
                ok = ok and (need_kw <= have_kw or a.kwarg is not None)
            roles = [d.name for d in p.decorators(ms[op])]
            rref = [d.name for d in p.decorators(ref[op])]
            if b == "MemoryPathIO":
                ok = ok and roles == rref
            else:
                # the executor backend adds its timeout and hand-off wrappers, nothing else may differ
                ok = ok and [x for x in roles if x not in ("with_timeout", "_blocking_io")] == rref
            # parameter defaults: a differing default (mkdir(parents=...), _open(mode=...)) makes the same server call behave differently per backend
            def defaults(fa):
                pos_ = [x.arg for x in fa.args]
                d_ = {n_: src(v_) for n_, v_ in zip(pos_[len(pos_) - len(fa.defaults):], fa.defaults)}
                d_.update({x.arg: src(v_) for x, v_ in zip(fa.kwonlyargs, fa.kw_defaults) if v_ is not None})
                return d_
            da, dr = defaults(a), defaults(r)
            diff = {k_: (da[k_], dr[k_]) for k_ in da.keys() & dr.keys() if da[k_] != dr[k_]}
            ctx.ob("C18.SIG", ms[op], f"{b}.{op}: parameter defaults equal PathIO's ({da})", not diff,
                   f"{b}.{op}: default of {sorted(diff)} differs from PathIO.{op} ({diff}): the same server call creates parents / opens in another mode on this backend only",
                   construct=f"{b}.{op}:defaults {sorted(diff)}")
            ctx.ob("C18.SIG", ms[op], f"{b}.{op}: signature/decorator roles compatible with PathIO.{op} ({roles})", ok,
                   f"{b}.{op}: signature or decorator roles differ from PathIO.{op} ({roles} vs {rref})", construct=f"{b}.{op}:sig")
    # the abstract signature's defaults are the contract
    for op in ops:
        abst = p.methods("AbstractPathIO").get(op)
        if abst is None or op not in ref:
            continue
        def defaults2(fa):
            pos_ = [x.arg for x in fa.args]
            d_ = {n_: src(v_) for n_, v_ in zip(pos_[len(pos_) - len(fa.defaults):], fa.defaults)}
            d_.update({x.arg: src(v_) for x, v_ in zip(fa.kwonlyargs, fa.kw_defaults) if v_ is not None})
            return d_
        da, dr = defaults2(abst.args), defaults2(ref[op].args)
        diff = {k_: (da[k_], dr[k_]) for k_ in da.keys() & dr.keys() if da[k_] != dr[k_]}
        ctx.ob("C18.SIG", ref[op], f"PathIO.{op}: parameter defaults equal the abstract operation's", not diff,
               f"PathIO.{op}: default of {sorted(diff)} differs from AbstractPathIO.{op} ({diff})", construct=f"PathIO.{op}:defaults {sorted(diff)}")
    ctx.floor("C18.SIG", 39)


def rule_listed(ctx, rule="C18.FS"):
    """the filesystem listers enumerate the directory they were given through the path object (glob('*') / iterdir() / os.scandir / os.listdir of it):
    a string-pattern API (glob.glob / glob.iglob / fnmatch on str(path)) re-reads the directory NAME as a pattern"""
    p = ctx.p
    for b in ("PathIO", "AsyncPathIO"):
        fn = p.methods(b).get("list")
        if fn is None:
            continue
        pathp = fn.args.args[1].arg if len(fn.args.args) > 1 else "path"
        calls = [c for c in ast.walk(fn) if isinstance(c, ast.Call)]
        pattern_api = [c for c in calls if (dotted(c.func) or "").split(".")[0] in ("glob", "fnmatch") or (dotted(c.func) or "") in ("iglob", "glob", "fnmatch", "filter")
                       and not isinstance(c.func, ast.Attribute)]
        by_object = [c for c in calls if (isinstance(c.func, ast.Attribute) and isinstance(c.func.value, ast.Name) and c.func.value.id == pathp and c.func.attr in ("glob", "iterdir"))
                     or ((dotted(c.func) or "") in ("os.scandir", "os.listdir") and c.args and isinstance(c.args[0], ast.Name) and c.args[0].id == pathp)]
        ctx.ob(rule, pattern_api[0] if pattern_api else fn, f"{b}.list enumerates the children of the path object it was given", bool(by_object) and not pattern_api,
               f"{b}.list goes through the string-pattern API `{src(pattern_api[0])[:50] if pattern_api else ''}`: a directory whose own name contains *, ? or [ is listed as "
               "the contents of whatever the pattern matches (other directories, or nothing) while every other command addresses the real directory",
               construct=f"fs:list:{b}:pattern api")


def rule_fs(ctx):
    p = ctx.p
    ctx.rule("C18.FS", "each AsyncPathIO operation has the same normalised body as PathIO's (same pathlib/file call, same argument forwarding)")
    A, B = p.methods("PathIO"), p.methods("AsyncPathIO")
    ops = [n.name for n in p.cls("AbstractPathIO").body if isinstance(n, ast.AsyncFunctionDef)]
    for op in ops:
        if op not in A or op not in B:
            continue
        ba, bb = norm_body(A[op]), norm_body(B[op])
        ctx.ob("C18.FS", B[op], f"{op}: PathIO `{'; '.join(ba)[:60]}` == AsyncPathIO `{'; '.join(bb)[:60]}`", ba == bb,
               f"AsyncPathIO.{op} does `{'; '.join(bb)[:80]}` but PathIO.{op} does `{'; '.join(ba)[:80]}`: the two filesystem backends disagree on this operation",
               construct=f"fs:{op}")
        sa = (len(A[op].args.args), bool(A[op].args.vararg), sorted(x.arg for x in A[op].args.kwonlyargs), bool(A[op].args.kwarg))
        sb = (len(B[op].args.args), bool(B[op].args.vararg), sorted(x.arg for x in B[op].args.kwonlyargs), bool(B[op].args.kwarg))
        ctx.ob("C18.FS", B[op], f"{op}: same parameter shape {sa}", sa == sb, f"signature of {op} differs between the filesystem backends: {sa} vs {sb}", construct=f"fs:{op}:signature")
    ctx.floor("C18.FS", 26)
    # listers: same source iterator (path.glob('*')), StopIteration -> StopAsyncIteration
    def lister_facts(b):
        fn = p.methods(b)["list"]
        txt = " ".join(src(s) for s in fn.body)
        pathp = fn.args.args[1].arg if len(fn.args.args) > 1 else "path"
        it = sorted({src(c) for c in ast.walk(fn) if isinstance(c, ast.Call) and isinstance(c.func, ast.Attribute) and isinstance(c.func.value, ast.Name) and c.func.value.id == pathp})
        it += sorted({src(c.test) for c in ast.walk(fn) if isinstance(c, ast.IfExp)})
        conv = any(isinstance(h, ast.ExceptHandler) and h.type is not None and "StopIteration" in handler_names(h) and any(isinstance(r, ast.Raise) and "StopAsyncIteration" in src(r) for r in ast.walk(h))
                   for h in ast.walk(fn))
        nxt = any(isinstance(c, ast.Call) and isinstance(c.func, ast.Name) and c.func.id == "next" for c in ast.walk(fn))
        return it, conv, nxt
    fa, fb = lister_facts("PathIO"), lister_facts("AsyncPathIO")
    ctx.ob("C18.FS", p.methods("AsyncPathIO")["list"], f"listers iterate the same source {fa[0]} and convert StopIteration", fa == fb and fa[1] and fa[2],
           f"the two filesystem listers differ: PathIO {fa} vs AsyncPathIO {fb} (e.g. iterdir() raises on a file where glob('*') yields nothing)", construct=f"fs:list:{fa[0]} vs {fb[0]}")
    rule_listed(ctx, "C18.FS")
    # the executor wrapper runs the same function with the same arguments
    bi = p.module_funcs.get(("pathio.py", "_blocking_io"))
    if bi is not None:
        w = p.inner_wrapper(bi)
        calls = [c for c in walk_no_nested(w) if isinstance(c, ast.Call) and is_method_call(c, "run_in_executor")]
        ok = len(calls) == 1 and len(calls[0].args) == 2 and dsrc(p, calls[0].args[1], w) == "functools.partial(f, self, *args, **kwargs)"
        ctx.ob("C18.FS", w, "_blocking_io runs f(self, *args, **kwargs) in the executor, unchanged", ok, "_blocking_io does not run the wrapped function with its arguments unchanged", construct="fs:_blocking_io")


def _mode_paths(p, fn, mode):
    """paths of MemoryPathIO._open feasible for a fixed mode constant"""
    mp = [a.arg for a in fn.args.args][2] if len(fn.args.args) > 2 else "mode"

    def truth_of(t):
        if isinstance(t, ast.Compare) and len(t.ops) == 1 and isinstance(t.left, ast.Name) and t.left.id == mp:
            c = t.comparators[0]
            vals = [c.value] if isinstance(c, ast.Constant) else [x.value for x in c.elts] if isinstance(c, (ast.Tuple, ast.List, ast.Set)) else None
            if vals is None:
                return None
            if isinstance(t.ops[0], (ast.Eq, ast.In)):
                return mode in vals
            if isinstance(t.ops[0], (ast.NotEq, ast.NotIn)):
                return mode not in vals
        if isinstance(t, ast.BoolOp):
            vs = [truth_of(v) for v in t.values]
            if isinstance(t.op, ast.Or):
                return True if True in vs else (False if all(v is False for v in vs) else None)
            return False if False in vs else (True if all(v is True for v in vs) else None)
        if isinstance(t, ast.UnaryOp) and isinstance(t.op, ast.Not):
            v = truth_of(t.operand)
            return None if v is None else not v
        return None

    def feasible(ev):
        # path-sensitive: a BoolOp `a or b or mode == X` taken True with mode != X is still feasible (through a/b)
        for e in ev:
            if e[0] == "branch":
                v = truth_of(e[1])
                if v is not None and v != e[2]:
                    return False
        return True
    out = []
    for ev, o in Cfg(lambda n: [], p.issub, unroll=1).seq(fn.body):
        if feasible(ev):
            out.append((ev, o, truth_of))
    return out


def rule_mode(ctx):
    p = ctx.p
    ctx.rule("C18.MODE", "MemoryPathIO._open against the io.open contract, per mode constant, by path enumeration")
    M = p.methods("MemoryPathIO")
    op_ = M["_open"]
    helpers = {n: f for n, f in M.items()}
    SPEC = {"rb": dict(create=False, trunc=False, end=False), "wb": dict(create=True, trunc=True, end=False),
            "ab": dict(create=True, trunc=False, end=True), "r+b": dict(create=False, trunc=False, end=False)}

    def inline_text(n):
        """source text of a statement plus the bodies of self-helper methods it calls (depth 2)"""
        t = src(n)
        for c in walk_self(n):
            if is_self_call(c) and c.func.attr in helpers and c.func.attr not in ("get_node", "_absolute"):
                h = helpers[c.func.attr]
                t += " || " + " ".join(src(s) for s in h.body)
        return t
    for mode, spec in SPEC.items():
        paths = _mode_paths(p, op_, mode)
        rets = [(ev, o) for ev, o, _ in paths if o[0] == "return"]
        truth_of = paths[0][2] if paths else (lambda t: None)

        class _Spec(ast.NodeTransformer):
            """`a if mode == "ab" else b` is the branch selected by the mode under analysis"""

            def visit_IfExp(self, node):
                self.generic_visit(node)
                v = truth_of(node.test)
                return node if v is None else (node.body if v else node.orelse)

        def specialised(n):
            return _Spec().visit(copy.deepcopy(n)) if any(isinstance(x, ast.IfExp) for x in ast.walk(n)) else n
        if not rets:
            ctx.fail("C18.MODE", op_, f"mode {mode!r} has no successful path (not handled)", construct=f"mode:{mode}:unhandled")
            continue
        creates = truncs = ends = False
        create_under_file = False
        for ev, o in rets:
            missing = any(e[0] == "branch" and isinstance(e[1], ast.Compare) and isinstance(e[1].ops[0], ast.Is) and src(e[1].comparators[0]) == "None"
                          and isinstance(e[1].left, ast.Name) and e[1].left.id == "node" and e[2] for e in ev)
            text = " ".join(inline_text(specialised(e[1])) for e in ev if e[0] == "stmt")
            if missing and ("Node('file'" in text or 'Node("file"' in text) and ".append(" in text:
                creates = True
                # parent must have been found a directory on this path
                dir_ok = False
                for e in ev:
                    if e[0] == "branch":
                        t = e[1]
                        for sub in (t.values if isinstance(t, ast.BoolOp) else [t]):
                            if isinstance(sub, ast.Compare) and src(sub.left).endswith("parent.type") and isinstance(sub.comparators[0], ast.Constant) and sub.comparators[0].value == "dir":
                                neq = isinstance(sub.ops[0], ast.NotEq)
                                if (neq and not e[2]) or (not neq and e[2]):
                                    dir_ok = True
                if not dir_ok and "parent.type" not in text:
                    create_under_file = True
            if not missing and ("node.content = io.BytesIO()" in text or "content = io.BytesIO()" in text and "Node(" not in text):
                truncs = True
            if not missing and "SEEK_END" in text:
                ends = True
        got = dict(create=creates, trunc=truncs, end=ends)
        for k in spec:
            what = {"create": "creates a missing file", "trunc": "truncates an existing file", "end": "positions at the end"}[k]
            ctx.ob("C18.MODE", op_, f"mode {mode!r}: {what} = {got[k]} (io.open: {spec[k]})", got[k] == spec[k],
                   f"MemoryPathIO open mode {mode!r}: {what} = {got[k]}, but the filesystem backends (io.open) give {spec[k]}", construct=f"mode:{mode}:{k}={got[k]}")
        if creates:
            ctx.ob("C18.MODE", op_, f"mode {mode!r}: a file is created only under a parent known to be a directory", not create_under_file,
                   f"mode {mode!r}: a file is created without checking that the parent is a directory", construct=f"mode:{mode}:create under non-dir")
    # other modes raise ValueError
    paths = _mode_paths(p, op_, "<<other>>")
    outs = {(o[0], o[1] if o[0] == "raise" else None) for ev, o, _ in paths}
    ctx.ob("C18.MODE", op_, f"an unknown mode raises ValueError ({sorted(map(str, outs))})", outs == {("raise", "ValueError")},
           f"an unknown open mode gives {sorted(map(str, outs))} instead of ValueError", construct="mode:other")
    # opening a directory for writing fails
    for mode in ("wb", "ab", "r+b"):
        ok = True
        for ev, o, _ in _mode_paths(p, op_, mode):
            if o[0] != "return":
                continue
            missing = any(e[0] == "branch" and src(e[1]) == "node is None" and e[2] for e in ev)
            if not missing:
                typed = any(e[0] == "branch" and isinstance(e[1], ast.Compare) and src(e[1].left) == "node.type" for e in ev)
                if not typed:
                    ok = False
        ctx.ob("C18.MODE", op_, f"mode {mode!r}: an existing node is used only after its type was tested", ok,
               f"mode {mode!r}: an existing directory is opened as a file", construct=f"mode:{mode}:dir as file")
    ctx.floor("C18.MODE", 14)


MUT_CALLS = {"append", "pop", "remove", "insert", "clear", "extend"}


def rule_atomic(ctx):
    p = ctx.p
    ctx.rule("C18.ATOMIC", "in-memory mutators: nothing that may raise follows the first mutation on any path; list-use of a parent's content is type-guarded")
    M = p.methods("MemoryPathIO")

    def is_mutation(n):
        for c in walk_self(n):
            if isinstance(c, ast.Call) and isinstance(c.func, ast.Attribute) and c.func.attr in MUT_CALLS and (".content" in src(c.func.value) or src(c.func.value) in ("nodes", "self.fs")):
                return c
            if isinstance(c, (ast.Assign, ast.AugAssign)):
                for t in assign_targets(c):
                    if isinstance(t, ast.Subscript) and ".content" in src(t.value):
                        return c
                    if isinstance(t, ast.Attribute) and t.attr in ("content", "name", "type") and not (isinstance(t.value, ast.Name) and t.value.id == "self"):
                        return c
        return None

    def may_raise_after(n, known_dirs):
        """statements that may raise once the tree has been touched: explicit raise, list ops on a content not known to be a list"""
        if isinstance(n, ast.Raise):
            return "raise"
        for c in walk_self(n):
            if isinstance(c, ast.Call) and isinstance(c.func, ast.Attribute) and c.func.attr in MUT_CALLS | {"index"} and ".content" in src(c.func.value):
                owner = src(c.func.value).rsplit(".content", 1)[0]
                if owner not in known_dirs:
                    return f"{src(c)[:40]} (content of `{owner}` not known to be a list)"
            if isinstance(c, ast.Call) and isinstance(c.func, ast.Name) and c.func.id == "enumerate" and c.args and ".content" in src(c.args[0]):
                owner = src(c.args[0]).rsplit(".content", 1)[0]
                if owner not in known_dirs:
                    return f"iteration over `{src(c.args[0])}` (not known to be a list)"
            if isinstance(c, ast.Subscript) and isinstance(c.ctx, ast.Store) and ".content" in src(c.value):
                owner = src(c.value).rsplit(".content", 1)[0]
                if owner not in known_dirs:
                    return f"item store into `{src(c.value)}`"
        return None
    for name in ("mkdir", "rmdir", "unlink", "rename", "_open"):
        fn = M.get(name)
        if fn is None:
            ctx.fail("C18.ATOMIC", p.cls("MemoryPathIO"), f"MemoryPathIO.{name} missing", construct=f"{name}:missing")
            continue
        helpers = {n: f for n, f in M.items() if n not in ("get_node", "_absolute", name)}
        bad = None
        paths = Cfg(lambda n: [], p.issub, unroll=2).seq(fn.body)
        ctx.paths_enumerated += len(paths)
        for ev, out in paths:
            mutated = None
            known = set()
            fresh = set()
            list_vars = set()
            parent_of, node_of = {}, {}   # parent var -> path expr whose .parent it is ; path expr -> node var
            found_all = set()
            path_bad = None
            infeasible = False
            for e in ev:
                if e[0] == "branch":
                    t, pol = e[1], e[2]
                    t_, pol_ = t, pol
                    while isinstance(t_, ast.UnaryOp) and isinstance(t_.op, ast.Not):
                        t_, pol_ = t_.operand, not pol_
                    if isinstance(t_, ast.Call) and isinstance(t_.func, ast.Name) and t_.func.id == "isinstance" and "list" in src(t_) and not pol_ and src(t_.args[0]) in list_vars:
                        infeasible = True   # the cursor is the content list of a directory created on this very path
                        break
                    # tree invariant: the parent of a node that get_node found (non-None on this path) is a directory
                    found = set()
                    atoms = flatten_test(p, t, pol, fn)
                    for tt, tp in atoms:
                        if isinstance(tt, ast.Compare) and len(tt.ops) == 1 and isinstance(tt.comparators[0], ast.Constant) and tt.comparators[0].value is None and isinstance(tt.left, ast.Name):
                            if (isinstance(tt.ops[0], ast.Is) and not tp) or (isinstance(tt.ops[0], ast.IsNot) and tp):
                                found.add(tt.left.id)
                        if isinstance(tt, ast.Compare) and len(tt.ops) == 1 and isinstance(tt.ops[0], ast.In) and isinstance(tt.left, ast.Constant) and tt.left.value is None \
                                and isinstance(tt.comparators[0], (ast.Tuple, ast.List)) and not tp:
                            found |= {x.id for x in tt.comparators[0].elts if isinstance(x, ast.Name)}
                    found_all |= found
                    for pv, child in parent_of.items():
                        if node_of.get(child) in found_all:
                            known.add(pv)
                    for sub, sp in atoms:
                        if isinstance(sub, ast.Compare) and src(sub.left).endswith(".type") and isinstance(sub.comparators[0], ast.Constant) and sub.comparators[0].value == "dir":
                            is_dir = (isinstance(sub.ops[0], ast.Eq) and sp) or (isinstance(sub.ops[0], ast.NotEq) and not sp)
                            if is_dir:
                                known.add(src(sub.left)[:-5])
                        if isinstance(sub, ast.Call) and isinstance(sub.func, ast.Name) and sub.func.id == "isinstance" and "list" in src(sub) and sp:
                            known.add(src(sub.args[0]))
                    continue
                if e[0] not in ("stmt",):
                    continue
                n = e[1]
                # the parent of a node that get_node just found is a directory (tree invariant): parent = get_node(path.parent) after node = get_node(path) found
                if isinstance(n, ast.Assign) and isinstance(n.targets[0], ast.Name) and isinstance(n.value, ast.Call) and is_self_call(n.value, {"get_node"}) and n.value.args \
                        and src(n.value.args[0]).endswith(".parent"):
                    child = src(n.value.args[0])[:-7]
                    parent_of[n.targets[0].id] = child
                    if node_of.get(child) in found_all:
                        known.add(n.targets[0].id)
                elif isinstance(n, ast.Assign) and isinstance(n.targets[0], ast.Name) and isinstance(n.value, ast.Call) and is_self_call(n.value, {"get_node"}) and n.value.args:
                    node_of[src(n.value.args[0])] = n.targets[0].id
                if isinstance(n, ast.Assign) and isinstance(n.value, ast.Call) and last_attr(n.value.func) == "Node":
                    kw = {k.arg: k.value for k in n.value.keywords}
                    if isinstance(kw.get("content"), ast.List):
                        for t in n.targets:
                            fresh.add(src(t))
                            known.add(src(t))
                elif isinstance(n, ast.Assign) and isinstance(n.targets[0], ast.Name):
                    v = n.value
                    if isinstance(v, ast.Attribute) and v.attr == "content" and src(v.value) in fresh:
                        list_vars.add(n.targets[0].id)
                    else:
                        list_vars.discard(n.targets[0].id)
                        fresh.discard(n.targets[0].id)
                if mutated is not None:
                    # inline helper bodies one level
                    stmts = [n]
                    for c in walk_self(n):
                        if is_self_call(c) and c.func.attr in helpers:
                            stmts += [s for s in ast.walk(helpers[c.func.attr]) if isinstance(s, ast.stmt)]
                    for s in stmts:
                        if s is not n and isinstance(s, ast.If) and isinstance(s.test, ast.Compare) and ".type" in src(s.test) and any(isinstance(r, ast.Raise) for r in s.body):
                            path_bad = path_bad or (n, f"`{src(s.test)}` is checked (and may raise) in a helper called after the tree was already changed")
                        r = may_raise_after(s, known | {"nodes"}) if s is n else ("raise" if isinstance(s, ast.Raise) else None)
                        if r:
                            path_bad = path_bad or (n, r)
                if mutated is None:
                    m = is_mutation(n)
                    if m is None:
                        for c in walk_self(n):
                            if is_self_call(c) and c.func.attr in helpers and any(is_mutation(s) for s in ast.walk(helpers[c.func.attr]) if isinstance(s, ast.stmt)):
                                m = c
                                h = helpers[c.func.attr]
                                # a helper that validates *after* its own or the caller's earlier mutation is handled above; a helper that validates first and then mutates is fine
                    if m is not None:
                        mutated = n
                        # the very mutation statement must itself act on a known list
                        r = may_raise_after(n, known | {"nodes", "dparent_checked"})
                        if r and name != "mkdir":
                            owner_known = any(o in known for o in [src(m.func.value).rsplit(".content", 1)[0]] if isinstance(m, ast.Call) and isinstance(m.func, ast.Attribute))
                            if not owner_known:
                                path_bad = path_bad or (n, r)
            if not infeasible and path_bad:
                bad = bad or path_bad
        ctx.ob("C18.ATOMIC", bad[0] if bad else fn, f"MemoryPathIO.{name}: after the first change of the node tree nothing can fail", bad is None,
               f"MemoryPathIO.{name} changes the node tree and may still fail afterwards ({bad[1] if bad else ''}): the command is answered 451 but the tree has changed "
               "(the filesystem backends fail without changing anything)", construct=f"{name}:mutation before validation")
    ctx.floor("C18.ATOMIC", 5)


def rule_srv(ctx):
    p = ctx.p
    ctx.rule("C18.SRV", "the server asks every backend for the same open modes: a function of the restart offset and the command only")
    modes = set()
    for c in ast.walk(p.trees["server.py"]):
        if isinstance(c, ast.Call) and is_method_call(c, "open", "path_io"):
            m = kwarg(c, "mode", 1)
            fn = p.enclosing_function(c)
            vals = const_values(p, m, fn) if m is not None else ["rb"]
            modes |= {v for v in vals if v}
    table, _ = p.command_table()
    st = p.method("Server", table["stor"])
    for d in st.args.defaults:
        if isinstance(d, ast.Constant):
            modes.add(d.value)
    for c in ast.walk(p.trees["server.py"]):
        if is_self_call(c, {table["stor"]}):
            for a in c.args[2:]:
                if isinstance(a, ast.Constant):
                    modes.add(a.value)
    supported = set()
    for n in ast.walk(p.methods("MemoryPathIO")["_open"]):
        if isinstance(n, ast.Compare) and isinstance(n.left, ast.Name) and n.left.id == "mode":
            c = n.comparators[0]
            supported |= {c.value} if isinstance(c, ast.Constant) else {x.value for x in getattr(c, "elts", [])}
    ctx.ob("C18.SRV", st, f"every open mode the server uses {sorted(modes)} is implemented by MemoryPathIO {sorted(supported)}", modes <= supported,
           f"the server opens files with modes {sorted(modes - supported)} that MemoryPathIO._open does not implement", construct=f"srv:modes {sorted(modes - supported)}")


def rule_state(ctx):
    p = ctx.p
    ctx.rule("C18.STATE", "the in-memory backend keeps no per-instance lookup state: every session has its own instance over ONE shared tree, so a cache in an instance "
                          "goes stale when another session changes the tree (the filesystem backends always see the current tree)")
    for b in p.backends():
        for name, fn in p.methods(b).items():
            if name == "__init__":
                continue
            stores = [t for n in walk_no_nested(fn) for t in (assign_targets(n) if isinstance(n, (ast.Assign, ast.AugAssign, ast.AnnAssign, ast.Delete)) else [])
                      if isinstance(t, (ast.Attribute, ast.Subscript)) and _root_is_self(t)]
            muts = [c_ for c_ in walk_no_nested(fn) if isinstance(c_, ast.Call) and isinstance(c_.func, ast.Attribute) and c_.func.attr in ("setdefault", "update", "pop", "clear", "append", "add", "discard", "popitem")
                    and isinstance(c_.func.value, ast.Attribute) and isinstance(c_.func.value.value, ast.Name) and c_.func.value.value.id == "self" and c_.func.value.attr not in ("fs",)]
            bad = [src(t) for t in stores if not src(t).startswith("self.fs")] + [src(c_)[:40] for c_ in muts]
            ctx.ob("C18.STATE", fn, f"{b}.{name} stores nothing on the backend instance", not bad,
                   f"{b}.{name} keeps state on the backend instance ({bad[:2]}): with one instance per session over a shared tree it goes stale when another session changes the tree",
                   construct=f"{b}.{name}:instance state")
    # decorators that hang state-resetting hooks on mutators are the same smell; covered by C18.SIG (decorator roles)


def _root_is_self(t):
    while isinstance(t, (ast.Attribute, ast.Subscript)):
        t = t.value
    return isinstance(t, ast.Name) and t.id == "self"


CURSOR_MUTATORS = {"seek", "write", "writelines", "truncate", "read", "readline", "readlines", "readinto", "read1"}
TREE_MUTATORS = {"append", "pop", "remove", "insert", "clear", "extend", "sort", "reverse", "update", "setdefault", "popitem", "add", "discard"}


def rule_pure(ctx):
    p = ctx.p
    ctx.rule("C18.PURE", "the query operations of the in-memory backend (exists, is_dir, is_file, stat, list, get_node) change neither the tree nor the content or cursor of a file: "
                         "file objects are shared by every opener, a query by one session must not move another session's transfer (a filesystem query has no such effect)")
    M = p.methods("MemoryPathIO")
    node_cls = p.classes.get("Node")
    node_members = {}
    if node_cls is not None:
        for n in node_cls[0].body:
            if isinstance(n, FuncT) and n.name != "__init__":
                node_members[n.name] = n
    queries = [q for q in ("exists", "is_dir", "is_file", "stat", "list", "get_node", "_absolute") if q in M]
    if len(queries) < 5:
        raise AnalysisError(f"C18.PURE: query operations found: {queries} (floor 5)")

    def effects(fn, seen):
        out = []
        locals_fresh = set()
        for c_ in ast.walk(fn):   # the instance of a class defined inside the query (the lister object) is the query's own fresh state
            if isinstance(c_, ast.ClassDef):
                for m_ in c_.body:
                    if isinstance(m_, FuncT) and m_.args.args:
                        locals_fresh.add(m_.args.args[0].arg)
        for n in ast.walk(fn):
            if isinstance(n, ast.Assign) and len(n.targets) == 1 and isinstance(n.targets[0], ast.Name) and isinstance(n.value, (ast.List, ast.Dict, ast.Set, ast.ListComp, ast.Call)) \
                    and not (isinstance(n.value, ast.Call) and (is_self_call(n.value) or isinstance(n.value.func, ast.Attribute))):
                locals_fresh.add(n.targets[0].id)
        for n in ast.walk(fn):
            if isinstance(n, (ast.Assign, ast.AugAssign, ast.Delete)):
                for t in assign_targets(n):
                    if isinstance(t, (ast.Attribute, ast.Subscript)):
                        root = t
                        while isinstance(root, (ast.Attribute, ast.Subscript)):
                            root = root.value
                        if not (isinstance(root, ast.Name) and root.id in locals_fresh and root.id != "self"):
                            out.append((n, f"stores `{src(t)}`"))
            if isinstance(n, ast.Call) and isinstance(n.func, ast.Attribute):
                a = n.func.attr
                recv = n.func.value
                root = recv
                while isinstance(root, (ast.Attribute, ast.Subscript)):
                    root = root.value
                fresh = isinstance(root, ast.Name) and root.id in locals_fresh
                if a in CURSOR_MUTATORS and not fresh and "content" in src(recv):
                    out.append((n, f"`{src(n)[:40]}` moves/changes the shared file object"))
                elif a in TREE_MUTATORS and not fresh and ("content" in src(recv) or "fs" in src(recv)):
                    out.append((n, f"`{src(n)[:40]}` changes the node tree"))
                if is_self_call(n) and a in M and a not in seen and a in queries:
                    out += effects(M[a], seen | {a})
            if isinstance(n, ast.Attribute) and isinstance(n.ctx, ast.Load) and n.attr in node_members and n.attr not in seen \
                    and any(last_attr(d) in ("property", "cached_property") for d in node_members[n.attr].decorator_list):
                out += [(n, f"property Node.{n.attr}: " + why) for _, why in effects(node_members[n.attr], seen | {n.attr})]
            if isinstance(n, ast.Call) and isinstance(n.func, ast.Attribute) and n.func.attr in node_members and n.func.attr not in seen and not is_self_call(n):
                out += [(n, f"Node.{n.func.attr}(): " + why) for _, why in effects(node_members[n.func.attr], seen | {n.func.attr})]
        return out
    for q in queries:
        eff = effects(M[q], {q})
        ctx.ob("C18.PURE", eff[0][0] if eff else M[q], f"MemoryPathIO.{q} has no effect on the tree or on file objects", not eff,
               f"MemoryPathIO.{q} is a query but {eff[0][1] if eff else ''}: a STAT/LIST/MLSD by any session during a transfer of that file moves the transfer's position "
               "(RETR ends early, REST+STOR writes at the wrong place); the filesystem backends have no such effect", construct=f"pure:{q}")


def rule_tree(ctx):
    p = ctx.p
    ctx.rule("C18.TREE", "the tree walk of the in-memory backend descends only into directories: the content of a file node (a BytesIO) is never iterated as if it were a list of children "
                         "(a path through a regular file is 'not found' on every backend, not an AttributeError answered 451)")
    M = p.methods("MemoryPathIO")
    gn = M.get("get_node")
    if gn is None:
        raise AnalysisError("anchor=MemoryPathIO.get_node not found")
    cursors = {t.id for n in walk_no_nested(gn) if isinstance(n, ast.Assign) for t in n.targets if isinstance(t, ast.Name)
               and ((isinstance(n.value, ast.Attribute) and n.value.attr in ("content", "fs")))}
    if not cursors:
        raise AnalysisError("anchor=tree cursor (a local assigned from <node>.content / self.fs) not found in get_node")

    def iterates_param(h, idx):
        params = [a.arg for a in h.args.args]
        if any(last_attr(d) == "staticmethod" for d in h.decorator_list) is False and params and params[0] in ("self", "cls"):
            params = params[1:]
        if idx >= len(params):
            return False
        name = params[idx]
        return any(isinstance(l, (ast.For, ast.comprehension)) and isinstance(l.iter, ast.Name) and l.iter.id == name for l in ast.walk(h)) or \
            any(isinstance(c, ast.Call) and isinstance(c.func, ast.Name) and c.func.id in ("next", "iter", "filter", "map", "enumerate", "any", "all", "sorted", "list")
                and any(isinstance(a, ast.Name) and a.id == name for x in [c] for a in ast.walk(x)) for c in ast.walk(h))
    sites = []
    for n in walk_no_nested(gn):
        if isinstance(n, ast.For) and isinstance(n.iter, ast.Name) and n.iter.id in cursors:
            sites.append((n, n.iter.id))
        if isinstance(n, ast.Call):
            h = None
            if is_self_call(n) and n.func.attr in M:
                h = M[n.func.attr]
            elif isinstance(n.func, ast.Name):
                h = next((x for x in p.nested_functions(gn) if x.name == n.func.id), None)
            for i, a in enumerate(n.args):
                if isinstance(a, ast.Name) and a.id in cursors:
                    if h is not None and iterates_param(h, i):
                        sites.append((n, a.id))
                    elif h is None and isinstance(n.func, ast.Name) and n.func.id in ("next", "iter", "filter", "map", "enumerate", "any", "all"):
                        sites.append((n, a.id))
        if isinstance(n, ast.comprehension) and isinstance(n.iter, ast.Name) and n.iter.id in cursors:
            sites.append((n, n.iter.id))
    if not sites:
        raise Inconclusive("C18.TREE: the child search of get_node was not recognised")
    for node, cur in sites:
        anchor = node if not isinstance(node, ast.comprehension) else p.parent.get(node)
        guards = all_guards(p, anchor, gn)
        ok = any(pol and isinstance(t, ast.Call) and isinstance(t.func, ast.Name) and t.func.id == "isinstance" and t.args and src(t.args[0]) == cur and "list" in src(t) for t, pol in guards) or \
            any(pol and isinstance(t, ast.Compare) and src(t.left).endswith(".type") and isinstance(t.comparators[0], ast.Constant) and t.comparators[0].value == "dir"
                and isinstance(t.ops[0], ast.Eq) for t, pol in guards)
        # the very first use, on the root list, needs no test: accept a cursor whose only definition before the loop is self.fs AND that is re-tested before each later use
        ctx.ob("C18.TREE", anchor, f"get_node searches `{cur}` for a child only after checking that it is a list of children", ok,
               f"get_node iterates `{cur}` without checking that it is a directory's child list: below a regular file it is the file's BytesIO, whose iteration yields bytes lines - "
               "`.name` on them raises AttributeError and the command is answered 451 (the filesystem backends answer 550 / not found)", construct="tree:unchecked descent")


def rule_append_seek(ctx):
    from .c01 import rule_seek
    ctx.rule("C18.APPEND", "the server never positions a file it opened in append mode: io files ignore seek() for writes in 'ab', the in-memory backend honours it - REST+APPE must switch "
                           "to 'r+b' like REST+STOR (shared with C01.SEEK)")
    ctx.borrow(rule_seek, {"C01.SEEK": "C18.APPEND"})


def rule_shared_tree(ctx):
    p = ctx.p
    ctx.rule("C18.SHARED", "every session's in-memory backend works on THE tree of the server: the state handed in by the nursery is adopted whenever one was given (`is None`, not truthiness - "
                           "an empty tree is falsy), and `state` returns the object the next instance must adopt")
    mi = p.method("MemoryPathIO", "__init__")
    stp = "state"
    fs_stores = [n for n in walk_no_nested(mi) if isinstance(n, ast.Assign) and any(src(t) == "self.fs" for t in n.targets)]
    if not fs_stores:
        raise AnalysisError("anchor=MemoryPathIO.__init__ self.fs store not found")
    adopts = [x for n in fs_stores for x in ([n.value] if isinstance(n.value, ast.Name) else [b for i_ in ast.walk(n.value) if isinstance(i_, ast.IfExp) for b in (i_.body, i_.orelse)])
              if isinstance(x, ast.Name) and x.id == stp]
    ok = False
    for n in adopts:
        ok = any(isinstance(t, ast.Compare) and isinstance(t.ops[0], (ast.Is, ast.IsNot)) and isinstance(t.comparators[0], ast.Constant) and t.comparators[0].value is None and src(t.left) == stp
                 and ((isinstance(t.ops[0], ast.Is) and not pol) or (isinstance(t.ops[0], ast.IsNot) and pol)) for t, pol in all_guards(p, n, mi))
    truthy = [n for n in fs_stores for x in ast.walk(n.value) if isinstance(x, ast.BoolOp) and any(isinstance(v, ast.Name) and v.id == stp for v in x.values)]
    ctx.ob("C18.SHARED", fs_stores[0], "MemoryPathIO adopts the shared state under `state is not None`", ok and not truthy,
           "MemoryPathIO decides by truthiness whether to adopt the shared state: while the tree is still empty every new session gets a private tree of its own "
           "(what one session creates the other cannot see; the filesystem backends have one tree)", construct="shared:adoption test")
    sp = [n for n in p.cls("MemoryPathIO").body if isinstance(n, FuncT) and n.name == "state" and any(last_attr(d) == "property" for d in n.decorator_list)]
    if sp:
        rets = [src(r.value) for r in walk_no_nested(sp[0]) if isinstance(r, ast.Return) and r.value is not None]
        ctx.ob("C18.SHARED", sp[0], "MemoryPathIO.state is the object the constructor adopts (self.fs)", rets == ["self.fs"], f"MemoryPathIO.state returns {rets}, the constructor adopts `state` as self.fs",
               construct="shared:state property")


def rule_borrowed_r4(ctx):
    from .c13 import rule_451
    from .c16 import rule_support
    ctx.rule("C18.451", "a failing backend operation is answered with the same code whatever the backend: the dispatcher maps every PathIOError to 451, independent of errno "
                        "(the in-memory backend raises errno-less errors; shared with C13.451)")
    ctx.borrow(rule_451, {"C13.451": "C18.451"})
    ctx.rule("C18.ARGS", "the executor backend gets every argument the plain one gets: with_timeout forwards *args and **kwargs (shared with C16.SUPPORT)")
    ctx.borrow(rule_support, {"C16.SUPPORT": "C18.ARGS"}, only=lambda fn: "with_timeout" in fn)


def rule_index(ctx):
    p = ctx.p
    ctx.rule("C18.INDEX", "the in-memory backend removes / replaces the entry whose NAME matched: an index taken from `enumerate(<dir>.content)` is used only where "
                          "`<entry>.name == <path>.name` held for it (rmdir, unlink, rename); rename takes the entry out of the source directory and puts it into the destination")
    M = p.methods("MemoryPathIO")
    n_ops = 0
    for name in ("rmdir", "unlink", "rename"):
        fn = M.get(name)
        if fn is None:
            continue
        loops = [l for l in walk_no_nested(fn) if isinstance(l, ast.For) and isinstance(l.iter, ast.Call) and isinstance(l.iter.func, ast.Name) and l.iter.func.id == "enumerate"
                 and isinstance(l.target, ast.Tuple) and len(l.target.elts) == 2 and all(isinstance(e, ast.Name) for e in l.target.elts)]
        for l in loops:
            idx, ent = l.target.elts[0].id, l.target.elts[1].id
            coll = src(l.iter.args[0]) if l.iter.args else ""

            def is_match(t, pol, fn=fn, ent=ent, idx=idx):
                t = deep_expand(p, t, fn, stop={ent, idx})
                return pol and isinstance(t, ast.Compare) and len(t.ops) == 1 and isinstance(t.ops[0], ast.Eq) and {src(t.left).split(".")[0], src(t.comparators[0]).split(".")[0]} >= {ent} \
                    and src(t.left).endswith(".name") and src(t.comparators[0]).endswith(".name")
            # uses of the index on the same collection: inside the loop they need the match as a guard; after the loop the loop must leave only by `break` under the match
            uses = []
            for x in walk_no_nested(fn):
                if isinstance(x, ast.Call) and is_method_call(x, "pop") and src(x.func.value) == coll and x.args and src(x.args[0]) == idx:
                    uses.append(x)
                if isinstance(x, ast.Subscript) and src(x.value) == coll and src(x.slice) == idx and isinstance(x.ctx, (ast.Store, ast.Del)):
                    uses.append(x)
            for u in uses:
                n_ops += 1
                inside = any(u is y for y in ast.walk(l))
                if inside:
                    ok = any(is_match(t, pol) for t, pol in all_guards(p, u, fn))
                else:
                    brs = [b for b in ast.walk(l) if isinstance(b, ast.Break)]
                    ok = bool(brs) and all(any(is_match(t, pol) for t, pol in all_guards(p, b, fn)) for b in brs) and not any(isinstance(c, ast.Continue) for c in ast.walk(l))
                ctx.ob("C18.INDEX", u, f"MemoryPathIO.{name}: `{src(u)[:40]}` acts on the entry whose name matched", ok,
                       f"MemoryPathIO.{name}: `{src(u)[:40]}` uses the index of an entry that was not selected by `{ent}.name == <path>.name`: another entry of the directory is removed or overwritten",
                       construct=f"index:{name}:{src(u)[:30]}")
    rn = M.get("rename")
    if rn is not None:
        params = [a.arg for a in rn.args.args]
        s_par = [n.targets[0].id for n in walk_no_nested(rn) if isinstance(n, ast.Assign) and isinstance(n.targets[0], ast.Name) and isinstance(n.value, ast.Call) and is_self_call(n.value, {"get_node"})
                 and n.value.args and src(n.value.args[0]) == f"{params[1]}.parent"] if len(params) > 2 else []
        d_par = [n.targets[0].id for n in walk_no_nested(rn) if isinstance(n, ast.Assign) and isinstance(n.targets[0], ast.Name) and isinstance(n.value, ast.Call) and is_self_call(n.value, {"get_node"})
                 and n.value.args and src(n.value.args[0]) == f"{params[2]}.parent"] if len(params) > 2 else []
        removed = any(isinstance(c, ast.Call) and c.func.attr in ("pop", "remove") and src(c.func.value) == f"{sp}.content" for sp in s_par for c in walk_no_nested(rn) if isinstance(c, ast.Call) and isinstance(c.func, ast.Attribute)) or \
            any(isinstance(d_, ast.Delete) and any(src(t).startswith(f"{sp}.content[") for t in d_.targets) for sp in s_par for d_ in walk_no_nested(rn))
        placed = any((isinstance(c, ast.Call) and isinstance(c.func, ast.Attribute) and c.func.attr in ("append", "insert") and src(c.func.value) == f"{dp}.content") for dp in d_par for c in walk_no_nested(rn)) and \
            any(isinstance(x, ast.Subscript) and isinstance(x.ctx, ast.Store) and src(x.value) == f"{dp}.content" for dp in d_par for x in walk_no_nested(rn))
        ctx.ob("C18.INDEX", rn, "rename removes the entry from the source directory", bool(removed), "MemoryPathIO.rename never takes the entry out of the source directory: the file exists under both names",
               construct="index:rename:no removal")
        ctx.ob("C18.INDEX", rn, "rename puts the entry into the destination directory (replacing a same-named entry, else appending)", bool(placed),
               "MemoryPathIO.rename does not both replace a same-named destination entry and append otherwise: the renamed entry is lost or duplicated", construct="index:rename:no placement")
        for l in [x for x in walk_no_nested(rn) if isinstance(x, ast.For) and x.orelse]:
            for st_ in ast.walk(l):
                if isinstance(st_, ast.Assign) and any(isinstance(t, ast.Subscript) and any(src(t.value) == f"{dp}.content" for dp in d_par) for t in st_.targets):
                    blk = p.parent.get(st_)
                    body = getattr(blk, "body", [])
                    ok = st_ in body and any(isinstance(x, ast.Break) for x in body[body.index(st_) + 1:])
                    ctx.ob("C18.INDEX", st_, "rename: after replacing the same-named destination entry the search loop is left (the else-append does not run as well)", ok,
                           "MemoryPathIO.rename replaces the destination entry and then also reaches the loop's else: the renamed entry is in the directory twice",
                           construct="index:rename:replace without break")
    if rn is not None:
        # the removal loop finds the entry by its OLD name: the entry is renamed only after it was taken out of the source directory (or the loop compares identities)
        renames = [n for n in walk_no_nested(rn) if isinstance(n, ast.Assign) and isinstance(n.targets[0], ast.Attribute) and n.targets[0].attr == "name"]
        for l in [x for x in walk_no_nested(rn) if isinstance(x, ast.For)]:
            pops = [c for c in ast.walk(l) if isinstance(c, ast.Call) and isinstance(c.func, ast.Attribute) and c.func.attr in ("pop", "remove") and any(src(c.func.value) == f"{sp}.content" for sp in s_par)]
            dels = [d_ for d_ in ast.walk(l) if isinstance(d_, ast.Delete) and any(src(t).startswith(f"{sp}.content[") for sp in s_par for t in d_.targets)]
            if not pops and not dels:
                continue
            by_name = any(isinstance(t, ast.Compare) and any(src(x).endswith(".name") for x in [t.left] + t.comparators) for t in ast.walk(l) if isinstance(t, ast.Compare))
            early = [a for a in renames if (a.lineno, a.col_offset) < (l.lineno, l.col_offset)]
            ctx.ob("C18.INDEX", l, "rename: the entry keeps its old name until it has been taken out of the source directory", not (by_name and early),
                   f"MemoryPathIO.rename sets `{src(early[0])[:40] if early else ''}` before the loop that looks the entry up by its old name in the source directory: the lookup "
                   "no longer finds it, the entry stays in the source directory under its new name as well (a ghost the directory cannot be removed with)",
                   construct="index:rename:renamed before removal")
    if n_ops < 4:
        ctx.floor_errors.append(f"rule=C18.INDEX: {n_ops} index uses found (floor 4)")
    # the nursery hands every new backend the state of the first one
    call = p.method("PathIONursery", "__call__")
    st = [n for n in walk_no_nested(call) if isinstance(n, ast.Assign) and src(n.targets[0]) == "self.state"]
    ok = len(st) == 1 and src(st[0].value).endswith(".state") and any(isinstance(t, ast.Compare) and isinstance(t.ops[0], (ast.Is, ast.IsNot)) and src(t.left) == "self.state"
                                                                     and isinstance(t.comparators[0], ast.Constant) and t.comparators[0].value is None
                                                                     and (isinstance(t.ops[0], ast.Is) == bool(pol)) for t, pol in all_guards(p, st[0], call))
    ctx.ob("C18.INDEX", call, "the nursery remembers the first instance's state (when it has none yet) and passes it on", ok,
           "PathIONursery does not keep the first backend's state under `self.state is None`: every session gets a backend with a tree of its own", construct="nursery:state kept")


RULES = [rule_sig, rule_fs, rule_mode, rule_atomic, rule_srv, rule_state, rule_pure, rule_tree, rule_append_seek, rule_shared_tree, rule_borrowed_r4, rule_index]
