"""C19 Malformed input from the peer is contained on both sides"""
import ast
from ..model import *
from ..util import *
from ..facts import *
from ..paths import Cfg, evaluated

EXPLANATION = (
    "Exception-escape (may-raise) analysis of the listing parsers: the may-raise set of parse_list_line_unix, "
    "parse_unix_mode, parse_ls_date, format_date_time and parse_list_line_windows is computed transitively from an "
    "effect table over inferred receiver kinds (str/dict/list/datetime) and must be a subset of the classes the "
    "chain in parse_list_line converts, whose terminal raise is ValueError; a construct with unknown effect is "
    "inconclusive, never a pass. A parser must not return an empty/'.' name for a line it could not split (such a "
    "line would be skipped silently): every separator search on the name part raises when the separator is absent. "
    "Server containment: the dispatcher's try has a catch-all for Exception that logs and does not re-raise, only "
    "CancelledError is re-raised, every release of the cleanup (C12) stays unconditional. EOF: every loop that reads "
    "lines from a peer terminates on an empty read. DOT: the lister's '.'/'..' test compares the whole name and "
    "dominates both the enqueue and the return; the windows parser rejects them."
)
NOT_DECIDED = [
    "termination for hostile listings in general (a name such as 'x/..')",
    "well-typedness of results; behaviour of other sessions at run time",
    "malformed passive-mode answers / 257 replies beyond: they raise ordinary exceptions (not enumerated)",
]

STR_NORAISE = {"rstrip", "lstrip", "strip", "startswith", "endswith", "isdigit", "isdecimal", "isascii", "isalpha", "lower", "upper", "replace", "split", "rsplit", "partition", "rpartition",
               "join", "format", "items", "keys", "values", "get", "find", "rfind", "count", "splitlines", "title", "casefold"}
STR_RAISE = {"index": {"ValueError"}, "rindex": {"ValueError"}, "decode": {"UnicodeDecodeError"}, "encode": {"UnicodeEncodeError"}}
CALLS = {"datetime.datetime.now": set(), "datetime.timedelta": set(), "timedelta": set(), "calendar.isleap": set(), "datetime.datetime.strptime": {"ValueError"}, "strptime": {"ValueError"}, "pathlib.PurePosixPath": set(), "len": set(),
         "setlocale": set(), "isinstance": set(), "int": {"ValueError"}, "float": {"ValueError"}, "str": set(), "tuple": set(), "list": set(), "bool": set(), "repr": set(), "min": {"ValueError"},
         "max": {"ValueError"}, "range": set(), "enumerate": set(), "zip": set(), "sorted": set(), "reversed": set(), "any": set(), "all": set(), "dict": set(), "set": set()}


def analyse_parser(p, bc, name, seen=()):
    fn = bc[name]
    raises, unknown = {}, []
    kinds = {a.arg: "param" for a in fn.args.args}
    for n in ast.walk(fn):
        if isinstance(n, ast.Assign) and len(n.targets) == 1 and isinstance(n.targets[0], ast.Name):
            v, t = n.value, n.targets[0].id
            if isinstance(v, ast.Dict):
                kinds[t] = "dict"
            elif isinstance(v, (ast.List, ast.ListComp)):
                kinds[t] = "list"
            elif isinstance(v, ast.JoinedStr) or (isinstance(v, ast.Constant) and isinstance(v.value, str)):
                kinds[t] = "str"
            elif isinstance(v, ast.Constant) and isinstance(v.value, int):
                kinds[t] = "int"
            elif isinstance(v, ast.Subscript) and isinstance(v.slice, ast.Slice):
                kinds.setdefault(t, "str")
            elif isinstance(v, ast.Call) and isinstance(v.func, ast.Attribute):
                a = v.func.attr
                recv_kind = kinds.get(getattr(v.func.value, "id", None))
                if a in ("strptime", "now") or (a == "replace" and recv_kind == "datetime"):
                    kinds[t] = "datetime"
                elif a in ("rstrip", "lstrip", "strip", "decode", "join", "replace", "lower", "upper"):
                    kinds[t] = "str"
                elif a in ("split", "rsplit"):
                    kinds[t] = "list"
                elif a in ("index", "rindex", "find", "rfind"):
                    kinds[t] = "int"
            elif isinstance(v, ast.Call) and isinstance(v.func, ast.Name) and v.func.id == "strptime":
                kinds[t] = "datetime"
            elif isinstance(v, ast.BinOp) and isinstance(v.op, (ast.Sub, ast.Add)) and kinds.get(getattr(v.left, "id", None)) == "datetime":
                kinds[t] = "timedelta"
        if isinstance(n, ast.Assign) and isinstance(n.targets[0], ast.Tuple) and isinstance(n.value, ast.Call) and isinstance(n.value.func, ast.Attribute) and n.value.func.attr in ("partition", "rpartition"):
            for e in n.targets[0].elts:
                if isinstance(e, ast.Name):
                    kinds[e.id] = "str"

    def kind_of(e):
        if isinstance(e, ast.Name):
            return kinds.get(e.id)
        if isinstance(e, ast.Subscript):
            k = kind_of(e.value)
            if isinstance(e.slice, ast.Slice):
                return k
            if k in ("dict", "str"):
                return "str"
        if isinstance(e, ast.Call) and isinstance(e.func, ast.Attribute) and e.func.attr in ("strip", "rstrip", "lstrip", "decode", "replace", "lower"):
            return "str"
        return None

    def add(cls, node):
        raises.setdefault(cls, node)
    for n in ast.walk(fn):
        if isinstance(n, ast.Raise) and n.exc is not None:
            add(exc_name(n.exc), n)
        elif isinstance(n, ast.Subscript) and isinstance(n.ctx, ast.Load) and not isinstance(n.slice, ast.Slice):
            k = kind_of(n.value)
            if k == "dict":
                add("KeyError", n)
            elif k in ("str", "list", "param"):
                add("IndexError", n)
            else:
                add("KeyError", n)
                add("IndexError", n)
        elif isinstance(n, ast.BinOp) and isinstance(n.op, (ast.Div, ast.FloorDiv, ast.Mod)) and not isinstance(n.left, (ast.Constant, ast.JoinedStr)):
            add("ZeroDivisionError", n)
        elif isinstance(n, ast.BinOp) and isinstance(n.op, ast.Pow):
            add("OverflowError", n)
        elif isinstance(n, ast.Attribute) and isinstance(n.ctx, ast.Load) and isinstance(n.value, ast.Name) and kinds.get(n.value.id) is None and n.value.id not in ("self", "cls", "datetime", "calendar", "pathlib", "errors") \
                and not isinstance(p.parent.get(n), ast.Call):
            add("AttributeError", n)
        elif isinstance(n, ast.Call):
            f = n.func
            text = dotted(f) or src(f)
            if isinstance(f, ast.Attribute) and isinstance(f.value, ast.Name) and f.value.id in ("self", "cls") and f.attr in bc:
                if f.attr not in seen:
                    r, u = analyse_parser(p, bc, f.attr, seen + (name,))
                    for c, nd in r.items():
                        add(c, nd)
                    unknown += u
            elif text in CALLS:
                for c in CALLS[text]:
                    add(c, n)
                if text == "int" and n.args and kind_of(n.args[0]) not in ("str",) and not isinstance(n.args[0], (ast.Subscript, ast.Name, ast.Call)):
                    add("TypeError", n)
            elif isinstance(f, ast.Attribute):
                a = f.attr
                k = kind_of(f.value)
                if a == "replace" and k == "datetime":
                    add("ValueError", n)
                elif a in STR_NORAISE or a in ("total_seconds", "strftime", "append", "isleap", "extend"):
                    pass
                elif a in STR_RAISE:
                    for c in STR_RAISE[a]:
                        add(c, n)
                else:
                    unknown.append(n)
            elif isinstance(f, ast.Name) and f.id in BUILTIN_H:
                pass
            elif isinstance(f, ast.Name) and any(isinstance(x, FuncT) and x.name == f.id and x is not fn for x in ast.walk(fn)):
                pass   # a local function of the parser: its body is part of this walk
            else:
                unknown.append(n)
    return raises, unknown


def rule_funnel(ctx):
    p = ctx.p
    ctx.rule("C19.FUNNEL", "the may-raise set of the listing parsers is contained in the classes the parser chain converts; terminal raise is ValueError")
    bc = p.methods("BaseClient")
    pll = bc["parse_list_line"]
    funnel = None
    for h in [n for n in walk_no_nested(pll) if isinstance(n, ast.ExceptHandler)]:
        t = p.parent.get(h)
        if any(isinstance(c, ast.Call) and isinstance(c.func, ast.Name) for s in t.body for c in walk_self(s)):
            funnel = handler_names(h) if h.type is not None else ["BaseException"]
            swallow = not any(isinstance(r, ast.Raise) for s in h.body for r in walk_self(s))
            ctx.ob("C19.FUNNEL", h, "a failing parser is recorded and the next parser is tried", swallow, "the parser chain re-raises inside its handler", construct="parse_list_line:handler raises")
    if funnel is None:
        raise AnalysisError("anchor=parser chain handler (try around parser(b) in parse_list_line) not found")
    for parser in ("parse_list_line_unix", "parse_list_line_windows"):
        r, u = analyse_parser(p, bc, parser)
        escaped = {c: nd for c, nd in r.items() if not any(p.issub(c, f_) for f_ in funnel)}
        for c, node in sorted(escaped.items()):
            ctx.fail("C19.FUNNEL", node, f"{parser} can raise {c} at `{src(node)[:50]}`, which the parser chain does not convert (it converts {funnel}): a hostile listing line makes "
                     f"Client.list() fail with {c} instead of the documented ValueError", construct=f"{parser}:{c}")
        if not escaped:
            ctx.ob("C19.FUNNEL", bc[parser], f"{parser}: may-raise set {sorted(r)} is contained in the funnel {funnel}", True)
            if u:
                raise Inconclusive(f"C19.FUNNEL: call with unknown effect in {parser}: {src(u[0])[:60]}")
    r, u = analyse_parser(p, bc, "parse_mlsx_line")
    bad = {c: nd for c, nd in r.items() if not p.issub(c, "ValueError")}
    for c, node in sorted(bad.items()):
        ctx.fail("C19.FUNNEL", node, f"parse_mlsx_line can raise {c} at `{src(node)[:50]}` (not a ValueError)", construct=f"parse_mlsx_line:{c}")
    if not bad:
        ctx.ob("C19.FUNNEL", bc["parse_mlsx_line"], f"parse_mlsx_line: may-raise set {sorted(r)} is within ValueError", True)
    term = [n for n in pll.body if isinstance(n, ast.Raise)]
    ok = bool(term) and term[-1].exc is not None and exc_name(term[-1].exc) == "ValueError" and pll.body[-1] is term[-1]
    ctx.ob("C19.FUNNEL", pll, "the parser chain ends with `raise ValueError(...)` (a line no parser accepts is reported, not dropped)", ok,
           "the parser chain's terminal statement is not `raise ValueError`: an unparsable line is dropped or reported with another class", construct="parse_list_line:terminal raise")
    # the chain tries every parser, skipping only None
    loops = [l for l in walk_no_nested(pll) if isinstance(l, ast.For)]
    ok = bool(loops) and not any(isinstance(x, ast.Break) for x in walk_no_nested(loops[0]))
    ctx.ob("C19.FUNNEL", pll, "every configured parser is tried", ok, "the parser chain stops early", construct="parse_list_line:loop")


def rule_nodrop(ctx):
    p = ctx.p
    ctx.rule("C19.NODROP", "a parser never returns an empty name for a line it could not split: separator searches on the name part raise when the separator is absent")
    bc = p.methods("BaseClient")
    for parser in ("parse_list_line_unix", "parse_list_line_windows"):
        fn = bc[parser]
        for c in walk_no_nested(fn):
            if isinstance(c, ast.Call) and isinstance(c.func, ast.Attribute) and c.func.attr in ("partition", "rpartition", "find", "rfind", "split", "rsplit") \
                    and c.args and isinstance(c.args[0], ast.Constant) and isinstance(c.args[0].value, str) and c.args[0].value.strip():
                # a non-raising search for a *structural* separator (e.g. ' -> ') whose result feeds the returned name
                ctx.ob("C19.NODROP", c, f"{parser}: structural separator {c.args[0].value!r} is located with a raising search (index/rindex)", False,
                       f"{parser}: separator {c.args[0].value!r} is located with non-raising `{c.func.attr}`: a line without it yields an empty name, which the lister skips as '.' - "
                       "the unparsable line is silently dropped instead of reported", construct=f"{parser}:{c.func.attr}({c.args[0].value!r})")
        idx = [c for c in walk_no_nested(fn) if isinstance(c, ast.Call) and isinstance(c.func, ast.Attribute) and c.func.attr in ("index", "rindex")]
        ctx.ob("C19.NODROP", fn, f"{parser}: {len(idx)} column separators are located with raising index()/rindex()", len(idx) >= (4 if "unix" in parser else 2),
               f"{parser}: fewer raising separator searches than columns", construct=f"{parser}:index count {len(idx)}")
    # the lister returns names via PurePosixPath(name): an empty string becomes '.', which is skipped - so parsers must not produce '' for malformed input: checked above


def rule_srv(ctx):
    p = ctx.p
    ctx.rule("C19.SRV", "dispatcher: catch-all for Exception that logs and does not re-raise; only CancelledError re-raised; cleanup follows unconditionally")
    d, tr = p.dispatcher_try()
    catch_all = [h for h in tr.handlers if h.type is not None and handler_names(h) == ["Exception"]]
    ctx.ob("C19.SRV", tr, "the dispatcher's try has a catch-all for Exception", bool(catch_all),
           "dispatcher has no catch-all for Exception: an error in one session escapes to the asyncio server callback", construct="dispatcher:no catch-all")
    for h in catch_all:
        rr = any(isinstance(s, ast.Raise) for s in ast.walk(h))
        ctx.ob("C19.SRV", h, "the catch-all does not re-raise", not rr, "dispatcher re-raises the session's exception into the asyncio server callback", construct="dispatcher:re-raise")
        logs = any(isinstance(c, ast.Call) and isinstance(c.func, ast.Attribute) and c.func.attr in ("exception", "error", "warning") for s in h.body for c in walk_self(s))
        ctx.ob("C19.SRV", h, "the catch-all logs the error", logs, "the dispatcher's catch-all swallows the error silently", construct="dispatcher:no log")
    for h in tr.handlers:
        if h is not None and h not in catch_all:
            names = handler_names(h) if h.type is not None else ["BaseException"]
            ok = names == ["CancelledError"] and len(h.body) == 1 and isinstance(h.body[0], ast.Raise) and h.body[0].exc is None
            ctx.ob("C19.SRV", h, f"handler for {names} is the bare re-raise of CancelledError", ok, f"dispatcher handler for {names} changes how session errors are contained", construct=f"dispatcher:handler {names}")
    # the try covers the whole session loop: the while True loop is inside the try body
    loop_in = any(isinstance(s, ast.While) for s in tr.body)
    ctx.ob("C19.SRV", tr, "the session loop is inside the try", loop_in, "the session loop is outside the dispatcher's try", construct="dispatcher:loop outside try")
    # every top-level release of the finally is guarded only by ownership tests (no test on how the session ended)
    conn = p.session_var()
    for s in tr.finalbody:
        if isinstance(s, ast.If):
            names = {x.id for x in ast.walk(s.test) if isinstance(x, ast.Name)}
            ok = names <= {conn, "self", "asyncio", "tasks_to_wait"} | {t.id for n in walk_no_nested(d) if isinstance(n, ast.Assign) for t in n.targets if isinstance(t, ast.Name) and p.parent.get(n) in (tr,) }
            bad = {n for n in names if n in ("exc", "error", "e", "result", "cmd", "rest")}
            ctx.ob("C19.SRV", s, f"cleanup step `if {src(s.test)[:50]}` depends only on what the session owns", not bad,
                   f"cleanup step depends on how the session ended ({sorted(bad)})", construct=f"finally:{src(s.test)[:50]}")
    # server-side undecodable bytes / over-long lines: parse_command raises inside a task whose result() is taken inside the try
    res = [c for c in walk_no_nested(d) if isinstance(c, ast.Call) and is_method_call(c, "result")]
    ok = bool(res) and all(any(q is tr for q in _anc(p, c)) for c in res)
    ctx.ob("C19.SRV", d, "task results (and the exceptions they carry) are collected inside the try", ok, "task.result() is taken outside the dispatcher's try", construct="dispatcher:result outside try")


def _anc(p, n):
    q = p.parent.get(n)
    while q is not None:
        yield q
        q = p.parent.get(q)


def rule_eof(ctx):
    p = ctx.p
    ctx.rule("C19.EOF", "every loop that reads lines from a peer terminates on an empty read")
    # every read of a control line (server: the command reader; client: the reply reader and whatever helper reads continuation lines) is followed
    # by `if not <line>: ... raise` before the line is used
    lister = p.nested(p.method("Client", "list"), "__anext__")
    n_sites = 0
    for cls in ("Server", "BaseClient", "Client"):
        for m in p.methods(cls).values():
            for fn in [m] + p.nested_functions(m):
                if fn is lister or any(fn is x for x in p.nested_functions(lister)):
                    continue    # the data-stream lister has its own end-of-listing rule below
                for n in walk_no_nested(fn):
                    if not (isinstance(n, ast.Await) and isinstance(n.value, ast.Call) and is_method_call(n.value, "readline") and not n.value.args):
                        continue
                    n_sites += 1
                    par = p.parent.get(n)
                    var = par.targets[0].id if isinstance(par, ast.Assign) and len(par.targets) == 1 and isinstance(par.targets[0], ast.Name) and par.value is n else None
                    ok = False
                    if var is not None:
                        blk, idx = None, None
                        owner = p.parent.get(par)
                        for fld in ("body", "orelse", "finalbody"):
                            b_ = getattr(owner, fld, None)
                            if isinstance(b_, list) and par in b_:
                                blk, idx = b_, b_.index(par)
                        for st in (blk[idx + 1:] if blk is not None else []):
                            if isinstance(st, ast.If) and isinstance(st.test, ast.UnaryOp) and isinstance(st.test.op, ast.Not) and isinstance(st.test.operand, ast.Name) \
                                    and st.test.operand.id == var and st.body and isinstance(st.body[-1], ast.Raise):
                                ok = True
                                break
                            if any(isinstance(x, ast.Name) and x.id == var for x in ast.walk(st)):
                                break    # used before it was tested
                    ctx.ob("C19.EOF", n, f"{p.qualname(fn)}: an empty control-line read (peer closed) raises before the line is used", ok,
                           f"{p.qualname(fn)}: an empty read (peer closed) is not turned into an error before the line is parsed: the reader loops forever on a closed stream "
                           "(or parses an empty line as a reply)", construct=f"eof:{fn.name}", function=p.qualname(fn))
    if n_sites < 2:
        ctx.floor_errors.append(f"rule=C19.EOF: {n_sites} control-line read sites (floor 2)")
    lst = p.nested(p.method("Client", "list"), "__anext__")
    inner = [w for w in walk_no_nested(lst) if isinstance(w, ast.While) and isinstance(w.test, ast.UnaryOp) and isinstance(w.test.op, ast.Not)]
    # the same loop written as `while True: line = ...readline(); if line: break; ...` (e.g. a walrus in the loop test)
    for w in walk_no_nested(lst):
        if isinstance(w, ast.While) and isinstance(w.test, ast.Constant) and w.test.value is True and w not in inner:
            reads = {n.targets[0].id for n in w.body if isinstance(n, ast.Assign) and len(n.targets) == 1 and isinstance(n.targets[0], ast.Name) and isinstance(n.value, ast.Await)
                     and isinstance(n.value.value, ast.Call) and is_method_call(n.value.value, "readline")}
            leaves_on_line = any(isinstance(i_, ast.If) and i_.body and isinstance(i_.body[-1], ast.Break)
                                 and any(pol and ((isinstance(t, ast.Name) and t.id in reads) or (isinstance(t, ast.Await) and isinstance(t.value, ast.Call) and is_method_call(t.value, "readline")))
                                         for t, pol in flatten_test(p, i_.test, True, lst)) for i_ in w.body)
            if reads and leaves_on_line:
                inner.append(w)
    ok = False
    for w in inner:
        fin = any(isinstance(c, ast.Call) and is_method_call(c, "finish") for c in walk_no_nested(w))
        stop = any(isinstance(r, ast.Raise) and r.exc is not None and exc_name(r.exc) == "StopAsyncIteration" for r in walk_no_nested(w))
        ok = ok or (fin and stop)
    ctx.ob("C19.EOF", lst, "the lister finishes the stream on an empty read and stops when no directory is left", ok,
           "the lister does not stop on an empty read with an empty directory queue", construct="eof:lister")
    # AsyncStreamIterator stops on empty read (shared with C01.EOF)
    it = p.method("AsyncStreamIterator", "__anext__")
    ok = any(isinstance(r, ast.Raise) and r.exc is not None and exc_name(r.exc) == "StopAsyncIteration" for r in walk_no_nested(it))
    ctx.ob("C19.EOF", it, "block iteration stops on an empty read", ok, "AsyncStreamIterator never stops", construct="eof:iterator")


DOT_SAMPLES = {".": ("", "."), "..": ("..", ".."), "x": ("x", "x"), ".x": (".x", ".x")}   # text -> (PurePosixPath(text).name, str(PurePosixPath(text)))


def lister_dot_table(p, lst):
    """for each sample name: the set of outcomes {'skip', 'return', 'enqueue'} the lister's read loop can reach (tests that do not depend on the
    name are left open); None if the loop is not found"""
    wl = [w for w in walk_no_nested(lst) if isinstance(w, ast.While) and isinstance(w.test, ast.Constant) and w.test.value is True]
    if not wl:
        return None
    # the variable holding the parsed name: first element of `name, info = <...>.parse_line(line)`
    nvar = None
    for n in walk_no_nested(wl[0]):
        if isinstance(n, ast.Assign) and isinstance(n.targets[0], ast.Tuple) and isinstance(n.value, ast.Call) and last_attr(n.value.func) == "parse_line" and isinstance(n.targets[0].elts[0], ast.Name):
            nvar = n.targets[0].elts[0].id
    if nvar is None:
        return None
    table = {}
    paths = Cfg(lambda n: [], p.issub, unroll=1).seq(wl[0].body)
    for text, (pname, pstr) in DOT_SAMPLES.items():
        env = {f"str({nvar})": pstr, f"{nvar}.name": pname}
        outs = set()
        for ev, out in paths:
            feasible = True
            enq = False
            for e_ in ev:
                if e_[0] == "branch":
                    try:
                        if bool(eval_expr(p, e_[1], env, lst)) != e_[2]:
                            feasible = False
                            break
                    except Exception:
                        pass   # a test that does not depend on the name: both outcomes stay open
                if e_[0] == "stmt" and any(isinstance(c, ast.Call) and is_method_call(c, "append", "directories") for c in walk_self(e_[1])):
                    enq = True
            if not feasible:
                continue
            if out[0] == "continue":
                outs.add("skip")
                if enq:
                    outs.add("enqueue")     # queued for recursion first, skipped afterwards: still listed again and again
            elif out[0] == "return":
                outs.add("return")
                if enq:
                    outs.add("enqueue")
        table[text] = outs
    return table


def rule_dot(ctx):
    p = ctx.p
    ctx.rule("C19.DOT", "a listing entry named '.' or '..' is never returned nor enqueued by the lister (evaluated for the sample names '.', '..'); the windows parser rejects them")
    lst = p.nested(p.method("Client", "list"), "__anext__")
    table = lister_dot_table(p, lst)
    if table is None:
        raise Inconclusive("C19.DOT: the lister's read loop / parsed-name variable was not found")
    for text in (".", ".."):
        outs = table[text]
        ctx.ob("C19.DOT", lst, f"entry {text!r}: reachable outcomes {sorted(outs)} contain neither return nor enqueue", not (outs & {"return", "enqueue"}) and "skip" in outs,
               f"the lister can return or enqueue the entry {text!r} (outcomes {sorted(outs)}): a recursive listing of a server that reports it never terminates",
               construct=f"list:dot test:{text}")
    win = p.method("BaseClient", "parse_list_line_windows")
    ok = any(isinstance(n, ast.If) and any(isinstance(s, ast.Raise) for s in n.body) and "'.'" in src(n.test) and "'..'" in src(n.test) for n in walk_no_nested(win))
    ctx.ob("C19.DOT", win, "the windows parser rejects '.' and '..'", ok, "the windows parser accepts '.'/'..' entries", construct="windows:dot")


def rule_noswallow(ctx):
    """'reports a line it cannot parse instead of dropping it': the stream wrappers do not swallow reader errors (shared with C01.THRU);
    and every normal result of the server's command reader is a (verb, argument) pair - the dispatcher re-arms the read only for pairs"""
    from .c01 import rule_thru
    ctx.borrow(lambda c: rule_thru(c, only=("read", "readline", "readexactly")), {"C01.THRU": "C19.THRU"})
    p = ctx.p
    ctx.rule("C19.PAIR", "every normal return of parse_command is a (verb, argument) pair")
    pc = p.method("Server", "parse_command")
    rets = [r for r in walk_no_nested(pc) if isinstance(r, ast.Return)]
    falls = any(out[0] == "fall" for ev, out in enum_paths(p, pc))
    ok = bool(rets) and all(isinstance(deep_expand(p, r.value, pc), ast.Tuple) and len(deep_expand(p, r.value, pc).elts) == 2 for r in rets if True) and not falls and all(r.value is not None for r in rets)
    ctx.ob("C19.PAIR", pc, "parse_command returns a 2-tuple on every normal path", ok,
           "parse_command can return something else than a (verb, argument) pair (e.g. None for a blank line): the dispatcher re-arms the command read only for tuple results, "
           "so the session stops reading its control socket and holds its slot, user and table entry until the server is closed", construct="parse_command:non-pair return")
    d = p.dispatcher()
    rearm = [c for c in walk_no_nested(d) if isinstance(c, ast.Call) and is_self_call(c, {"parse_command"})]
    ctx.ob("C19.PAIR", d, "the dispatcher starts the command reader at session start and after each parsed command", len(rearm) >= 2,
           "the dispatcher does not re-arm the command reader", construct="dispatcher:re-arm")


# what the server's command reader can raise on hostile input, one line of reason each
READER_RAISES = {
    "UnicodeDecodeError": "bytes that are not valid in the server encoding (line.decode)",
    "ValueError": "a line longer than the stream limit (StreamReader.readline)",
    "LimitOverrunError": "the stream limit (StreamReader.readuntil under readline)",
    "IncompleteReadError": "end of stream in the middle of a read",
    "ConnectionResetError": "the peer resets the control connection",
    "TimeoutError": "idle timeout of the control stream",
}


def rule_reader_errors(ctx):
    p = ctx.p
    ctx.rule("C19.READERR", "an error of the command reader ends the session: in the dispatcher's loop the only handlers around `task.result()` that carry on are for classes the "
                            "reader cannot raise (undecodable bytes, an over-long line, a reset) - a swallowed reader error is never re-armed, the session goes deaf and keeps "
                            "its table entry and slots for ever")
    d, tr = p.dispatcher_try()
    results = [c for c in ast.walk(tr) if isinstance(c, ast.Call) and is_method_call(c, "result") and not c.args]
    if not results:
        raise AnalysisError("anchor=dispatcher `task.result()` not found")
    n = 0
    for c in results:
        q = p.parent.get(c)
        child = c
        while q is not None and q is not d:
            if isinstance(q, ast.Try) and any(child is s_ for s_ in q.body) and q is not tr:
                for h in q.handlers:
                    names = handler_names(h) if h.type is not None else ["BaseException"]
                    goes_on = any(out[0] != "raise" for ev, out in Cfg(lambda n_: [], p.issub).seq(h.body))
                    rearms = any(isinstance(x, ast.Call) and is_self_call(x, {"parse_command"}) for s_ in h.body for x in ast.walk(s_))
                    hit = sorted(r for r in READER_RAISES for nm in names if p.issub(r, nm))
                    n += 1
                    ctx.ob("C19.READERR", h, f"handler for {names} around `task.result()` does not take a reader error and carry on", not (goes_on and hit and not rearms),
                           f"the dispatcher catches {names} around `task.result()` and carries on: that is also the command reader's result - {hit[0] if hit else ''} "
                           f"({READER_RAISES.get(hit[0], '') if hit else ''}) is swallowed, no new read is started, the session never notices its peer again and never cleans up",
                           construct=f"dispatcher:reader error {names} swallowed")
            child, q = q, p.parent.get(q)
    ctx.ob("C19.READERR", results[0], f"{len(results)} `task.result()` site(s) in the dispatcher loop, {n} handler(s) around them examined", True)


def _regex_ambiguities(pattern):
    """unbounded repeats whose body is, apart from optional parts, itself one unbounded repeat - `(\\d+,?)+`, `(a+)+`, `(a*)*`: n characters can be split between the two
    loops in exponentially many ways, and the backtracking matcher tries them all when the rest of the pattern fails"""
    try:
        import re._parser as sp
        import re._constants as sc
    except ImportError:    # Python < 3.11
        import sre_parse as sp
        import sre_constants as sc
    REP = (sc.MAX_REPEAT, sc.MIN_REPEAT) + ((sc.POSSESSIVE_REPEAT,) if hasattr(sc, "POSSESSIVE_REPEAT") else ())

    def nullable(it):
        op, av = it
        if op in REP:
            return av[0] == 0 or all(nullable(x) for x in av[2])
        if op is sc.SUBPATTERN:
            return all(nullable(x) for x in av[3])
        if op is sc.BRANCH:
            return any(all(nullable(x) for x in alt) for alt in av[1])
        return op in (sc.AT, sc.ASSERT, sc.ASSERT_NOT)

    def flat(seq):
        for it in seq:
            if it[0] is sc.SUBPATTERN:
                yield from flat(it[1][3])
            elif getattr(sc, "ATOMIC_GROUP", None) is not None and it[0] is sc.ATOMIC_GROUP:
                yield it
            else:
                yield it

    def unbounded(it):
        return it[0] in (sc.MAX_REPEAT, sc.MIN_REPEAT) and it[1][1] == sc.MAXREPEAT

    def ambiguous_body(seq):
        items = list(flat(seq))
        alts = [items]
        if len(items) == 1 and items[0][0] is sc.BRANCH:
            alts = [list(flat(a)) for a in items[0][1][1]]
        for alt in alts:
            nn = [x for x in alt if not nullable(x)]
            if (len(nn) == 1 and unbounded(nn[0])) or (not nn and any(unbounded(x) for x in alt)):
                return True
        return False
    out = []

    def walk(seq):
        for it in seq:
            op, av = it
            if op in REP:
                if unbounded(it) and ambiguous_body(av[2]):
                    out.append(it)
                walk(av[2])
            elif op is sc.SUBPATTERN:
                walk(av[3])
            elif op is sc.BRANCH:
                for alt in av[1]:
                    walk(alt)
            elif op in (sc.ASSERT, sc.ASSERT_NOT):
                walk(av[1])
    walk(sp.parse(pattern))
    return out


RE_FUNCS = {"findall", "finditer", "match", "search", "fullmatch", "compile", "sub", "subn", "split"}


def rule_regex(ctx):
    p = ctx.p
    ctx.rule("C19.REGEX", "'never hangs': every regular expression applied to peer text matches in time polynomial in the text - no unbounded repeat whose body is, apart from "
                          "optional parts, itself an unbounded repeat (exponential backtracking on a long run that finally fails to match)")
    n = 0
    for mod in sorted(p.trees):
        for c in ast.walk(p.trees[mod]):
            if isinstance(c, ast.Call) and isinstance(c.func, ast.Attribute) and c.func.attr in RE_FUNCS and isinstance(c.func.value, ast.Name) and c.func.value.id == "re" and c.args:
                fn = p.enclosing_function(c)
                vals = const_values(p, c.args[0], fn)
                if not vals or any(not isinstance(v, str) for v in vals):
                    raise Inconclusive(f"C19.REGEX: pattern of `{src(c)[:50]}` in {p.fn_of(c)} is not a constant")
                for v in vals:
                    n += 1
                    try:
                        amb = _regex_ambiguities(v)
                    except Exception as e:     # re.error: the pattern does not compile
                        ctx.fail("C19.REGEX", c, f"pattern {v!r} in {p.fn_of(c)} does not parse: {e}", construct=f"regex:{p.fn_of(c)}:invalid")
                        continue
                    ctx.ob("C19.REGEX", c, f"{p.fn_of(c)}: pattern {v!r} has no nested unbounded repeat", not amb,
                           f"{p.fn_of(c)}: pattern {v!r} repeats without bound a group that is itself (apart from optional parts) an unbounded repeat: on a long run of matching "
                           "characters that does not end the way the pattern wants, the matcher tries exponentially many splits - a hostile reply hangs the client",
                           construct=f"regex:{p.fn_of(c)}:nested unbounded repeat")
    # the rule may legitimately match nothing (parsers rewritten without regular expressions): a built-in positive and negative example keep it from passing vacuously
    if not _regex_ambiguities(r"\(((?:\d+,?)+)\)") or _regex_ambiguities(r"(\d+,)*\d+"):
        raise AnalysisError("C19.REGEX self-test: the nested-repeat detector no longer tells `((?:\\d+,?)+)` from `(\\d+,)*\\d+`")
    ctx.ob("C19.REGEX", p.trees["client.py"], f"{n} regular expression(s) examined; detector self-test passed", True)


def rule_lock_released(ctx):
    from .c17 import rule_lock
    ctx.rule("C19.LOCK", "'never hangs': the process-wide locale lock taken while a listing date is parsed is given back when the parse fails - release in a `finally` or a `with` "
                         "(shared with C17.LOCK)")
    ctx.borrow(rule_lock, {"C17.LOCK": "C19.LOCK"})


def rule_release(ctx):
    """'...and releases that session's resources': the unconditional cleanup of C10/C12 is a clause of C19 as well"""
    from .c10 import rule_finally
    from .c12 import rule_fields
    ctx.borrow(rule_finally, {"C10.FINALLY": "C19.RELEASE"})
    ctx.borrow(rule_fields, {"C12.FIELDS": "C19.RELEASE"})
    from .c12 import rule_detach
    ctx.borrow(rule_detach, {"C12.DETACH": "C19.RELEASE"})   # a garbage transfer argument fails in open(): the detached data stream must already be protected


def rule_borrowed_r4(ctx):
    from .c14 import rule_cm
    ctx.rule("C19.CM", "a parser's ValueError reaches the parser chain: no context manager on the way (`with setlocale(...)`) swallows it (shared with C14.CM)")
    ctx.borrow(rule_cm, {"C14.CM": "C19.CM"})


def rule_defined(ctx):
    from ..defined import undefined_uses
    p = ctx.p
    ctx.rule("C19.DEFINED", "no client-side function can read a local name that the path taken has not bound: hostile input must end in the documented errors, not in an UnboundLocalError")
    n = 0
    for q, fn in p.functions.items():
        if p.module_of.get(fn) not in ("client.py", "common.py"):
            continue
        n += 1
        bad = undefined_uses(p, fn)
        ctx.ob("C19.DEFINED", bad[0][0] if bad else fn, f"{q}: every local is bound before it is read on every normal path", not bad,
               f"{q}: `{bad[0][0].id if bad else ''}` can be read before it is bound (`{bad[0][1] if bad else ''}`)", construct=f"defined:{q}:{bad[0][0].id if bad else ''}", function=q)
    if n < 90:
        ctx.floor_errors.append(f"rule=C19.DEFINED: {n} functions of client.py/common.py analysed (floor 90)")


RULES = [rule_funnel, rule_nodrop, rule_srv, rule_eof, rule_dot, rule_release, rule_noswallow, rule_reader_errors, rule_regex, rule_lock_released, rule_borrowed_r4, rule_defined]
