"""C17 Concurrent sessions do not interfere with each other (who-may-write / freshness / closure rules)"""
import ast
from ..model import *
from ..util import *
from ..facts import *

EXPLANATION = (
    "Who-may-write rule on server-level state: in code reachable from the dispatcher and the handlers (incl. decorator "
    "wrappers and nested workers), stores to attributes of the server object, of decorator instances (`self.x = ...` "
    "inside a wrapper, where `self` is the class-level decorator shared by all sessions), to module globals and class "
    "attributes are limited to a frozen list with one reason each (connection table, per-user throttle table); anything "
    "else is per-session state on a shared object. Freshness: the session container, its reply queue, its worker set, "
    "its control stream and its backend instance are constructed inside the dispatcher call from fresh expressions (no "
    "**shared-template splat, no default-argument container); mutable default arguments are never mutated. Closure "
    "binding: the passive accept callbacks' free variable for the session binds to the enclosing handler's parameter. "
    "PathIONursery shares only the backend `state`."
)
NOT_DECIDED = [
    "equality of interleaved and solo transcripts",
    "shared file objects of MemoryPathIO for the SAME path (outside the property's 'disjoint paths')",
    "pipelined commands inside ONE session (tasks of the same session interleave at awaits)",
]

ALLOWED_SERVER_STORES = {
    "connections": "the session table (insert at accept, pop at cleanup)",
    "throttle_per_user": "per-user throttles are shared by design (C15)",
}
LIFECYCLE = {"__init__", "start", "close", "run", "serve_forever"}
MUTATORS = {"add", "append", "extend", "update", "pop", "remove", "discard", "clear", "insert", "setdefault", "popitem", "appendleft", "popleft", "put_nowait", "get_nowait"}


def session_functions(p):
    """functions that run per session: Server methods outside the lifecycle, their nested functions, and decorator wrappers"""
    out = []
    for name, m in p.methods("Server").items():
        if name in LIFECYCLE:
            continue
        out.append(m)
    for deco in ("ConnectionConditions", "PathConditions", "PathPermissions"):
        out.append(p.wrapper_of(deco))
    out.append(p.wrapper_of("worker"))
    return out


def rule_write(ctx):
    p = ctx.p
    ctx.rule("C17.WRITE", "per-session code stores only into the session object; server-level / decorator-level / global stores are limited to a frozen list")
    d = p.dispatcher()
    n = 0
    for m in session_functions(p):
        mname = p.qualname(m)
        for x in ast.walk(m):
            tgts = assign_targets(x) if isinstance(x, (ast.Assign, ast.AugAssign, ast.AnnAssign, ast.Delete)) else []
            for t in tgts:
                base = t
                while isinstance(base, ast.Subscript):
                    base = base.value
                if isinstance(base, ast.Attribute) and isinstance(base.value, ast.Name) and base.value.id in ("self", "cls"):
                    # inside nested session functions `self` may be rebound as a parameter of a worker: still the server
                    n += 1
                    ok = base.attr in ALLOWED_SERVER_STORES and "Server." in mname
                    ctx.ob("C17.WRITE", x, f"{mname}: store into `{src(base)}` ({ALLOWED_SERVER_STORES.get(base.attr, 'not in the allowed list')})", ok,
                           f"per-session code stores into `{src(base)}` - an attribute of an object shared by all sessions (the server, or a class-level decorator instance); "
                           "session state must live in the session object", construct=f"{mname}:{src(base)}")
            if isinstance(x, ast.Call) and isinstance(x.func, ast.Name) and x.func.id in ("setattr", "delattr") and x.args and isinstance(x.args[0], ast.Name) and x.args[0].id in ("self", "cls"):
                ctx.fail("C17.WRITE", x, "dynamic attribute write on a shared object", construct=f"{mname}:dynamic write")
            if isinstance(x, ast.Attribute) and x.attr == "__dict__" and isinstance(x.value, ast.Name) and x.value.id in ("self", "cls"):
                ctx.fail("C17.WRITE", x, "__dict__ access on a shared object", construct=f"{mname}:__dict__")
            if isinstance(x, (ast.Global, ast.Nonlocal)):
                ctx.fail("C17.WRITE", x, f"global/nonlocal state in per-session code ({', '.join(x.names)})", construct=f"{mname}:global {','.join(x.names)}")
            # mutation of shared containers through method calls: self.<attr>.<mutator>(...)
            if isinstance(x, ast.Call) and isinstance(x.func, ast.Attribute) and x.func.attr in MUTATORS:
                recv = x.func.value
                while isinstance(recv, ast.Subscript):
                    recv = recv.value
                if isinstance(recv, ast.Attribute) and isinstance(recv.value, ast.Name) and recv.value.id in ("self", "cls"):
                    n += 1
                    allowed = {"connections", "throttle_per_user", "available_data_ports", "available_connections"}
                    ctx.ob("C17.WRITE", x, f"{mname}: mutation `{src(x)[:50]}` of a server-level container", recv.attr in allowed and "Server." in mname,
                           f"per-session code mutates `{src(recv)}`, a container shared by all sessions", construct=f"{mname}:{src(recv)}.{x.func.attr}")
    ctx.floor("C17.WRITE", 3, "server-level stores")
    # in-place mutation of an object taken from a class-level attribute of Server (one object for every session)
    class_attrs = {t.id for n_ in p.cls("Server").body if isinstance(n_, ast.Assign) for t in n_.targets if isinstance(t, ast.Name)}
    for m in session_functions(p):
        shared = set()
        for n_ in walk_no_nested(m):
            if isinstance(n_, ast.Assign) and isinstance(n_.value, ast.Attribute) and isinstance(n_.value.value, ast.Name) and n_.value.value.id in ("self", "cls", "Server") \
                    and n_.value.attr in class_attrs:
                for t in assign_targets(n_):
                    if isinstance(t, ast.Name):
                        shared.add(t.id)
        for n_ in walk_no_nested(m):
            for t in (assign_targets(n_) if isinstance(n_, (ast.Assign, ast.AugAssign, ast.Delete)) else []):
                base = t
                while isinstance(base, ast.Subscript):
                    base = base.value
                if isinstance(t, ast.Subscript) and isinstance(base, ast.Name) and base.id in shared:
                    ctx.fail("C17.WRITE", n_, f"{p.qualname(m)}: `{src(n_)[:50]}` changes in place an object taken from a class-level attribute of the server "
                             "(shared by every session: what one session writes into it shows up in the replies of the others)", construct=f"{p.qualname(m)}:mutates class-level {base.id}")
            if isinstance(n_, ast.Call) and isinstance(n_.func, ast.Attribute) and n_.func.attr in MUTATORS and isinstance(n_.func.value, ast.Name) and n_.func.value.id in shared:
                ctx.fail("C17.WRITE", n_, f"{p.qualname(m)}: `{src(n_)[:50]}` mutates an object taken from a class-level attribute of the server", construct=f"{p.qualname(m)}:mutates class-level {n_.func.value.id}")
    # module-level mutable state in server.py / common.py written from functions
    for mod in ("server.py",):
        mod_names = {t.id for n_ in p.trees[mod].body if isinstance(n_, ast.Assign) for t in n_.targets if isinstance(t, ast.Name)}
        for m in session_functions(p):
            for x in ast.walk(m):
                if isinstance(x, ast.Call) and isinstance(x.func, ast.Attribute) and x.func.attr in MUTATORS and isinstance(x.func.value, ast.Name) and x.func.value.id in mod_names \
                        and not local_defs(m, x.func.value.id):
                    ctx.fail("C17.WRITE", x, f"per-session code mutates module-level `{x.func.value.id}`", construct=f"{p.qualname(m)}:module {x.func.value.id}")
    # class attributes of Server / Connection that are mutable containers
    for cls in ("Server", "Connection"):
        for n_ in p.cls(cls).body:
            if isinstance(n_, ast.Assign) and isinstance(n_.value, (ast.List, ast.Dict, ast.Set)) or (isinstance(n_, ast.Assign) and isinstance(n_.value, ast.Call) and last_attr(n_.value.func) in ("set", "dict", "list", "deque", "defaultdict")):
                # a class-level container is one object for all sessions: harmless as a constant lookup table, a shared state as soon as anything writes into it
                # (or into an element read out of it) or hands it to a session
                name_ = src(n_.targets[0])
                written = None
                for m_ in session_functions(p):
                    aliases = {name_}
                    for x in ast.walk(m_):
                        if isinstance(x, ast.Assign) and any(isinstance(a, ast.Attribute) and a.attr == name_ for a in ast.walk(x.value)):
                            aliases |= {t.id for t in x.targets if isinstance(t, ast.Name)} | {e.id for t in x.targets if isinstance(t, ast.Tuple) for e in t.elts if isinstance(e, ast.Name)}
                    for x in ast.walk(m_):
                        tgt_roots = []
                        if isinstance(x, (ast.Assign, ast.AugAssign, ast.Delete)):
                            for t in assign_targets(x):
                                if isinstance(t, (ast.Subscript, ast.Attribute)):
                                    tgt_roots.append(t.value if isinstance(t, ast.Subscript) else t)
                        if isinstance(x, ast.Call) and isinstance(x.func, ast.Attribute) and x.func.attr in MUTATORS:
                            tgt_roots.append(x.func.value)
                        for r in tgt_roots:
                            base = r
                            while isinstance(base, ast.Subscript):
                                base = base.value
                            if (isinstance(base, ast.Attribute) and base.attr == name_ and isinstance(base.value, ast.Name) and base.value.id in ("self", "cls", cls)) \
                                    or (isinstance(base, ast.Name) and base.id in aliases and base.id != name_):
                                written = written or x
                        if isinstance(x, ast.keyword) and x.arg is None and isinstance(x.value, ast.Attribute) and x.value.attr == name_:
                            written = written or x   # **template splat into a session
                ctx.ob("C17.WRITE", n_, f"class-level container `{name_}` on {cls} is only read (a constant table)", written is None,
                       f"class-level mutable container `{name_}` on {cls} is one object shared by all sessions and is written to / handed to a session "
                       f"(`{src(written)[:60] if written is not None else ''}`): what one session writes, every other session sees", construct=f"{cls}:class container {name_}")


def rule_fresh(ctx):
    p = ctx.p
    ctx.rule("C17.FRESH", "session container, reply queue, worker set, control stream and backend instance are built fresh inside the dispatcher call")
    ctor = p.session_ctor()
    d = p.dispatcher()
    ctx.ob("C17.FRESH", ctor, "the session container is constructed inside the dispatcher (once per accepted socket)", p.enclosing_function(ctor) is d,
           "session container not built per accepted connection", construct="fresh:container")
    splat = [k for k in ctor.keywords if k.arg is None]
    ctx.ob("C17.FRESH", ctor, "Connection(...) takes no **template splat (every initial value is an expression evaluated per session)", not splat,
           f"Connection(...) is initialised from a shared template `**{src(splat[0].value) if splat else ''}`: containers inside it (worker set ...) are one object for all sessions",
           construct="fresh:splat")
    kv = {k.arg: k.value for k in ctor.keywords if k.arg}
    ew = kv.get("extra_workers")
    ok = isinstance(ew, ast.Call) and isinstance(ew.func, ast.Name) and ew.func.id == "set" and not ew.args or isinstance(ew, ast.Set) and not ew.elts
    ctx.ob("C17.FRESH", ew if ew is not None else ctor, f"the worker set is a fresh `{src(ew) if ew is not None else None}`", bool(ok),
           f"session worker set is `{src(ew) if ew is not None else 'missing'}`, not a fresh set: an ABOR/teardown of one session cancels other sessions' transfers",
           construct="fresh:extra_workers")
    for k, v in kv.items():
        if isinstance(v, ast.Attribute) and isinstance(v.value, ast.Name) and v.value.id == "self":
            # server attributes copied into the session must be immutable configuration
            init_val = None
            for n_ in walk_no_nested(p.method("Server", "__init__")):
                if isinstance(n_, ast.Assign) and any(isinstance(t, ast.Attribute) and t.attr == v.attr for t in n_.targets):
                    init_val = n_.value
            mutable = isinstance(init_val, (ast.List, ast.Dict, ast.Set)) or (isinstance(init_val, ast.Call) and last_attr(init_val.func) in ("set", "dict", "list", "deque"))
            ctx.ob("C17.FRESH", v, f"session field {k} <- self.{v.attr} is configuration, not a shared mutable container", not mutable,
                   f"session field {k} is the server-level container self.{v.attr}, shared by all sessions", construct=f"fresh:{k}<-self.{v.attr}")
    # reply queue and control stream: locals assigned from constructor calls in the dispatcher
    rq = [n_ for n_ in walk_no_nested(d) if isinstance(n_, ast.Assign) and isinstance(n_.value, ast.Call) and (dotted(n_.value.func) or "").endswith("Queue")]
    ctx.ob("C17.FRESH", rq[0] if rq else d, "the reply queue is created per session", len(rq) == 1, "the reply queue is not created per session", construct="fresh:queue")
    resp = kv.get("response")
    _, r_body, _ = response_primitive(p)
    ok = r_body is not None and rq and isinstance(rq[0].targets[0], ast.Name) and any(isinstance(x, ast.Name) and x.id == rq[0].targets[0].id for x in ast.walk(r_body))
    ctx.ob("C17.FRESH", resp if resp is not None else ctor, "the reply primitive is bound to this session's own queue", bool(ok), "the reply primitive is not bound to the session's own queue", construct="fresh:response")
    pio = [n_ for n_ in walk_no_nested(d) if isinstance(n_, ast.Assign) and last_attr(n_.targets[0]) == "path_io"]
    ok = len(pio) == 1 and isinstance(pio[0].value, ast.Call) and src(pio[0].value.func) == "self.path_io_factory" and any(k.arg == "connection" for k in pio[0].value.keywords)
    ctx.ob("C17.FRESH", pio[0] if pio else d, "a backend instance is created per session through the factory", ok, "the backend instance is not created per session", construct="fresh:path_io")
    # mutable default arguments of per-session constructors are never mutated
    for cls, meth in (("ThrottleStreamIO", "__init__"),):
        fn = p.method(cls, meth)
        for a, dflt in zip(fn.args.kwonlyargs, fn.args.kw_defaults):
            if isinstance(dflt, (ast.Dict, ast.List, ast.Set)):
                # every construction site must pass it explicitly (shared with C15.DEFAULT)
                for mod in ("server.py", "client.py"):
                    for c in ast.walk(p.trees[mod]):
                        if isinstance(c, ast.Call) and last_attr(c.func) in ("ThrottleStreamIO", "DataConnectionThrottleStreamIO"):
                            ctx.ob("C17.FRESH", c, f"{p.fn_of(c)}: `{a.arg}` passed explicitly (the mutable default is never the map that USER mutates)", kwarg(c, a.arg) is not None,
                                   f"{p.fn_of(c)}: stream relies on the shared mutable default `{a.arg}`", construct=f"{p.fn_of(c)}:default {a.arg}")
    # handlers' default arguments
    for verb, name, fn in p.handlers():
        for dflt in list(fn.args.defaults) + [x for x in fn.args.kw_defaults if x is not None]:
            if isinstance(dflt, (ast.Dict, ast.List, ast.Set)) or (isinstance(dflt, ast.Call) and last_attr(dflt.func) in ("set", "dict", "list")):
                ctx.fail("C17.FRESH", dflt, f"{name}: mutable default argument shared by all sessions", construct=f"{name}:mutable default")
    ctx.floor("C17.FRESH", 8)
    # any function of the server-side modules with a mutable default argument that it mutates, returns or stores: one object for all sessions
    for mod in ("server.py", "pathio.py", "common.py", "client.py"):
        for fn in [f for f in ast.walk(p.trees[mod]) if isinstance(f, FuncT)]:
            a = fn.args
            pairs = list(zip(reversed(a.posonlyargs + a.args), reversed(a.defaults))) + [(x, d_) for x, d_ in zip(a.kwonlyargs, a.kw_defaults) if d_ is not None]
            for arg, dflt in pairs:
                mutable = isinstance(dflt, (ast.Dict, ast.List, ast.Set)) or (isinstance(dflt, ast.Call) and last_attr(dflt.func) in ("set", "dict", "list", "deque", "defaultdict", "bytearray"))
                if not mutable:
                    continue
                mutated = any(isinstance(c, ast.Call) and isinstance(c.func, ast.Attribute) and c.func.attr in MUTATORS and isinstance(c.func.value, ast.Name) and c.func.value.id == arg.arg
                              for c in walk_no_nested(fn)) or any(isinstance(t, ast.Subscript) and isinstance(t.value, ast.Name) and t.value.id == arg.arg
                                                                  for n_ in walk_no_nested(fn) for t in (assign_targets(n_) if isinstance(n_, (ast.Assign, ast.AugAssign, ast.Delete)) else []))
                escapes = any(isinstance(r, ast.Return) and isinstance(r.value, ast.Name) and r.value.id == arg.arg for r in walk_no_nested(fn))
                if mod == "client.py":
                    # the client keeps its arguments on the instance: a literal container default stored there is one object for every client of the process
                    escapes = escapes or any(isinstance(n_, ast.Assign) and isinstance(n_.value, ast.Name) and n_.value.id == arg.arg and isinstance(n_.targets[0], ast.Attribute)
                                             for n_ in walk_no_nested(fn))
                ctx.ob("C17.FRESH", fn, f"{p.qualname(fn)}: mutable default `{arg.arg}` is neither mutated nor returned", not (mutated or escapes),
                       f"{p.qualname(fn)}: the mutable default argument `{arg.arg}` is mutated/returned: it is ONE object shared by every call of every session "
                       "(values written for one session are seen - and overwritten - by another across a suspension point)", construct=f"{p.qualname(fn)}:mutable default {arg.arg}")


def rule_closure(ctx):
    p = ctx.p
    ctx.rule("C17.CLOSURE", "the passive accept callback stores the data connection into the session that asked for the listener (closure over the handler's parameter)")
    import symtable
    table, _ = p.command_table()
    field = field_names(p).get("data_connection_made", "data_connection")
    n = 0
    for verb, name, h in p.handlers():
        conn = p.handler_params(h)[0]
        for hd in p.nested_functions(h):
            stores = [s for s, t in attr_stores(hd, field) if isinstance(s, ast.Assign)]
            if not stores or any(hd is w for _h, w in p.workers()):
                continue
            n += 1
            own_params = [a.arg for a in hd.args.args]
            for s_ in stores:
                tgt = s_.targets[0]
                ok = isinstance(tgt.value, ast.Name) and tgt.value.id == conn and conn not in own_params and not local_defs(hd, conn)
                if not ok and isinstance(tgt.value, ast.Name) and tgt.value.id in own_params and len(local_defs(hd, tgt.value.id)) == 1:
                    # the session is a parameter of the callback, bound with functools.partial(callback, ..., <the handler's session>, ...) at every use
                    i_ = own_params.index(tgt.value.id)
                    uses = [x for x in walk_no_nested(h) if isinstance(x, ast.Name) and x.id == hd.name and isinstance(x.ctx, ast.Load)]
                    ok = bool(uses)
                    for u in uses:
                        par = p.parent.get(u)
                        bound = isinstance(par, ast.Call) and (dotted(par.func) or "").split(".")[-1] == "partial" and par.args and par.args[0] is u \
                            and len(par.args) > i_ + 1 and isinstance(par.args[i_ + 1], ast.Name) and par.args[i_ + 1].id == conn and not any(isinstance(a, ast.Starred) for a in par.args)
                        if not bound:
                            ok = False
                ctx.ob("C17.CLOSURE", s_, f"{verb}: accepted data connection stored into the enclosing handler's session `{conn}`", ok,
                       f"{verb}: accepted data connection stored into `{src(tgt.value)}`, not the session that opened the listener", construct=f"closure:{verb}:{src(tgt.value)}")
            # the callback is the one handed to the listener start
            used = any(isinstance(c, ast.Call) and any(isinstance(a, ast.Name) and (a.id == hd.name or (isinstance(thunk_call(p, h, a), ast.Call) and src(thunk_call(p, h, a).func) == hd.name)) for a in c.args)
                       for c in walk_no_nested(h))
            ctx.ob("C17.CLOSURE", hd, f"{verb}: the callback defined in this call is the one passed to the listener", used, f"{verb}: the nested accept callback is not the one passed to the listener", construct=f"closure:{verb}:unused")
    if n < 2:
        ctx.floor_errors.append(f"rule=C17.CLOSURE: {n} accept callbacks (floor 2)")
    # no session reference parked on the server (self._last_connection etc.) - covered by C17.WRITE


def rule_state(ctx):
    p = ctx.p
    ctx.rule("C17.STATE", "PathIONursery shares only the backend `state`; a new backend instance per call; MemoryPathIO.cwd is per instance")
    call = p.method("PathIONursery", "__call__")
    rets = [r for r in walk_no_nested(call) if isinstance(r, ast.Return)]
    inst = [n for n in walk_no_nested(call) if isinstance(n, ast.Assign) and isinstance(n.value, ast.Call) and src(n.value.func) == "self.factory"]
    ok = len(inst) == 1 and any(k.arg == "state" and src(k.value) == "self.state" for k in inst[0].value.keywords) and rets and src(rets[-1].value) == src(inst[0].targets[0])
    # the object handed out is the one just built: the returned name has no other definition, and the construction is not conditional
    if ok and isinstance(inst[0].targets[0], ast.Name):
        ok = len(local_defs(call, inst[0].targets[0].id)) == 1 and not all_guards(p, inst[0], call)
    ctx.ob("C17.STATE", call, "the nursery builds a new backend per call, passing only the shared state", bool(ok), "PathIONursery does not build a fresh backend per call", construct="nursery:call")
    def self_attr(t):
        while isinstance(t, ast.Subscript):
            t = t.value
        return t.attr if isinstance(t, ast.Attribute) and src(t.value) == "self" else None
    stores = [(n, self_attr(t)) for n in walk_no_nested(call) if isinstance(n, (ast.Assign, ast.AugAssign)) for t in assign_targets(n) if self_attr(t) is not None]
    stores += [(c, c.func.value.attr) for c in walk_no_nested(call) if isinstance(c, ast.Call) and isinstance(c.func, ast.Attribute) and c.func.attr in MUTATORS
               and isinstance(c.func.value, ast.Attribute) and src(c.func.value.value) == "self"]
    ok = all(a == "state" for n, a in stores)
    ctx.ob("C17.STATE", call, "the nursery remembers nothing but `state`", ok, f"PathIONursery caches {sorted({a for n, a in stores})}: sessions get each other's backend object",
           construct="nursery:stores")
    mi = p.method("MemoryPathIO", "__init__")
    ok = any(isinstance(n, ast.Assign) and src(n.targets[0]) == "self.cwd" for n in walk_no_nested(mi))
    ctx.ob("C17.STATE", mi, "MemoryPathIO.cwd is an instance attribute", ok, "MemoryPathIO.cwd is not per instance", construct="memory:cwd")


def rule_lock(ctx):
    p = ctx.p
    ctx.rule("C17.LOCK", "no process-wide lock (threading lock, the setlocale() context) is held across a suspension point: every session runs in the one event-loop thread, "
                         "a second session reaching the same lock while the first is suspended blocks the whole server")
    lock_ctx = {"setlocale"}
    for mod, tree in p.trees.items():
        for n_ in tree.body:
            if isinstance(n_, ast.Assign) and isinstance(n_.value, ast.Call) and (dotted(n_.value.func) or "").split(".")[-1] in ("Lock", "RLock", "Semaphore", "BoundedSemaphore") \
                    and (dotted(n_.value.func) or "").startswith("threading"):
                lock_ctx |= {t.id for t in n_.targets if isinstance(t, ast.Name)}
    n = 0
    for q, fn in p.functions.items():
        if not isinstance(fn, ast.AsyncFunctionDef):
            continue
        for w in walk_no_nested(fn):
            if isinstance(w, ast.With):
                held = [it for it in w.items if (isinstance(it.context_expr, ast.Call) and last_attr(it.context_expr.func) in lock_ctx)
                        or (isinstance(it.context_expr, ast.Name) and it.context_expr.id in lock_ctx)]
                if not held:
                    continue
                n += 1
                susp = [x for s_ in w.body for x in walk_self(s_) if isinstance(x, (ast.Await, ast.AsyncFor, ast.AsyncWith))]
                ctx.ob("C17.LOCK", w, f"{q}: `with {src(held[0].context_expr)}` contains no suspension point", not susp,
                       f"{q}: the process-wide lock `{src(held[0].context_expr)}` is held across `{src(susp[0])[:50] if susp else ''}`: when a second session reaches the same lock "
                       "while this one is suspended, the event-loop thread blocks on it and every session of the server freezes", construct=f"lock:{q}")
    ctx.note(f"C17.LOCK: {n} lock-holding with-statements in coroutines")
    # a lock taken by hand is given back on every way out: release() in a `finally` (an exception thrown into the generator at `yield` included)
    for q, fn in p.functions.items():
        for w in walk_no_nested(fn):
            if isinstance(w, ast.With) and any(isinstance(it.context_expr, ast.Name) and it.context_expr.id in lock_ctx for it in w.items):
                ctx.ob("C17.LOCK", w, f"{q}: the lock is taken with a `with` statement (released on every way out)", True)
        for c in walk_no_nested(fn):
            if isinstance(c, ast.Call) and is_method_call(c, "acquire") and isinstance(c.func.value, ast.Name) and c.func.value.id in lock_ctx:
                nm = c.func.value.id
                fin = [x for t in walk_no_nested(fn) if isinstance(t, ast.Try) for s_ in t.finalbody for x in ast.walk(s_)
                       if isinstance(x, ast.Call) and is_method_call(x, "release") and src(x.func.value) == nm]
                ctx.ob("C17.LOCK", c, f"{q}: `{nm}.acquire()` is paired with a release() in a finally", bool(fin),
                       f"{q}: `{nm}.acquire()` has no `{nm}.release()` in a `finally`: an exception inside (a listing line with a bad date) leaves the process-wide lock held - "
                       "the next caller, in any session of the process, blocks the event loop for ever", construct=f"lock:{q}:release not in finally")


# classes whose instances belong to one session: a task kept on one of them is that session's own
PER_SESSION_CLASSES = {"Connection": "the session object", "StreamIO": "one wrapper per socket", "ThrottleStreamIO": "one wrapper per socket",
                       "AsyncPathIOContext": "one per opened file"}


def rule_class_state(ctx):
    p = ctx.p
    ctx.rule("C17.CLASSATTR", "nothing is parked on a class at run time: no store through `self.__class__` / `type(self)` / `cls` of an instance method (a class attribute is one "
                              "slot for every session and every client of the process)")
    n = 0
    for mod, tree in p.trees.items():
        for fn in [f_ for f_ in ast.walk(tree) if isinstance(f_, FuncT)]:
            klass = {a.targets[0].id for a in walk_no_nested(fn) if isinstance(a, ast.Assign) and isinstance(a.targets[0], ast.Name)
                     and (src(a.value) in ("self.__class__", "type(self)"))}
            for st in walk_no_nested(fn):
                for t in (assign_targets(st) if isinstance(st, (ast.Assign, ast.AugAssign)) else []):
                    base = t
                    while isinstance(base, ast.Subscript):
                        base = base.value
                    if isinstance(base, ast.Attribute) and (src(base.value) in ("self.__class__", "type(self)") or (isinstance(base.value, ast.Name) and base.value.id in klass)):
                        n += 1
                        ctx.fail("C17.CLASSATTR", st, f"{p.qualname(fn)}: `{src(t)[:40]}` stores run-time state on the class: every instance (every session / client) shares that slot",
                                 construct=f"classattr:{p.qualname(fn)}:{base.attr}")
    ctx.ob("C17.CLASSATTR", p.trees["common.py"], f"functions of {len(p.trees)} modules scanned for stores through `self.__class__` / `type(self)`", True)


def rule_task(ctx):
    p = ctx.p
    ctx.rule("C17.TASK", "a task belongs to the session that created it: the result of create_task / ensure_future is kept in locals, in the session object or in a per-socket "
                         "wrapper - never on an object several sessions share (a throttle, a user, the server): a session that is cancelled cancels what it awaits, and with "
                         "a shared task that is the other session's wait as well")
    n = 0
    for mod in ("server.py", "common.py", "pathio.py"):
        for fn in [f_ for f_ in ast.walk(p.trees[mod]) if isinstance(f_, FuncT)]:
            def is_task(e, fn=fn, seen=()):
                if id(e) in seen or len(seen) > 12:
                    return False
                seen = seen + (id(e),)
                if isinstance(e, ast.Call) and (dotted(e.func) or "").split(".")[-1] in ("create_task", "ensure_future"):
                    return True
                if isinstance(e, ast.Name):
                    return any(k == "assign" and v is not e and not isinstance(v, ast.Name) and is_task(v, fn, seen) for k, v, _x in local_defs(fn, e.id))
                if isinstance(e, (ast.List, ast.Set, ast.Tuple)):
                    return any(is_task(x, fn, seen) for x in e.elts)
                return False
            stores = []
            for x in walk_no_nested(fn):
                if isinstance(x, ast.Assign) and is_task(x.value):
                    stores += [(t, x) for t in x.targets if isinstance(t, (ast.Attribute, ast.Subscript))]
                elif isinstance(x, ast.Call) and isinstance(x.func, ast.Attribute) and x.func.attr in MUTATORS and any(is_task(a) for a in x.args):
                    if isinstance(x.func.value, (ast.Attribute, ast.Subscript)):
                        stores.append((x.func.value, x))
            for tgt, x in stores:
                root = tgt
                while isinstance(root, (ast.Attribute, ast.Subscript)):
                    root = root.value
                rn = root.id if isinstance(root, ast.Name) else src(root)
                q = p.parent.get(fn)
                while q is not None and not isinstance(q, ast.ClassDef):
                    q = p.parent.get(q)
                cname = q.name if q is not None else None
                # the session object: the dispatcher's `Connection(...)` variable, or the session parameter of the command handler this code belongs to
                session_names = {p.session_var()}
                outer = fn
                while p.enclosing_function(outer) is not None:
                    outer = p.enclosing_function(outer)
                if cname == "Server" and len(outer.args.args) >= 3:
                    session_names.add(outer.args.args[1].arg)
                    if fn is not outer and len(fn.args.args) >= 3:
                        session_names.add(fn.args.args[1].arg)       # a nested worker takes (self, <session>, rest) again
                ok = rn in session_names or (rn == "self" and cname in PER_SESSION_CLASSES)
                n += 1
                ctx.ob("C17.TASK", x, f"{p.qualname(fn)}: task kept in `{src(tgt)[:40]}` (per session)", ok,
                       f"{p.qualname(fn)} keeps a task in `{src(tgt)[:40]}`, an object that is not one session's own: sessions sharing it await (and, when cancelled, cancel) "
                       "the same task - one session's ABOR or crash aborts the other's transfer", construct=f"task:{p.qualname(fn)}:{src(tgt)[:30]}")
    ctx.floor("C17.TASK", 4, "task stores")


def rule_borrowed(ctx):
    from .c10 import rule_pair
    from .c11 import rule_token
    ctx.rule("C17.SLOT", "a session gives back exactly the connection slots it took: what one session leaks or over-releases changes whether ANOTHER session is admitted (shared with C10.PAIR)")
    ctx.borrow(rule_pair, {"C10.PAIR": "C17.SLOT"})
    ctx.rule("C17.PORTS", "a session gives its passive port back however it ends: a port lost by one session is a 421 for another (shared with C11.TOKEN)")
    ctx.borrow(rule_token, {"C11.TOKEN": "C17.PORTS"})


RULES = [rule_write, rule_fresh, rule_closure, rule_state, rule_lock, rule_task, rule_class_state, rule_borrowed]
