"""helpers shared by rules: guards, stores, call resolution, may-suspend, path enumeration wrappers"""
import ast
from .model import *
from .paths import Cfg, exc_name, handler_names


# ---------------------------------------------------------------- locals / copy propagation
def local_defs(fn, name):
    """all definitions of local `name` in fn (not nested): list of (kind, value node, extra)"""
    out = []
    for n in walk_no_nested(fn):
        if isinstance(n, ast.Assign):
            for t in n.targets:
                if isinstance(t, ast.Name) and t.id == name:
                    out.append(("assign", n.value, n))
                if isinstance(t, (ast.Tuple, ast.List)):
                    for i, e in enumerate(t.elts):
                        if isinstance(e, ast.Name) and e.id == name:
                            if isinstance(n.value, (ast.Tuple, ast.List)) and len(n.value.elts) == len(t.elts):
                                out.append(("assign", n.value.elts[i], n))
                            else:
                                out.append(("unpack", n.value, i))
                        if isinstance(e, ast.Starred) and isinstance(e.value, ast.Name) and e.value.id == name:
                            out.append(("unpack", n.value, "*"))
        elif isinstance(n, ast.AnnAssign) and isinstance(n.target, ast.Name) and n.target.id == name and n.value is not None:
            out.append(("assign", n.value, n))
        elif isinstance(n, ast.AugAssign) and isinstance(n.target, ast.Name) and n.target.id == name:
            out.append(("aug", n, n))
        elif isinstance(n, (ast.For, ast.AsyncFor)):
            for e in ast.walk(n.target):
                if isinstance(e, ast.Name) and e.id == name:
                    out.append(("iter", n.iter, n))
        elif isinstance(n, (ast.With, ast.AsyncWith)):
            for it in n.items:
                if it.optional_vars is not None and any(isinstance(e, ast.Name) and e.id == name for e in ast.walk(it.optional_vars)):
                    out.append(("with", it.context_expr, n))
        elif isinstance(n, ast.NamedExpr) and isinstance(n.target, ast.Name) and n.target.id == name:
            out.append(("assign", n.value, n))
        elif isinstance(n, ast.ExceptHandler) and n.name == name:
            out.append(("except", n, n))
    a = fn.args
    if name in [x.arg for x in a.posonlyargs + a.args + a.kwonlyargs] or (a.vararg and a.vararg.arg == name) or (a.kwarg and a.kwarg.arg == name):
        out.append(("param", fn, None))
    return out


def unique_def(fn, name):
    """the single plain assignment `name = <expr>` in fn, else None (parameters and loops disqualify)"""
    ds = local_defs(fn, name)
    if len(ds) == 1 and ds[0][0] == "assign":
        return ds[0][1]
    return None


def expand(p, expr, fn, depth=4, cond=False):
    """copy propagation: a bare local name with a single definition is replaced by that definition"""
    while depth > 0 and isinstance(expr, ast.Name) and fn is not None:
        d = unique_def(fn, expr.id)
        if d is None or (cond and isinstance(d, (ast.List, ast.Dict, ast.Set, ast.Tuple, ast.Constant, ast.ListComp, ast.DictComp, ast.SetComp))):
            break   # as a condition: containers are mutated after their definition; constants carry no condition
        expr = d
        depth -= 1
    return expr


class _Expander(ast.NodeTransformer):
    def __init__(self, p, fn, depth, stop):
        self.p, self.fn, self.depth, self.stop = p, fn, depth, stop

    def visit_Name(self, node):
        if not isinstance(node.ctx, ast.Load) or self.depth <= 0 or node.id in self.stop:
            return node
        d = unique_def(self.fn, node.id)
        if d is None or isinstance(d, (ast.List, ast.Dict, ast.Set, ast.ListComp, ast.DictComp, ast.SetComp, ast.Lambda)):
            return node
        import copy
        sub = _Expander(self.p, self.fn, self.depth - 1, self.stop | {node.id}).visit(copy.deepcopy(d))
        return ast.copy_location(sub, node)


def deep_expand(p, expr, fn, depth=3, stop=()):
    """a copy of expr in which every local name with exactly one plain definition in fn is replaced (recursively) by that definition -
    used only for MATCHING shapes (aliases such as `user = connection.user`, `granted = getattr(...)`, `command = cmd.lower()`), never for reporting"""
    import copy
    if fn is None or expr is None:
        return expr
    return _Expander(p, fn, depth, frozenset(stop)).visit(copy.deepcopy(expr))


def dsrc(p, expr, fn):
    """normalised source of the alias-expanded expression"""
    return src(deep_expand(p, expr, fn))


def closure_lookup(p, fn, name):
    """(function, defs) of the nearest enclosing function (starting at fn) that binds `name`"""
    f = fn
    while f is not None:
        ds = local_defs(f, name)
        if ds:
            return f, ds
        f = p.enclosing_function(f)
    return None, []


# ---------------------------------------------------------------- guards
def conditions_of(p, node, stop):
    """chain of (test, polarity) of enclosing If/While/IfExp up to function `stop` (aliases expanded)"""
    out = []
    child, par = node, p.parent.get(node)
    while par is not None and par is not stop:
        if isinstance(par, ast.If):
            if child in par.body:
                out.append((expand(p, par.test, stop, cond=True), True))
            elif child in par.orelse:
                out.append((expand(p, par.test, stop, cond=True), False))
        elif isinstance(par, ast.While):
            if child in par.body:
                out.append((par.test, True))
        elif isinstance(par, ast.BoolOp) and child in par.values:
            k = par.values.index(child)
            for v in par.values[:k]:   # short-circuit: earlier operands decided the evaluation of this one
                out.append((expand(p, v, stop, cond=True), isinstance(par.op, ast.And)))
        elif isinstance(par, ast.IfExp):
            if child is par.body:
                out.append((expand(p, par.test, stop, cond=True), True))
            elif child is par.orelse:
                out.append((expand(p, par.test, stop, cond=True), False))
        child, par = par, p.parent.get(par)
    return out


def flat_conditions(p, node, stop):
    """conditions_of with `not x` folded into polarity and `a and b` (true) / `a or b` (false) split"""
    out = []

    def add(t, pol):
        if isinstance(t, ast.UnaryOp) and isinstance(t.op, ast.Not):
            add(t.operand, not pol)
        elif isinstance(t, ast.BoolOp) and isinstance(t.op, ast.And) and pol:
            for v in t.values:
                add(expand(p, v, stop, cond=True), True)
        elif isinstance(t, ast.BoolOp) and isinstance(t.op, ast.Or) and not pol:
            for v in t.values:
                add(expand(p, v, stop, cond=True), False)
        else:
            t2 = expand(p, t, stop, cond=True) if isinstance(t, ast.Name) else t
            if t2 is not t:
                add(t2, pol)
            else:
                out.append((t, pol))

    for t, pol in conditions_of(p, node, stop):
        add(t, pol)
    return out


def early_exit_guards(p, node, fn):
    """(test, polarity) facts established by earlier `if <test>: ...return/raise/continue` siblings
    on the way from the function body to `node` (guard clauses)"""
    out = []
    child, par = node, p.parent.get(node)
    while par is not None:
        for field in ("body", "orelse", "finalbody"):
            blk = getattr(par, field, None)
            if isinstance(blk, list) and child in blk:
                for s in blk[:blk.index(child)]:
                    if isinstance(s, ast.If) and not s.orelse and s.body and isinstance(s.body[-1], (ast.Return, ast.Raise, ast.Continue, ast.Break)):
                        out.append((expand(p, s.test, fn, cond=True), False))
        if par is fn:
            break
        child, par = par, p.parent.get(par)
    flat = []

    def add(t, pol):
        if isinstance(t, ast.UnaryOp) and isinstance(t.op, ast.Not):
            add(t.operand, not pol)
        elif isinstance(t, ast.BoolOp) and isinstance(t.op, ast.Or) and not pol:
            for v in t.values:
                add(v, False)
        elif isinstance(t, ast.BoolOp) and isinstance(t.op, ast.And) and pol:
            for v in t.values:
                add(v, True)
        else:
            t2 = expand(p, t, fn, cond=True) if isinstance(t, ast.Name) else t
            if t2 is not t:
                add(t2, pol)
            else:
                flat.append((t, pol))

    for t, pol in out:
        add(t, pol)
    return flat


def all_guards(p, node, fn):
    return flat_conditions(p, node, fn) + early_exit_guards(p, node, fn)


# ---------------------------------------------------------------- stores / calls
def assign_targets(n):
    if isinstance(n, (ast.Assign, ast.Delete)):
        targets = n.targets
    elif isinstance(n, (ast.AugAssign, ast.AnnAssign)):
        targets = [n.target]
    else:
        return []
    flat = []
    for t in targets:
        if isinstance(t, (ast.Tuple, ast.List)):
            flat += [e.value if isinstance(e, ast.Starred) else e for e in t.elts]
        else:
            flat.append(t)
    return flat


def attr_stores(tree_or_fn, attr, nested=True):
    """(stmt, target) for Assign/AugAssign/AnnAssign/Delete targets `<x>.<attr>`"""
    it = ast.walk(tree_or_fn) if nested else walk_no_nested(tree_or_fn)
    for n in it:
        for t in assign_targets(n):
            if isinstance(t, ast.Attribute) and t.attr == attr:
                yield n, t
        if isinstance(n, ast.Call) and isinstance(n.func, ast.Name) and n.func.id in ("setattr", "delattr") and len(n.args) >= 2 \
                and isinstance(n.args[1], ast.Constant) and n.args[1].value == attr:
            yield n, n


def calls_in(node, pred=lambda c: True, nested=True):
    it = ast.walk(node) if nested else walk_no_nested(node)
    for n in it:
        if isinstance(n, ast.Call) and pred(n):
            yield n


def is_method_call(n, attr, recv_last=None):
    """call `<recv>.<attr>(...)`; recv_last: required last attribute/name of the receiver"""
    if not (isinstance(n, ast.Call) and isinstance(n.func, ast.Attribute) and n.func.attr == attr):
        return False
    return recv_last is None or last_attr(n.func.value) == recv_last


def is_self_call(n, names=None):
    return (isinstance(n, ast.Call) and isinstance(n.func, ast.Attribute) and isinstance(n.func.value, ast.Name)
            and n.func.value.id in ("self", "cls") and (names is None or n.func.attr in names))


def is_reply(c, conn=None):
    """call <conn>.response(...) -- the reply primitive is the `response=` field of the session container"""
    return (isinstance(c, ast.Call) and isinstance(c.func, ast.Attribute) and c.func.attr == "response"
            and (conn is None or (isinstance(c.func.value, ast.Name) and c.func.value.id == conn)))


def reply_calls(node, conn=None, nested=False):
    return [c for c in calls_in(node, lambda c: is_reply(c, conn), nested)]


def kwarg(call, name, pos=None):
    for k in call.keywords:
        if k.arg == name:
            return k.value
    if pos is not None and len(call.args) > pos:
        return call.args[pos]
    return None


def literal_prefix(p, e, fn=None):
    """(literal string prefix, the expression appended) of `"VERB " + str(x)` / f"VERB {x}" / f"VERB {x!s}" (aliases expanded); else (None, None)"""
    if fn is not None:
        e = deep_expand(p, e, fn)
    if isinstance(e, ast.Constant) and isinstance(e.value, str):
        return e.value, None
    if isinstance(e, ast.BinOp) and isinstance(e.op, ast.Add) and isinstance(e.left, ast.Constant) and isinstance(e.left.value, str):
        return e.left.value, e.right
    if isinstance(e, ast.JoinedStr) and e.values and isinstance(e.values[0], ast.Constant) and isinstance(e.values[0].value, str):
        rest = e.values[1:]
        if len(rest) == 1 and isinstance(rest[0], ast.FormattedValue) and rest[0].format_spec is None and rest[0].conversion in (-1, 115):
            v = rest[0].value
            return e.values[0].value, ast.Call(func=ast.Name(id="str", ctx=ast.Load()), args=[v], keywords=[])
        if not rest:
            return e.values[0].value, None
        return e.values[0].value, ast.JoinedStr(values=rest)
    return None, None


def const_values(p, expr, fn):
    """possible constant values of expr in fn: constants through name definitions (tuple assignments
    included); None in the list for a non-constant definition"""
    if isinstance(expr, ast.Constant):
        return [expr.value]
    if isinstance(expr, ast.Starred) and isinstance(expr.value, ast.Attribute) and isinstance(expr.value.value, ast.Name) and expr.value.value.id in ("self", "cls") and fn is not None:
        c = p.enclosing_class(fn)
        t = p.class_attr_const(c.name, expr.value.attr) if c is not None else None
        return [t[0] if isinstance(t, tuple) and t and isinstance(t[0], str) else None]
    if isinstance(expr, ast.Starred) and isinstance(expr.value, ast.Name) and fn is not None:
        # f(*reply) with reply = ("503", "text"): the first element
        f, ds = closure_lookup(p, fn, expr.value.id)
        vals = [v.elts[0].value if isinstance(v, ast.Tuple) and v.elts and isinstance(v.elts[0], ast.Constant) else None for k, v, _ in ds if k == "assign"]
        return vals or [None]
    if isinstance(expr, ast.Name) and fn is not None:
        f, ds = closure_lookup(p, fn, expr.id)
        vals = []
        for kind, v, _ in ds:
            if kind == "assign" and isinstance(v, ast.Constant):
                vals.append(v.value)
            elif kind == "assign" and isinstance(v, ast.Name) and v.id != expr.id:
                vals += const_values(p, v, f)
            elif kind == "assign" and isinstance(v, ast.IfExp):
                vals += const_values(p, v.body, f) + const_values(p, v.orelse, f)
            elif kind == "unpack" and isinstance(_, int) and value_alternatives(p, v, f) is not None:
                for alt in value_alternatives(p, v, f):
                    if isinstance(alt, (ast.Tuple, ast.List)) and len(alt.elts) > _ and not any(isinstance(x, ast.Starred) for x in alt.elts):
                        vals += const_values(p, alt.elts[_], f)
                    else:
                        vals.append(None)
            elif kind == "unpack" and isinstance(_, int) and isinstance(v, ast.Attribute) and isinstance(v.value, ast.Name) and v.value.id in ("self", "cls"):
                c = p.enclosing_class(f)
                t = p.class_attr_const(c.name, v.attr) if c is not None else None
                vals.append(t[_] if isinstance(t, tuple) and len(t) > _ and isinstance(t[_], (str, int)) else None)
            else:
                vals.append(None)
        return vals or [None]
    if isinstance(expr, ast.IfExp):
        return const_values(p, expr.body, fn) + const_values(p, expr.orelse, fn)
    return [None]


def value_alternatives(p, v, fn, depth=3):
    """the expressions a table-selected value may be: `{k: a, ...}.get(key, d)` / `{...}[key]` / `a if c else b`, the table being a
    dict display or a local / class-level name bound once to one; None when v has no such form"""
    if depth < 0:
        return None
    if isinstance(v, (ast.Tuple, ast.List)):
        return [v]
    if isinstance(v, ast.IfExp):
        a, b = value_alternatives(p, v.body, fn, depth - 1), value_alternatives(p, v.orelse, fn, depth - 1)
        return None if a is None or b is None else a + b

    def table(e):
        if isinstance(e, ast.Dict):
            return e
        if isinstance(e, ast.Name) and fn is not None:
            d = unique_def(fn, e.id)
            if isinstance(d, ast.Dict):
                return d
            for (mod, name), _f in ():
                pass
            for mod, tree in p.trees.items():
                for n in tree.body:
                    if isinstance(n, ast.Assign) and any(isinstance(t, ast.Name) and t.id == e.id for t in n.targets) and isinstance(n.value, ast.Dict):
                        return n.value
        if isinstance(e, ast.Attribute) and isinstance(e.value, ast.Name) and e.value.id in ("self", "cls") and fn is not None:
            c = p.enclosing_class(fn)
            while c is not None:
                for n in c.body:
                    if isinstance(n, ast.Assign) and any(isinstance(t, ast.Name) and t.id == e.attr for t in n.targets) and isinstance(n.value, ast.Dict):
                        return n.value
                c = None
        return None
    if isinstance(v, ast.Call) and isinstance(v.func, ast.Attribute) and v.func.attr == "get" and v.args:
        t = table(v.func.value)
        if t is None:
            return None
        out = list(t.values)
        out.append(v.args[1] if len(v.args) > 1 else ast.Constant(None))
        res = []
        for x in out:
            alt = value_alternatives(p, x, fn, depth - 1)
            res += alt if alt is not None else [x]
        return res
    if isinstance(v, ast.Subscript):
        t = table(v.value)
        if t is None:
            return None
        res = []
        for x in t.values:
            alt = value_alternatives(p, x, fn, depth - 1)
            res += alt if alt is not None else [x]
        return res
    if isinstance(v, ast.Name) and fn is not None:
        d = unique_def(fn, v.id)
        if d is not None and not isinstance(d, ast.Name):
            return value_alternatives(p, d, fn, depth - 1)
    return None


# ---------------------------------------------------------------- may-suspend
SUSPENDING = {"asyncio.sleep", "asyncio.wait", "asyncio.wait_for", "asyncio.gather", "asyncio.start_server",
              "asyncio.open_connection", "open_connection", "asyncio.shield", "asyncio.as_completed"}


def may_suspend_fn(p, fn, seen=None):
    """does coroutine function fn contain an await that may suspend?"""
    seen = seen or set()
    if fn in seen:
        return True
    seen = seen | {fn}
    # a decorator whose wrapper suspends (executor hop, wait_for) makes the decorated operation suspend
    for d in fn.decorator_list:
        name = last_attr(d.func if isinstance(d, ast.Call) else d)
        if name in ("_blocking_io", "with_timeout", "_with_timeout"):
            return True
    for n in walk_no_nested(fn):
        if isinstance(n, (ast.AsyncWith, ast.AsyncFor)):
            return True
        if isinstance(n, ast.Await) and may_suspend_await(p, n, fn, seen):
            return True
    return False


def may_suspend_await(p, aw, fn, seen=None):
    seen = seen or set()
    v = aw.value
    if not isinstance(v, ast.Call):
        return True
    d = dotted(v.func)
    if d in SUSPENDING:
        return True
    targets = resolve_callees(p, v, fn)
    if not targets:
        return True
    # awaiting what a plain `def` returns (a lister with __await__, a future, a task) suspends for all we know
    return any(not isinstance(t, ast.AsyncFunctionDef) or may_suspend_fn(p, t, seen) for t in targets)


def may_suspend_node(p, node, fn):
    """does evaluating this statement/expression (not nested defs) possibly suspend?"""
    for n in walk_self(node):
        if isinstance(n, (ast.AsyncWith, ast.AsyncFor)):
            return True
        if isinstance(n, ast.Await) and may_suspend_await(p, n, fn):
            return True
    return False


def resolve_callees(p, call, fn):
    """resolve a call to repository functions; None if unknown"""
    f = call.func
    if isinstance(f, ast.Attribute):
        recv = f.value
        if last_attr(recv) == "user_manager":
            out = [m[f.attr] for c in ("AbstractUserManager", "MemoryUserManager") if c in p.classes
                   for m in [p.methods(c)] if f.attr in m]
            return out or None
        if last_attr(recv) in ("path_io", "pathio"):
            out = [p.methods(b, inherited=True)[f.attr] for b in p.backends() if f.attr in p.methods(b, inherited=True)]
            return out or None
        if isinstance(recv, ast.Name) and recv.id in ("self", "cls"):
            c = p.enclosing_class(fn)
            if c is not None:
                ms = p.methods(c.name, inherited=True)
                if f.attr in ms:
                    return [ms[f.attr]]
        if isinstance(recv, ast.Call) and isinstance(recv.func, ast.Name) and recv.func.id == "super":
            c = p.enclosing_class(fn)
            if c is not None:
                for b in p.mro(c.name)[1:]:
                    if f.attr in p.methods(b):
                        return [p.methods(b)[f.attr]]
        # fallback: a method name defined by exactly one class of the package (e.g. <session>.user.get_permissions)
        owners = [(cn, cd) for cn, (cd, _m) in p.classes.items() if f.attr in p.methods(cn)]
        if len(owners) == 1 and not f.attr.startswith("__") and f.attr not in ("read", "write", "close", "get", "wait", "join", "put"):
            return [p.methods(owners[0][0])[f.attr]]
        return None
    if isinstance(f, ast.Name):
        e = fn
        while e is not None:
            for n in ast.walk(e):
                if isinstance(n, FuncT) and n.name == f.id and n is not e:
                    return [n]
            e = p.enclosing_function(e)
        mf = p.module_funcs.get((p.module_of[fn], f.id))
        if mf:
            return [mf]
    return None


# ---------------------------------------------------------------- path enumeration wrappers
def handled_classes(fn):
    out = []
    for n in walk_no_nested(fn):
        if isinstance(n, ast.ExceptHandler) and n.type is not None:
            out += handler_names(n)
    return out


def enum_paths(p, fn, unroll=1, extra_raise=None, body=None):
    """normal paths + paths into the function's own except handlers (any statement with a call or await
    inside a try body may raise the classes that try handles)"""
    def may_raise(node):
        if isinstance(node, tuple) or isinstance(node, ast.expr):
            return []
        if isinstance(node, FuncT + (ast.ClassDef,)):
            return []
        out = []
        par = p.parent.get(node)
        child = node
        while par is not None and par is not fn:
            if isinstance(par, ast.Try) and child in par.body and any(isinstance(x, (ast.Call, ast.Await)) for x in walk_self(node)):
                for h in par.handlers:
                    out += handler_names(h)
            child, par = par, p.parent.get(par)
        if extra_raise:
            out += extra_raise(node)
        return list(dict.fromkeys(out))
    try:
        return Cfg(may_raise, p.issub, unroll=unroll).seq(fn.body if body is None else body)
    except RuntimeError as e:
        raise AnalysisError(f"path explosion in {p.qualname(fn)}: {e}")


def stmt_events(ev):
    return [e[1] for e in ev if e[0] == "stmt"]


# ---------------------------------------------------------------- guards evaluated as tables
class _Unknown(Exception):
    pass


def eval_expr(p, e, env, fn=None):
    """concrete evaluation of a guard expression under a valuation env: {normalised source text: value}; names with a single
    definition are expanded; anything outside the vocabulary raises _Unknown"""
    s = src(e)
    if s in env:
        return env[s]
    if isinstance(e, ast.Constant):
        return e.value
    if isinstance(e, ast.Name) and fn is not None:
        d = unique_def(fn, e.id)
        if d is not None:
            return eval_expr(p, d, env, fn)
        raise _Unknown(s)
    if isinstance(e, ast.UnaryOp) and isinstance(e.op, ast.Not):
        return not eval_expr(p, e.operand, env, fn)
    if isinstance(e, ast.UnaryOp) and isinstance(e.op, ast.USub):
        return -eval_expr(p, e.operand, env, fn)
    if isinstance(e, ast.BoolOp):
        r = None
        for v in e.values:
            r = eval_expr(p, v, env, fn)
            if isinstance(e.op, ast.And) and not r:
                return r
            if isinstance(e.op, ast.Or) and r:
                return r
        return r
    if isinstance(e, ast.Compare):
        left = eval_expr(p, e.left, env, fn)
        for op, c in zip(e.ops, e.comparators):
            right = eval_expr(p, c, env, fn)
            try:
                ok = {ast.Is: lambda a, b: a is b, ast.IsNot: lambda a, b: a is not b, ast.Eq: lambda a, b: a == b, ast.NotEq: lambda a, b: a != b,
                      ast.Gt: lambda a, b: a > b, ast.GtE: lambda a, b: a >= b, ast.Lt: lambda a, b: a < b, ast.LtE: lambda a, b: a <= b,
                      ast.In: lambda a, b: a in b, ast.NotIn: lambda a, b: a not in b}[type(op)](left, right)
            except TypeError:
                raise _Unknown(s)      # e.g. None > 0: the real code would raise; callers treat it as unreachable-by-error
            if not ok:
                return False
            left = right
        return True
    if isinstance(e, (ast.Tuple, ast.List, ast.Set)):
        return [eval_expr(p, x, env, fn) for x in e.elts]
    if isinstance(e, ast.Call) and isinstance(e.func, ast.Attribute) and e.func.attr in ("startswith", "endswith", "lower", "upper", "strip", "lstrip", "rstrip", "isdigit"):
        recv = eval_expr(p, e.func.value, env, fn)
        if isinstance(recv, str):
            args = [eval_expr(p, a, env, fn) for a in e.args]
            if all(isinstance(a, (str, tuple)) for a in args):
                return getattr(recv, e.func.attr)(*args)
    if isinstance(e, ast.Call) and isinstance(e.func, ast.Name) and e.func.id in ("len", "bool", "str") and len(e.args) == 1:
        v = eval_expr(p, e.args[0], env, fn)
        return {"len": len, "bool": bool, "str": str}[e.func.id](v)
    raise _Unknown(s)


def reachable_under(p, node, fn, env):
    """is `node` reachable (all its enclosing tests and guard clauses satisfied) under the valuation env? None if a test is outside the vocabulary
    (a test that is definitely not satisfied makes the node unreachable whatever the others are - this also models short-circuit `a and b`)"""
    unknown = False
    for t, pol in all_guards(p, node, fn):
        try:
            if bool(eval_expr(p, t, env, fn)) != pol:
                return False
        except _Unknown:
            unknown = True
    return None if unknown else True


def hnames(p, h):
    """exception class names of an except handler, resolving `except <name>:` through a single local/enclosing/module definition of a tuple"""
    if h.type is None:
        return ["BaseException"]
    if isinstance(h.type, ast.Name):
        fn = p.enclosing_function(h)
        f, ds = closure_lookup(p, fn, h.type.id) if fn is not None else (None, [])
        vals = [v for k, v, _ in ds if k == "assign"]
        if not vals:
            mod = p.module_of.get(h)
            v = p.module_const(mod, h.type.id) if mod else None
            vals = [v] if v is not None else []
        if len(vals) == 1 and isinstance(vals[0], ast.Tuple):
            return [exc_name(x) for x in vals[0].elts]
    return handler_names(h)


def elements_of(p, fn, expr, depth=4, _seen=None):
    """flow-insensitive description of the members of a collection-valued expression inside fn:
    'all:<src>' (every member of that collection), 'item:<src>' (one object), 'each:<elt>|<target>|<iter>' (comprehension).
    A name contributes itself ('all:<name>') and whatever its local definitions / append / extend / add / update / augmented
    assignments put into it; a loop variable contributes the members of the iterated expression."""
    _seen = _seen if _seen is not None else set()
    out = set()
    if depth < 0 or expr is None:
        return out
    if isinstance(expr, ast.Starred):
        return elements_of(p, fn, expr.value, depth, _seen)
    if isinstance(expr, (ast.List, ast.Tuple, ast.Set)):
        for e in expr.elts:
            if isinstance(e, ast.Starred):
                out |= elements_of(p, fn, e.value, depth - 1, _seen)
            else:
                out |= _item(p, fn, e, depth - 1, _seen)
        return out
    if isinstance(expr, ast.Call):
        name = (dotted(expr.func) or "").split(".")[-1]
        if name in ("list", "set", "tuple", "sorted", "frozenset", "reversed") and len(expr.args) == 1:
            return elements_of(p, fn, expr.args[0], depth - 1, _seen)
        if name == "chain":
            for a in expr.args:
                out |= elements_of(p, fn, a, depth - 1, _seen)
            return out
        if name == "copy" and isinstance(expr.func, ast.Attribute) and not expr.args:
            return elements_of(p, fn, expr.func.value, depth - 1, _seen)
        return {"all:" + src(expr)}
    if isinstance(expr, ast.BinOp) and isinstance(expr.op, (ast.BitOr, ast.Add)):
        return elements_of(p, fn, expr.left, depth, _seen) | elements_of(p, fn, expr.right, depth, _seen)
    if isinstance(expr, (ast.ListComp, ast.SetComp, ast.GeneratorExp)) and len(expr.generators) == 1 and not expr.generators[0].ifs:
        g = expr.generators[0]
        if isinstance(expr.elt, ast.Name) and isinstance(g.target, ast.Name) and expr.elt.id == g.target.id:
            return elements_of(p, fn, g.iter, depth - 1, _seen)
        return {f"each:{src(expr.elt)}|{src(g.target)}|{src(g.iter)}"}
    if isinstance(expr, ast.Name):
        out.add("all:" + expr.id)
        if expr.id in _seen or fn is None:
            return out
        _seen = _seen | {expr.id}
        for n in walk_no_nested(fn):
            if isinstance(n, ast.Assign):
                for t in n.targets:
                    if isinstance(t, ast.Name) and t.id == expr.id:
                        out |= elements_of(p, fn, n.value, depth - 1, _seen)
            elif isinstance(n, ast.AugAssign) and isinstance(n.target, ast.Name) and n.target.id == expr.id:
                out |= elements_of(p, fn, n.value, depth - 1, _seen)
            elif isinstance(n, ast.Call) and isinstance(n.func, ast.Attribute) and isinstance(n.func.value, ast.Name) and n.func.value.id == expr.id and n.args:
                if n.func.attr in ("append", "add"):
                    loop = _loop_binding(p, n, n.args[0])
                    if loop is not None:
                        out.add(f"each:{src(n.args[0])}|{src(loop.target)}|{src(loop.iter)}")
                    else:
                        out |= _item(p, fn, n.args[0], depth - 1, _seen, site=n)
                elif n.func.attr in ("extend", "update"):
                    for a in n.args:
                        out |= elements_of(p, fn, a, depth - 1, _seen)
        return out
    return {"all:" + src(expr)}


def _item(p, fn, e, depth, _seen, site=None):
    out = {"item:" + src(e)}
    if isinstance(e, ast.Name) and fn is not None:
        for n in walk_no_nested(fn):
            if isinstance(n, (ast.For, ast.AsyncFor)) and isinstance(n.target, ast.Name) and n.target.id == e.id:
                if site is not None and not any(site is x for x in ast.walk(n)):
                    continue    # the name is a loop variable elsewhere; this use is outside that loop (a reused name)
                out |= elements_of(p, fn, n.iter, depth, _seen)
            elif isinstance(n, ast.Assign) and any(isinstance(t, ast.Name) and t.id == e.id for t in n.targets):
                out.add("item:" + src(n.value))
    return out


def _loop_binding(p, call, item):
    """the for loop whose variable `item` depends on, when `call` sits unconditionally in that loop's body (None otherwise)"""
    names = {x.id for x in ast.walk(item) if isinstance(x, ast.Name)}
    child, par = call, p.parent.get(call)
    while par is not None and not isinstance(par, FuncT):
        if isinstance(par, (ast.If, ast.Try, ast.While, ast.IfExp, ast.BoolOp)):
            return None
        if isinstance(par, (ast.For, ast.AsyncFor)):
            tn = {x.id for x in ast.walk(par.target) if isinstance(x, ast.Name)}
            if tn & names and not isinstance(item, ast.Name):
                return par
            return None
        child, par = par, p.parent.get(par)
    return None


def thunk_call(p, fn, e):
    """the call a zero-argument callable performs: `lambda: f(x)`, a local `def g(): return f(x)`, `functools.partial(f, x)`; None otherwise"""
    if isinstance(e, ast.Lambda) and not (e.args.args or e.args.vararg or e.args.kwarg or e.args.kwonlyargs):
        return e.body if isinstance(e.body, ast.Call) else None
    if isinstance(e, ast.Name):
        for n in ast.walk(fn):
            if isinstance(n, FuncT) and n.name == e.id and n is not fn and not (n.args.args or n.args.vararg or n.args.kwarg or n.args.kwonlyargs):
                body = [s for s in n.body if not (isinstance(s, ast.Expr) and isinstance(s.value, ast.Constant))]
                if len(body) == 1 and isinstance(body[0], ast.Return):
                    v = body[0].value
                    if isinstance(n, ast.AsyncFunctionDef) and isinstance(v, ast.Await):
                        v = v.value
                    return v if isinstance(v, ast.Call) else None
        d = unique_def(fn, e.id)
        if d is not None and not isinstance(d, ast.Name):
            return thunk_call(p, fn, d)
    if isinstance(e, ast.Call) and (dotted(e.func) or "").split(".")[-1] == "partial" and e.args:
        return ast.copy_location(ast.Call(func=e.args[0], args=list(e.args[1:]), keywords=list(e.keywords)), e)
    return None


def flatten_test(p, t, pol, fn):
    """atomic (test, polarity) facts implied by `t` evaluating to `pol`: `not` folded, true conjunctions / false disjunctions split,
    names with one definition expanded"""
    out = []

    def add(t, pol):
        if isinstance(t, ast.UnaryOp) and isinstance(t.op, ast.Not):
            add(t.operand, not pol)
        elif isinstance(t, ast.BoolOp) and isinstance(t.op, ast.And) and pol:
            for v in t.values:
                add(v, True)
        elif isinstance(t, ast.BoolOp) and isinstance(t.op, ast.Or) and not pol:
            for v in t.values:
                add(v, False)
        else:
            t2 = expand(p, t, fn, cond=True) if isinstance(t, ast.Name) else t
            if t2 is not t:
                add(t2, pol)
            else:
                out.append((t, pol))
    add(t, pol)
    return out
