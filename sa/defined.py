"""definite assignment: a local name that a normal path reads before any statement on that path has bound it (UnboundLocalError at run time).

Paths come from the syntax-directed enumerator (loops entered at least once - "the collection is known to be non-empty" is a common idiom and not
this rule's business; an exception edge is followed only from the last call of a try body - everything the body bound before counts as bound in the handler; what the body of a loop binds counts as bound after the loop).  A path on
which one name would have to be equal to and different from the same constants (`x in (a, b)` taken, `x == a` and `x == b` refused) is infeasible."""
import ast
from .model import FuncT, walk_no_nested, walk_self, src
from .paths import Cfg


def _stores(node):
    if isinstance(node, FuncT + (ast.ClassDef,)):
        return {node.name}
    out = set()
    for x in walk_self(node):
        if isinstance(x, ast.Name) and isinstance(x.ctx, (ast.Store, ast.Del)):
            out.add(x.id)
        elif isinstance(x, (ast.Import, ast.ImportFrom)):
            for al in x.names:
                out.add((al.asname or al.name).split(".")[0])
    return out


def _loads(node):
    if isinstance(node, FuncT + (ast.ClassDef,)):
        return []
    comp = set()
    for x in walk_self(node):
        if isinstance(x, (ast.ListComp, ast.SetComp, ast.DictComp, ast.GeneratorExp)):
            for g in x.generators:
                comp |= {n.id for n in ast.walk(g.target) if isinstance(n, ast.Name)}
    return [x for x in walk_self(node) if isinstance(x, ast.Name) and isinstance(x.ctx, ast.Load) and x.id not in comp]


def _const_set(e):
    if isinstance(e, ast.Constant):
        return {e.value}
    if isinstance(e, (ast.Tuple, ast.List, ast.Set)) and all(isinstance(x, ast.Constant) for x in e.elts):
        return {x.value for x in e.elts}
    return None


def _feasible(ev):
    allowed, excluded = {}, {}
    for e in ev:
        if e[0] != "branch":
            continue
        t, pol = e[1], e[2]
        while isinstance(t, ast.UnaryOp) and isinstance(t.op, ast.Not):
            t, pol = t.operand, not pol
        if isinstance(t, ast.Compare) and len(t.ops) == 1 and isinstance(t.left, (ast.Name, ast.Attribute)):
            vals = _const_set(t.comparators[0])
            if vals is None:
                continue
            key = src(t.left)
            op = t.ops[0]
            pos = (isinstance(op, (ast.Eq, ast.In)) and pol) or (isinstance(op, (ast.NotEq, ast.NotIn)) and not pol)
            neg = (isinstance(op, (ast.Eq, ast.In)) and not pol) or (isinstance(op, (ast.NotEq, ast.NotIn)) and pol)
            try:
                if pos:
                    allowed[key] = (allowed[key] & vals) if key in allowed else set(vals)
                elif neg:
                    excluded.setdefault(key, set()).update(vals)
            except TypeError:
                continue
    for k, a in allowed.items():
        if not (a - excluded.get(k, set())):
            return False
    return True


import builtins as _builtins


def _comp_var(p, n):
    """n is a variable of an enclosing comprehension / lambda"""
    q = p.parent.get(n)
    while q is not None and not isinstance(q, FuncT):
        if isinstance(q, (ast.ListComp, ast.SetComp, ast.DictComp, ast.GeneratorExp)):
            if any(isinstance(x, ast.Name) and x.id == n.id for g in q.generators for x in ast.walk(g.target)):
                return True
        if isinstance(q, ast.Lambda):
            a = q.args
            if n.id in {x.arg for x in a.posonlyargs + a.args + a.kwonlyargs} | ({a.vararg.arg} if a.vararg else set()) | ({a.kwarg.arg} if a.kwarg else set()):
                return True
        q = p.parent.get(q)
    return False


def _visible_names(p, fn):
    out = set(dir(_builtins)) | {"__class__", "__name__", "__file__", "__doc__"}
    mod = p.module_of.get(fn)
    tree = p.trees.get(mod)
    if tree is not None:
        stack = list(tree.body)
        while stack:
            n = stack.pop()
            if isinstance(n, FuncT + (ast.ClassDef,)):
                out.add(n.name)
                continue
            if isinstance(n, (ast.Import, ast.ImportFrom)):
                for al in n.names:
                    out.add((al.asname or al.name).split(".")[0])
            elif isinstance(n, ast.Name) and isinstance(n.ctx, ast.Store):
                out.add(n.id)
            elif isinstance(n, ast.ExceptHandler) and n.name:
                out.add(n.name)
            stack.extend(ast.iter_child_nodes(n))
    q = p.parent.get(fn)
    while q is not None:
        if isinstance(q, FuncT):
            a = q.args
            out |= {x.arg for x in a.posonlyargs + a.args + a.kwonlyargs} | ({a.vararg.arg} if a.vararg else set()) | ({a.kwarg.arg} if a.kwarg else set())
            for x in ast.walk(q):
                if isinstance(x, ast.Name) and isinstance(x.ctx, ast.Store):
                    out.add(x.id)
                elif isinstance(x, FuncT + (ast.ClassDef,)):
                    out.add(x.name)
                elif isinstance(x, ast.ExceptHandler) and x.name:
                    out.add(x.name)
        q = p.parent.get(q)
    return out


def undefined_uses(p, fn):
    """[(name node, text)] for reads of function-local names that some feasible normal path reaches unbound"""
    a = fn.args
    params = {x.arg for x in a.posonlyargs + a.args + a.kwonlyargs} | ({a.vararg.arg} if a.vararg else set()) | ({a.kwarg.arg} if a.kwarg else set())
    local, outer = set(), set()
    pre = set()     # nested defs / classes are bound when their statement runs; treated as bound on entry (they sit at the top of their block in this code base)
    for n in walk_no_nested(fn):
        if isinstance(n, (ast.Global, ast.Nonlocal)):
            outer |= set(n.names)
        elif isinstance(n, FuncT + (ast.ClassDef,)):
            pre.add(n.name)
        elif isinstance(n, ast.ExceptHandler) and n.name:
            local.add(n.name)
        else:
            local |= {x.id for x in [n] if isinstance(x, ast.Name) and isinstance(x.ctx, (ast.Store, ast.Del))}
        if isinstance(n, (ast.Import, ast.ImportFrom)):
            for al in n.names:
                local.add((al.asname or al.name).split(".")[0])
    local -= params | outer | pre
    found, seen = [], set()
    # names that are bound nowhere (not a local, parameter, enclosing-scope name, module-level name or builtin): NameError when reached
    known = _visible_names(p, fn) | local | params | outer | pre
    for n in walk_no_nested(fn):
        if isinstance(n, (ast.ListComp, ast.SetComp, ast.DictComp, ast.GeneratorExp, ast.Lambda)):
            continue
        if isinstance(n, ast.Name) and isinstance(n.ctx, ast.Load) and n.id not in known and n.id not in seen and not _comp_var(p, n):
            seen.add(n.id)
            found.append((n, src(p.enclosing_stmt(n))[:60] if hasattr(p, "enclosing_stmt") else n.id))
    if not local:
        return found
    # exception edges: only from the LAST statement of a try body that can raise (a call or await): everything the body bound before it counts as bound
    # in the handler - optimistic, so that a handler reading what the try body assigned is not reported, while the handler's own code is still walked
    last_raisers = {}
    for t in walk_no_nested(fn):
        if isinstance(t, ast.Try) and t.handlers:
            cands = [s_ for s_ in t.body if any(isinstance(x, (ast.Call, ast.Await)) for x in walk_self(s_))]
            if cands:
                names = []
                for h in t.handlers:
                    names += ["BaseException"] if h.type is None else [getattr(x, "attr", getattr(x, "id", "?")) for x in (h.type.elts if isinstance(h.type, ast.Tuple) else [h.type])]
                last_raisers[id(cands[-1])] = list(dict.fromkeys(names))

    def may_raise(node):
        return last_raisers.get(id(node), [])
    try:
        paths = Cfg(may_raise, p.issub, unroll=1, bonus=False).seq(fn.body)   # binding is decided by one iteration: deeper unrolling adds nothing
    except RuntimeError:
        return found
    lcache, scache = {}, {}

    def loads(node):
        k = id(node)
        if k not in lcache:
            lcache[k] = _loads(node)
        return lcache[k]

    def stores(node):
        k = id(node)
        if k not in scache:
            scache[k] = _stores(node)
        return scache[k]
    for ev, out in paths:
        if any(e[0] == "loopexit" and e[2] == 0 and isinstance(e[1], (ast.For, ast.AsyncFor)) for e in ev):
            continue
        if not _feasible(ev):
            continue
        bound = set()
        for e in ev:
            k = e[0]
            if k == "handler":
                if getattr(e[1], "name", None):
                    bound.add(e[1].name)
                continue
            if k in ("loopiter",) and isinstance(e[1], (ast.For, ast.AsyncFor)):
                bound |= {n.id for n in ast.walk(e[1].target) if isinstance(n, ast.Name)}
                continue
            if k == "loopexit" and isinstance(e[1], (ast.For, ast.AsyncFor, ast.While)):
                # a search loop is assumed to find what it looks for: what its body binds counts as bound after it
                bound |= {n.id for s_ in e[1].body for n in ast.walk(s_) if isinstance(n, ast.Name) and isinstance(n.ctx, ast.Store)}
                continue
            node = e[1] if k in ("stmt", "branch", "enter") else e[1].iter if k in ("iter", "aiter") else None
            if node is None or isinstance(node, (ast.For, ast.AsyncFor, ast.While, ast.If, ast.Try, ast.With, ast.AsyncWith)):
                continue
            for x in loads(node):
                if x.id in local and x.id not in bound and x.id not in seen:
                    seen.add(x.id)
                    found.append((x, src(p.enclosing_stmt(x))[:60] if hasattr(p, "enclosing_stmt") else x.id))
            bound |= stores(node)
            if k == "enter":
                item = p.parent.get(node)
                if isinstance(item, ast.withitem) and item.optional_vars is not None:
                    bound |= {n.id for n in ast.walk(item.optional_vars) if isinstance(n, ast.Name)}
    return found
