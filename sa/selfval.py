"""Thorough tier: rule self-validation on the CURRENT tree.

Each seed is a small source rewrite (anchored on statement text of the current sources; a seed whose anchor is not
present exactly once is skipped as n/a - the tree has moved on). Breaking seeds must make the property's own check
report a NEW finding (compared with the findings of the unmodified tree); benign seeds must leave the verdict
unchanged. The rewrites are applied to the in-memory source dictionary: nothing is written, nothing is executed.
A pass from a rule that misses its own seeded fault is not believed (the caller turns it into ANALYSIS-ERROR)."""
import json
import pathlib

SEEDS = json.loads((pathlib.Path(__file__).resolve().parent / "selfval_seeds.json").read_text())


def run(prop, sources, base_findings):
    from .cli import analyse
    base = {f.key() for f in base_findings}
    details, blind, false_alarms = [], [], []
    n_break = n_benign = n_na = 0
    for s in SEEDS:
        if s["property"] not in (prop, "*"):
            continue
        src = sources.get(s["module"])
        if src is None or src.count(s["old"]) != 1:
            n_na += 1
            details.append({"seed": s["id"], "result": "n/a (anchor text not present exactly once in the current tree)"})
            continue
        s2 = dict(sources)
        s2[s["module"]] = src.replace(s["old"], s["new"])
        status, findings, ctx, msg = analyse(prop, s2)
        new = sorted({f.key() for f in findings} - base) if status == "ok" else []
        if s["benign"]:
            n_benign += 1
            if status != "ok" or new:
                false_alarms.append(s["id"])
                details.append({"seed": s["id"], "kind": "benign", "result": "FALSE ALARM", "status": status, "new": [str(k) for k in new], "msg": msg})
            else:
                details.append({"seed": s["id"], "kind": "benign", "result": "silent"})
        else:
            n_break += 1
            if status == "ok" and not new:
                blind.append(s["id"])
                details.append({"seed": s["id"], "kind": "breaking", "expect": s["expect"], "result": "MISSED"})
            else:
                details.append({"seed": s["id"], "kind": "breaking", "expect": s["expect"], "result": "reported" if status == "ok" else f"analysis {status}",
                                "new": [k[0] + " @ " + k[1] for k in new][:4], "msg": msg})
    summary = {"breaking_seeds_applied": n_break, "breaking_seeds_reported": n_break - len(blind), "benign_seeds_applied": n_benign,
               "benign_seeds_silent": n_benign - len(false_alarms), "seeds_not_applicable": n_na}
    return {"summary": summary, "details": details, "blind": blind, "false_alarms": false_alarms}
