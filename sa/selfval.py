"""Thorough tier: rule self-validation on the CURRENT tree.

Each seed is a small source rewrite: a list of text edits (module, old block, new block) anchored on the text of the
current sources; a seed whose anchor is not present exactly once is skipped as n/a - the tree has moved on. Breaking
seeds (hand-written mutants and independently produced breaking changes) must make the property's own check report a
NEW finding compared with the unmodified tree; benign seeds (hand-written and independently produced behaviour-preserving
refactorings) must leave the verdict unchanged. The rewrites are applied to the in-memory source dictionary: nothing is
written to disk, nothing of the repository is executed. A pass from a rule that misses its own seeded fault, or a rule
that fires on a benign variant, is not believed (the caller turns it into ANALYSIS-ERROR)."""
import concurrent.futures as cf
import json
import os
import pathlib

SEEDS = json.loads((pathlib.Path(__file__).resolve().parent / "selfval_seeds.json").read_text())
_CTX = {}


def _apply(sources, seed):
    s2 = dict(sources)
    for ed in seed["edits"]:
        src = s2.get(ed["module"])
        if src is None or src.count(ed["old"]) != 1:
            return None
        s2[ed["module"]] = src.replace(ed["old"], ed["new"])
    return s2


def _one(i):
    from .cli import analyse
    seed = SEEDS[i]
    s2 = _apply(_CTX["sources"], seed)
    if s2 is None:
        return i, "n/a", [], None
    status, findings, ctx, msg = analyse(_CTX["prop"], s2)
    new = sorted({f.key() for f in findings} - _CTX["base"]) if status == "ok" else []
    return i, status, new, msg


def run(prop, sources, base_findings):
    _CTX.update(prop=prop, sources=sources, base={f.key() for f in base_findings})
    idx = [i for i, s in enumerate(SEEDS) if s["property"] in (prop, "*") or prop in s.get("properties", ())]
    workers = min(16, os.cpu_count() or 2)
    try:
        import multiprocessing
        with cf.ProcessPoolExecutor(workers, mp_context=multiprocessing.get_context("fork")) as ex:
            results = list(ex.map(_one, idx, chunksize=4))
    except Exception:
        results = [_one(i) for i in idx]
    details, blind, false_alarms = [], [], []
    n_break = n_benign = n_na = 0
    for i, status, new, msg in results:
        s = SEEDS[i]
        if status == "n/a":
            n_na += 1
            details.append({"seed": s["id"], "result": "n/a (anchor text not present exactly once in the current tree)"})
        elif s["benign"]:
            n_benign += 1
            if status != "ok" or new:
                false_alarms.append(s["id"])
                details.append({"seed": s["id"], "kind": "benign", "result": "FALSE ALARM", "status": status, "new": [str(k) for k in new], "msg": msg})
            else:
                details.append({"seed": s["id"], "kind": "benign", "result": "silent"})
        else:
            n_break += 1
            if status == "ok" and not new:
                blind.append(s["id"])
                details.append({"seed": s["id"], "kind": "breaking", "expect": s["expect"], "result": "MISSED"})
            else:
                details.append({"seed": s["id"], "kind": "breaking", "expect": s["expect"], "result": "reported" if status == "ok" else f"analysis {status}",
                                "new": [k[0] + " @ " + k[1] for k in new][:4], "msg": msg})
    summary = {"breaking_seeds_applied": n_break, "breaking_seeds_reported": n_break - len(blind), "benign_seeds_applied": n_benign,
               "benign_seeds_silent": n_benign - len(false_alarms), "seeds_not_applicable": n_na}
    return {"summary": summary, "details": details, "blind": blind, "false_alarms": false_alarms}
